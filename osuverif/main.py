"""Driver: ./check <id> --tier quick|thorough [--root DIR] [--replay FILE]"""
from __future__ import annotations

import argparse
import importlib
import json
import os
import sys
import traceback


def main(argv=None) -> int:
    ap = argparse.ArgumentParser()
    ap.add_argument("pid")
    ap.add_argument("--tier", default=os.environ.get("VERIF_TIER", "quick"), choices=["quick", "thorough"])
    ap.add_argument("--root", default=os.environ.get("OSU_VERIF_ROOT", "/repo"))
    ap.add_argument("--replay", default=None)
    args = ap.parse_args(argv)
    pid = args.pid
    if pid == "selftest":
        from . import selftest
        return selftest.main(args)
    seed = int(os.environ.get("VERIF_SEED", "0") or 0)
    # watchdog: an analysis that does not come back (an algebraic normalisation running away on code the rules have not met) is an
    # inconclusive answer, never a hang: ANALYSIS-INCONCLUSIVE and exit 2 after the limit (quick 600 s, thorough 3000 s; the clean
    # tree needs 0.2-10 s / 15 s)
    try:
        import signal
        limit = int(os.environ.get("OSU_VERIF_TIME_LIMIT", "600" if args.tier == "quick" else "3000"))

        def _timeout(signum, frame):
            print(f"ANALYSIS-INCONCLUSIVE property={pid} rule=watchdog construct=<analysis> at : no answer within {limit} s; "
                  "the analysis was stopped (no verdict)", flush=True)
            os._exit(2)
        signal.signal(signal.SIGALRM, _timeout)
        signal.alarm(limit)
    except Exception:
        pass
    try:
        from .model import Program, AnalysisError
        from .report import Ctx, finish
        if args.replay:
            with open(args.replay) as fh:
                rec = json.load(fh)
            print(f"replaying {rec.get('rule')} {rec.get('construct')} ({rec.get('loc')}) on {args.root}")
        mod = importlib.import_module(f"osuverif.rules.{pid.lower()}")
        program = Program(args.root)
        ctx = Ctx(pid, args.tier, program, args.root, seed)
        mod.run(ctx)
        if args.tier == "thorough":
            from . import thorough
            thorough.extra(ctx, args)
        rc = finish(ctx)
        if args.replay:
            hit = [o for o in ctx.obligations if o.rule == rec.get("rule") and o.construct == rec.get("construct")]
            for o in hit:
                print(f"replay: {o.rule} {o.construct} -> {o.verdict}: {o.detail}")
        return rc
    except Exception as e:  # analysis errors are never reported as violations
        kind = type(e).__name__
        print(f"ANALYSIS-ERROR property={pid} {kind}: {e}")
        traceback.print_exc()
        try:
            from .report import VERIF
            import time
            os.makedirs(os.path.join(VERIF, "evidence"), exist_ok=True)
            with open(os.path.join(VERIF, "evidence", f"{pid}.json"), "w") as fh:
                json.dump({"property_id": pid, "tier": args.tier, "seed": seed, "level": "other",
                           "coverage": {"explanation": f"analysis error: {kind}: {e}", "evaluations": 1,
                                        "distinct_nontrivial": 0, "samples": []},
                           "wall_s": 0.0, "violations": 0}, fh)
        except Exception:
            pass
        return 2


if __name__ == "__main__":
    sys.exit(main())
