"""Instance-level memoisation (engine E4c): a value derived from an object's state or from a method argument and kept on the
instance is a second copy of that state.  It is sound only if every way of changing what it was derived from also refreshes
or clears it.  The rule is structural:

* a *memo* is an attribute `self.A` assigned in a method other than `__init__` / a property setter, where the same method
  also reads `self.A` (fill-on-demand idiom) or returns it;
* if the stored expression reads a parameter of the method, the guard that decides whether to reuse the stored value must
  compare that very parameter (by `is` / `==`) with something stored on the instance - a guard on something *derived* from
  the parameter (a shape, a length) cannot tell two different arguments apart;
* if it reads other state of the object, every method of the class hierarchy that changes the object in place (effect
  summaries: item stores into `self.dataset`, rebinding of attributes, calls of such methods on self) must assign `self.A`
  as well.

What is decided: that no such unsynchronised copy exists.  That is a necessary condition for "a query returns the value of
the current object / the current argument" on every history; it is not a statement about the values themselves.
"""
from __future__ import annotations

import ast
from typing import List, Optional, Set

from .effects import Effects
from .model import Class, Function


def _self_attr(e: ast.AST) -> Optional[str]:
    if isinstance(e, ast.Attribute) and isinstance(e.value, ast.Name) and e.value.id == "self":
        return e.attr
    return None


def _value_closure(func_node, value, depth: int = 6):
    """the expression together with the defining expressions of every local name it mentions, transitively"""
    defs = {}
    for st in ast.walk(func_node):
        if isinstance(st, ast.Assign):
            for t in st.targets:
                for n in ast.walk(t):
                    if isinstance(n, ast.Name):
                        defs.setdefault(n.id, []).append(st.value)
                    elif isinstance(n, ast.Subscript) and isinstance(n.value, ast.Name):
                        defs.setdefault(n.value.id, []).append(st.value)
        elif isinstance(st, (ast.AugAssign, ast.AnnAssign)) and st.value is not None:
            for n in ast.walk(st.target):
                if isinstance(n, ast.Name):
                    defs.setdefault(n.id, []).append(st.value)
        elif isinstance(st, (ast.For, ast.comprehension)):
            for n in ast.walk(st.target):
                if isinstance(n, ast.Name):
                    defs.setdefault(n.id, []).append(st.iter)
    out, seen, frontier = [value], set(), [value]
    for _ in range(depth):
        nxt = []
        for e in frontier:
            for n in ast.walk(e):
                if isinstance(n, ast.Name) and n.id not in seen and n.id in defs:
                    seen.add(n.id)
                    nxt.extend(defs[n.id])
        out.extend(nxt)
        frontier = nxt
        if not nxt:
            break
    return out


def _writes_into_attr(func_node, attrs) -> bool:
    """does the method store into / call a mutating method on / rebind one of `self.<attrs>`?"""
    if not attrs:
        return False
    for st in ast.walk(func_node):
        tg = []
        if isinstance(st, ast.Assign):
            tg = st.targets
        elif isinstance(st, (ast.AugAssign, ast.AnnAssign)):
            tg = [st.target]
        elif isinstance(st, ast.Delete):
            tg = st.targets
        for t in tg:
            base = t
            while isinstance(base, ast.Subscript):
                base = base.value
            if _self_attr(base) in attrs:
                return True
        if isinstance(st, ast.Call) and isinstance(st.func, ast.Attribute) and st.func.attr in (
                "update", "pop", "clear", "setdefault", "append", "extend", "remove", "popitem", "__setitem__") \
                and _self_attr(st.func.value) in attrs:
            return True
    return False


def _is_setter_or_init(f: Function) -> bool:
    return f.name in ("__init__", "__post_init__", "__setstate__") or f.is_setter


def instance_memo_rule(ctx, rule: str, classes: List[Class], what: str):
    p = ctx.program
    ef = Effects(p)
    hier: List[Class] = []
    for c in p.classes.values():
        if any(c is k or c.is_subclass_of(k) or k.is_subclass_of(c) for k in classes):
            hier.append(c)
    methods = [f for f in p.all_functions if f.cls in hier and isinstance(f.node, (ast.FunctionDef, ast.AsyncFunctionDef))]
    n_methods = 0
    n_memos = 0
    for f in methods:
        n_methods += 1
        if _is_setter_or_init(f):
            continue
        params = {a.arg for a in f.node.args.posonlyargs + f.node.args.args + f.node.args.kwonlyargs} - {"self", "cls"}
        reads = [n for n in ast.walk(f.node) if _self_attr(n) and isinstance(n.ctx, ast.Load)]
        for st in ast.walk(f.node):
            if not isinstance(st, (ast.Assign, ast.AnnAssign)):
                continue
            targets = st.targets if isinstance(st, ast.Assign) else [st.target]
            value = st.value
            for t in targets:
                attr = _self_attr(t)
                if attr is None or value is None:
                    continue
                # fill-on-demand: the method also reads the attribute it fills
                if not any(_self_attr(r) == attr for r in reads):
                    continue
                if isinstance(value, ast.Constant):
                    continue        # a flag or a reset, not a derived value
                n_memos += 1
                # what the stored expression reads, followed through the locals of the method (a value assembled in a local dict
                # from `self.e`, `self.a1`, ... depends on the object's state just as `self.e * 2` does)
                closure = _value_closure(f.node, value)
                dep_params = {n.id for e_ in closure for n in ast.walk(e_) if isinstance(n, ast.Name) and n.id in params}
                dep_state = {_self_attr(n) for e_ in closure for n in ast.walk(e_) if _self_attr(n)} - {attr}
                dep_state |= {"<state>"} if any(isinstance(n, ast.Name) and n.id == "self" for e_ in closure for n in ast.walk(e_)) else set()
                problems = []
                if dep_params:
                    guards = [g.test for g in ast.walk(f.node) if isinstance(g, (ast.If, ast.IfExp)) and any(
                        _self_attr(x) for x in ast.walk(g.test))]
                    for pn in sorted(dep_params):
                        ok = any(isinstance(c, ast.Compare) and any(isinstance(o, (ast.Is, ast.IsNot, ast.Eq, ast.NotEq)) for o in c.ops)
                                 and any(isinstance(s_, ast.Name) and s_.id == pn for s_ in [c.left] + list(c.comparators))
                                 for g in guards for c in ast.walk(g))
                        if not ok:
                            problems.append(f"it is computed from the argument `{pn}` but reused without comparing `{pn}` itself with what "
                                            "was stored: a later call with a different argument gets the value of the earlier one")
                if dep_state:
                    muts = [m for m in methods if m is not f and not _is_setter_or_init(m)
                            and "self" in ef.summary(m, m.cls).mutated_params]
                    stale = [m.qualname for m in muts if not any(
                        isinstance(x, (ast.Assign, ast.AnnAssign, ast.Delete)) and any(
                            _self_attr(tt) == attr for tt in (x.targets if isinstance(x, (ast.Assign, ast.Delete)) else [x.target]))
                        for x in ast.walk(m.node))]
                    # methods that write into the very attributes the value was computed from (`self._parameters[k] = v`,
                    # `self._parameters.update(...)`) change its inputs whether or not the effect summary calls them mutators
                    for m in methods:
                        if m is f or _is_setter_or_init(m) or m.qualname in stale:
                            continue
                        if _writes_into_attr(m.node, dep_state - {"<state>"}) and not any(
                                isinstance(x, (ast.Assign, ast.AnnAssign, ast.Delete)) and any(
                                    _self_attr(tt) == attr for tt in (x.targets if isinstance(x, (ast.Assign, ast.Delete)) else [x.target]))
                                for x in ast.walk(m.node)):
                            stale.append(m.qualname)
                    if stale:
                        problems.append("it is computed from the object's own data, which " + ", ".join(sorted(set(stale))[:4])
                                        + (" ..." if len(set(stale)) > 4 else "") + " change in place without refreshing it")
                cname = f"{f.qualname}[self.{attr}]"
                if problems:
                    ctx.bad(rule, cname, f"`self.{attr}` is filled on demand and reused: " + "; ".join(problems), f.loc(st),
                            derived=ast.unparse(st)[:120], required="recompute, or invalidate wherever the inputs change")
                else:
                    ctx.ok(rule, cname, "on-demand attribute is keyed on its argument / refreshed by every in-place mutator", f.loc(st))
    # functools.cached_property is the same memo without the explicit attribute: computed from the object's state on first
    # access, kept in the instance dict under the property's name, never recomputed unless that entry is deleted
    for f in methods:
        if not getattr(f, "is_cached_property", False):
            continue
        n_memos += 1
        reads_state = any(isinstance(n, ast.Name) and n.id == "self" for n in ast.walk(f.node))
        muts = [m for m in methods if m is not f and not _is_setter_or_init(m) and "self" in ef.summary(m, m.cls).mutated_params]

        def clears(m):
            for x in ast.walk(m.node):
                if isinstance(x, ast.Delete) and any(_self_attr(t) == f.name for t in x.targets):
                    return True
                if isinstance(x, ast.Call) and isinstance(x.func, ast.Attribute) and x.func.attr in ("pop", "clear") \
                        and "__dict__" in ast.unparse(x.func.value) and (x.func.attr == "clear" or any(
                            isinstance(a, ast.Constant) and a.value == f.name for a in x.args)):
                    return True
            return False
        stale = [m.qualname for m in muts if not clears(m)]
        cname = f"{f.qualname}[cached_property]"
        if reads_state and stale:
            ctx.bad(rule, cname, f"`{f.name}` is a cached_property computed from the object's own data, which "
                    + ", ".join(sorted(set(stale))[:4]) + (" ..." if len(set(stale)) > 4 else "")
                    + " change in place without deleting the cached value: a query after such a change returns the value of the "
                    "object as it was at the first query", f.loc(), derived="@cached_property " + f.name,
                    required="a plain property, or `del self." + f.name + "` wherever the inputs change")
        else:
            ctx.ok(rule, cname, "cached value is dropped by every in-place mutator (or depends on no instance state)", f.loc())
    ctx.ok(rule, f"<{what}: fill-on-demand attributes inspected>",
           f"{n_methods} methods of {len(hier)} classes inspected, {n_memos} fill-on-demand attribute(s) found and judged")
    return n_memos


POSITIVE = {"m.py": "class S:\n    def __init__(self, dataset):\n        self.dataset = dataset\n        self._e = None\n"
                    "    @property\n    def e(self):\n        if self._e is None:\n            self._e = self.dataset['x'] * 2\n        return self._e\n"
                    "    def scale(self, c):\n        self.dataset['x'] = self.dataset['x'] * c\n"
                    "    def grid(self, spectrum):\n        if self._g is None or self._n != len(spectrum):\n"
                    "            self._g = spectrum.grid()\n            self._n = len(spectrum)\n        return self._g\n"
                    "    @cached_property\n    def k(self):\n        return self.dataset['x'] + 1\n"}


def positive_example(ctx, rule):
    from .mini import must_fire
    must_fire(ctx, rule, POSITIVE, lambda sub, mp: instance_memo_rule(sub, rule, [mp.classes["m.S"]], "example"),
              "instance attribute filled on demand and never refreshed")


_REDUCERS = {"len", "abs", "float", "int", "round", "min", "max", "sum", "id", "hash", "type", "bool", "any", "all"}
_REDUCING_ATTRS = {"shape", "size", "ndim", "dtype", "nbytes", "sizes", "dims"}


def _whole_occurrence(expr: ast.AST, name: str) -> bool:
    """does `expr` contain the argument `name` (or data reached from it by attribute access) other than under a reduction - `len(x)`,
    `x.shape`, `x[0]`, `abs(x[1] - x[0])`, `float(...)`?  A key made only of reductions cannot tell two arguments apart."""
    parents = {}
    for n in ast.walk(expr):
        for c in ast.iter_child_nodes(n):
            parents[c] = n
    for n in ast.walk(expr):
        if not (isinstance(n, ast.Name) and n.id == name):
            continue
        cur, reduced = n, False
        while cur in parents:
            par = parents[cur]
            if isinstance(par, ast.Attribute) and par.attr in _REDUCING_ATTRS:
                reduced = True
            if isinstance(par, ast.Subscript) and par.value is cur and not isinstance(par.slice, ast.Slice):
                reduced = True
            if isinstance(par, ast.Call) and cur is not par.func:
                fn = par.func
                nm = fn.id if isinstance(fn, ast.Name) else (fn.attr if isinstance(fn, ast.Attribute) else "")
                if nm in _REDUCERS or nm in ("mean", "std", "var", "ptp", "median", "prod", "argmax", "argmin", "count_nonzero"):
                    reduced = True
            cur = par
        if not reduced:
            return True
    return False


def module_memo_rule(ctx, rule: str, modules, what: str):
    """The same discipline for values remembered at module level: a function that both reads and writes a module-level container G
    (or rebinds a `global`) keeps a result across calls.  Whatever the remembered value was computed from must be compared *itself*
    with what was stored before the value is reused - a guard on something derived from an argument (a length, a shape) cannot
    tell two different arguments apart, and an identity test on a mutable argument cannot see that it changed in place (reported
    for arguments that are objects with in-place mutators only when the guard is the only protection - not decided here)."""
    from .rules.fc import local_assignments, substitute_defs
    p = ctx.program
    n_funcs = n_memos = 0
    for m in modules:
        gl = {t.id for st in m.tree.body if isinstance(st, (ast.Assign, ast.AnnAssign))
              for t in (st.targets if isinstance(st, ast.Assign) else [st.target]) if isinstance(t, ast.Name)}
        for f in [f for f in p.all_functions if f.module is m and isinstance(f.node, (ast.FunctionDef, ast.AsyncFunctionDef))]:
            n_funcs += 1
            params = set(f.params) - {"cls"}      # for a method, `self` is the argument the remembered value may depend on
            declared = {n_ for st in ast.walk(f.node) if isinstance(st, ast.Global) for n_ in st.names}
            local_names = {t.id for st in ast.walk(f.node) if isinstance(st, (ast.Assign, ast.AnnAssign, ast.AugAssign))
                           for t in (st.targets if isinstance(st, ast.Assign) else [st.target]) if isinstance(t, ast.Name)} - declared
            writes = []
            for st in ast.walk(f.node):
                if isinstance(st, (ast.Assign, ast.AugAssign)):
                    for t in (st.targets if isinstance(st, ast.Assign) else [st.target]):
                        base = t
                        while isinstance(base, ast.Subscript):
                            base = base.value
                        if isinstance(base, ast.Name) and base.id in gl and base.id not in local_names and (
                                base is not t or base.id in declared):
                            writes.append((base.id, st, st.value))
                elif isinstance(st, ast.Expr) and isinstance(st.value, ast.Call) and isinstance(st.value.func, ast.Attribute) \
                        and st.value.func.attr in ("update", "append", "setdefault", "__setitem__", "extend") \
                        and isinstance(st.value.func.value, ast.Name) and st.value.func.value.id in gl \
                        and st.value.func.value.id not in local_names and st.value.args:
                    writes.append((st.value.func.value.id, st, ast.Tuple(elts=list(st.value.args), ctx=ast.Load())))
            for g, st, value in writes:
                reads = [n for n in ast.walk(f.node) if isinstance(n, ast.Name) and n.id == g and isinstance(n.ctx, ast.Load)
                         and not any(n is x for x in ast.walk(st))]
                if not reads or isinstance(value, ast.Constant):
                    continue
                n_memos += 1
                ve = substitute_defs(f.node, value, params | {g})
                dep_params = {n.id for n in ast.walk(ve) if isinstance(n, ast.Name) and n.id in params}
                # names that hold (parts of) what was stored
                la = local_assignments(f.node)
                from_g = {g} | {nm for nm, ds in la.items() if any(
                    d[0] in ("assign", "unpack") and any(isinstance(x, ast.Name) and x.id == g for x in ast.walk(d[1])) for d in ds)}
                guards = [t.test for t in ast.walk(f.node) if isinstance(t, (ast.If, ast.IfExp)) and any(
                    isinstance(x, ast.Name) and x.id in from_g for x in ast.walk(t.test))]
                problems = []
                for pn in sorted(dep_params):
                    ok = any(isinstance(c, ast.Compare) and any(isinstance(o, (ast.Is, ast.IsNot, ast.Eq, ast.NotEq, ast.In, ast.NotIn)) for o in c.ops)
                             and any(_whole_occurrence(substitute_defs(f.node, s_, params | {g}), pn) for s_ in [c.left] + list(c.comparators))
                             for t in guards for c in ast.walk(t))
                    if not ok:
                        problems.append(f"it is computed from the argument `{pn}` but reused without comparing `{pn}` itself with what was "
                                        "stored: a later call with a different argument gets the value of the earlier one")
                cname = f"{f.qualname}[module-level {g}]"
                if problems:
                    ctx.bad(rule, cname, f"`{g}` keeps a result across calls: " + "; ".join(problems), f.loc(st),
                            derived=ast.unparse(st)[:140], required="key the remembered value on every argument it depends on, or recompute")
                else:
                    ctx.ok(rule, cname, "value remembered across calls is keyed on every argument it was computed from", f.loc(st))
    ctx.ok(rule, f"<{what}: values remembered at module level inspected>",
           f"{n_funcs} functions inspected, {n_memos} module-level memo(s) found and judged")
    return n_memos


POSITIVE_MODULE = {"m.py": "_last = [None, 0, None]\n\n\ndef resample(spectrum, frequencies):\n    source, n, result = _last\n"
                           "    if source is not spectrum or n != len(frequencies):\n        result = spectrum.interp(frequencies)\n"
                           "        _last[:] = [spectrum, len(frequencies), result]\n    return result\n"}


def positive_module_example(ctx, rule):
    from .mini import must_fire
    must_fire(ctx, rule, POSITIVE_MODULE, lambda sub, mp: module_memo_rule(sub, rule, list(mp.modules.values()), "example"),
              "module-level value reused on a guard derived from the argument")
