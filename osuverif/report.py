"""Obligations, verdicts, evidence files, known findings and exit codes."""
from __future__ import annotations

import json
import os
import time
from dataclasses import dataclass, field, asdict
from typing import Any, Dict, List, Optional

from . import terms as T

VERIF = os.path.dirname(os.path.dirname(os.path.abspath(__file__)))
DISCHARGED = "DISCHARGED"
VIOLATED = "VIOLATED"
INCONCLUSIVE = "INCONCLUSIVE"


@dataclass
class Obligation:
    rule: str
    construct: str
    verdict: str
    detail: str = ""
    loc: str = ""
    derived: str = ""
    required: str = ""

    def key(self):
        return (self.rule, self.construct)


class Ctx:
    def __init__(self, pid: str, tier: str, program, root: str, seed: int = 0):
        self.pid = pid
        self.tier = tier
        self.program = program
        self.root = root
        self.seed = seed
        self.obligations: List[Obligation] = []
        self.trusted: List[str] = []
        self.assumptions: List[str] = []
        self.notes: List[str] = []
        self.rule_counts: Dict[str, int] = {}
        self.min_counts: Dict[str, int] = {}
        self.functions_analysed: Dict[str, int] = {}
        self.calls_resolved = 0
        self.unmodelled: set = set()
        self.t0 = time.time()
        self.explanation = ""
        self._rename = {}

    def renamed(self, mapping):
        """context manager: obligations recorded by shared rule functions are filed under this property's rule ids"""
        ctx = self

        class _R:
            def __enter__(self_inner):
                self_inner.old = dict(ctx._rename)
                ctx._rename.update(mapping)

            def __exit__(self_inner, *a):
                ctx._rename = self_inner.old
        return _R()

    # -- recording -----------------------------------------------------------
    def ob(self, rule: str, construct: str, verdict: str, detail: str = "", loc: str = "",
           derived: Any = "", required: Any = ""):
        if rule in self._rename and self._rename[rule] is None:
            # a shared rule function run for the sake of some of its rules: the others are not filed under this property
            return Obligation(rule, construct, verdict, detail, loc, "", "")
        rule = self._rename.get(rule, rule)
        o = Obligation(rule, construct, verdict, detail, loc,
                       T.show(derived, 600) if not isinstance(derived, str) else derived,
                       T.show(required, 600) if not isinstance(required, str) else required)
        self.obligations.append(o)
        self.rule_counts[rule] = self.rule_counts.get(rule, 0) + 1
        return o

    def ok(self, rule, construct, detail="", loc="", derived="", required=""):
        return self.ob(rule, construct, DISCHARGED, detail, loc, derived, required)

    def bad(self, rule, construct, detail="", loc="", derived="", required=""):
        return self.ob(rule, construct, VIOLATED, detail, loc, derived, required)

    def unsure(self, rule, construct, detail="", loc="", derived="", required=""):
        return self.ob(rule, construct, INCONCLUSIVE, detail, loc, derived, required)

    def expect(self, cond: Optional[bool], rule, construct, detail="", loc="", derived="", required=""):
        """cond True -> discharged, False -> violated, None -> inconclusive"""
        if cond is not None and not isinstance(cond, bool):
            cond = bool(cond)
        v = DISCHARGED if cond is True else (VIOLATED if cond is False else INCONCLUSIVE)
        return self.ob(rule, construct, v, detail, loc, derived, required)

    def equiv(self, rule, construct, derived, required, loc="", detail="", norm=None, interp=None):
        d, r = T.strip_never(derived), required
        if norm is not None:
            d = norm(T.to_term(d))
            r = norm(T.to_term(r))
        v = T.equivalent(d, r)
        if v == T.Verdict.EQUAL:
            return self.ok(rule, construct, detail or "term equivalence", loc, d, r)
        indefinite = v == T.Verdict.UNKNOWN
        if interp is not None and not indefinite:
            names = {T.fname(s) for s in T.subterms(T.to_term(d))}
            if names & interp.unmodelled:
                indefinite = True
                detail = (detail + " " if detail else "") + f"unmodelled operators: {sorted(names & interp.unmodelled)}"
        if indefinite:
            return self.unsure(rule, construct, (detail + " " if detail else "") + "derived term involves unknowns",
                               loc, d, r)
        return self.bad(rule, construct, detail or "derived term differs from the defining formula", loc, d, r)

    def trust(self, *entries: str):
        for e in entries:
            if e not in self.trusted:
                self.trusted.append(e)

    def assume(self, *entries: str):
        for e in entries:
            if e not in self.assumptions:
                self.assumptions.append(e)

    def require_count(self, rule: str, minimum: int):
        if rule in self._rename:
            return  # shared rule functions do not impose their own vacuity bounds under another property
        self.min_counts[rule] = minimum

    def absorb(self, interp):
        for q, n in interp.functions_visited.items():
            self.functions_analysed[q] = self.functions_analysed.get(q, 0) + n
        self.calls_resolved += len(interp.calls)
        self.unmodelled |= set(interp.unmodelled)


def load_known() -> Dict[str, Any]:
    path = os.path.join(VERIF, "known_findings.json")
    if not os.path.exists(path):
        return {"findings": [], "fixed": []}
    with open(path) as fh:
        return json.load(fh)


def finish(ctx: Ctx) -> int:
    """Apply vacuity guards and known findings, write evidence, print lines, return exit code."""
    for rule, minimum in ctx.min_counts.items():
        n = ctx.rule_counts.get(rule, 0)
        if n < minimum:
            ctx.unsure(rule, "<vacuity-guard>", f"rule matched {n} construct(s), fewer than the {minimum} confirmed by hand")
    known = load_known()
    kf = {(k["property"], k["rule"], k["construct"]): k for k in known.get("findings", [])}
    violations = []
    known_hits = []
    inconclusive = []
    for o in ctx.obligations:
        if o.verdict == VIOLATED:
            k = kf.get((ctx.pid, o.rule, o.construct))
            if k is not None:
                known_hits.append((o, k))
            else:
                violations.append(o)
        elif o.verdict == INCONCLUSIVE:
            inconclusive.append(o)
    scratch = os.environ.get("OSU_VERIF_NO_EVIDENCE") == "1"
    evdir = os.path.join(VERIF, "evidence") if not scratch else os.path.join(
        VERIF, "evidence", "scratch", str(os.getpid()))
    os.makedirs(os.path.join(evdir, "violations"), exist_ok=True)
    lines = []
    for o, k in known_hits:
        lines.append(f"KNOWN-FINDING: property={ctx.pid} {o.rule} {o.construct} -- {k.get('what', o.detail)}")
    vfiles = []
    for i, o in enumerate(violations):
        path = os.path.join(evdir, "violations", f"{ctx.pid}-{i}.json")
        with open(path, "w") as fh:
            json.dump({"property": ctx.pid, "root": ctx.root, "tier": ctx.tier, **asdict(o)}, fh, indent=1)
        vfiles.append(path)
        lines.append(f"VIOLATION property={ctx.pid} replay={path}")
        lines.append(f"  rule={o.rule} construct={o.construct} at {o.loc}")
        lines.append(f"  {o.detail}")
        if o.derived:
            lines.append(f"  derived : {o.derived}")
        if o.required:
            lines.append(f"  required: {o.required}")
    for o in inconclusive:
        lines.append(f"ANALYSIS-INCONCLUSIVE property={ctx.pid} rule={o.rule} construct={o.construct} at {o.loc}: {o.detail}")
        if o.derived:
            lines.append(f"  derived : {o.derived}")
    n_ob = len(ctx.obligations)
    n_dis = sum(1 for o in ctx.obligations if o.verdict == DISCHARGED)
    distinct = len({o.key() for o in ctx.obligations})
    samples = []
    seen_rules = set()
    for o in ctx.obligations:
        if o.rule in seen_rules and len(samples) >= 12:
            continue
        if sum(1 for s in samples if s["rule"] == o.rule) >= 3:
            continue
        seen_rules.add(o.rule)
        samples.append({k: v for k, v in asdict(o).items() if v})
        if len(samples) >= 40:
            break
    ev = {
        "property_id": ctx.pid,
        "tier": ctx.tier,
        "seed": ctx.seed,
        "level": "other",
        "coverage": {
            "explanation": ctx.explanation,
            "obligations": n_ob,
            "discharged": n_dis,
            "evaluations": max(n_ob, 1),
            "distinct_nontrivial": distinct,
            "rule": "one obligation per (rule, construct) instance found in the current source; distinct = distinct (rule, construct) pairs",
            "samples": samples,
            "rules": ctx.rule_counts,
            "minimum_instance_counts": ctx.min_counts,
            "functions_analysed": len(ctx.functions_analysed),
            "function_list": sorted(ctx.functions_analysed)[:200],
            "call_sites_resolved": ctx.calls_resolved,
            "modules_parsed": ctx.program.stats()["modules"] if ctx.program else 0,
            "unmodelled_operators": sorted(ctx.unmodelled),
            "trusted_base": ctx.trusted,
            "checker_cmd": f"./check {ctx.pid} --tier {ctx.tier}",
            "known_findings_reported": [f"{o.rule} {o.construct}" for o, _ in known_hits],
            "inconclusive": [f"{o.rule} {o.construct}: {o.detail}" for o in inconclusive],
            "notes": ctx.notes,
            "root": ctx.root,
            "exhaustive": False,
        },
        "assumptions": ctx.assumptions,
        "wall_s": round(time.time() - ctx.t0, 3),
        "violations": len(violations),
    }
    evpath = os.path.join(evdir, f"{ctx.pid}.json")
    with open(evpath, "w") as fh:
        json.dump(ev, fh, indent=1, default=str)
    print(f"[{ctx.pid}/{ctx.tier}] obligations={n_ob} discharged={n_dis} violated={len(violations)} "
          f"known={len(known_hits)} inconclusive={len(inconclusive)} functions={len(ctx.functions_analysed)} "
          f"wall={ev['wall_s']}s root={ctx.root}")
    for ln in lines:
        print(ln)
    if scratch:
        import shutil
        shutil.rmtree(evdir, ignore_errors=True)
    if violations:
        return 1
    if inconclusive:
        return 2
    return 0
