"""Operator model (trusted base) for numpy / xarray / builtins used by TermFlow.

Each entry maps a library callable, method or attribute to a canonical term operator.  Anything
absent from these tables becomes an opaque operator whose name is recorded in
``interp.unmodelled``; verdicts that depend on such operators are INCONCLUSIVE.
"""
from __future__ import annotations

import ast
from typing import Any, Dict, List

import sympy as sp

from . import terms as T
from .terms import Unknown, Str, op, to_term, AND, OR, NOT, CMP, ITE, num, fname, NONE_T, TRUE_T, FALSE_T

NUMPY = ("numpy",)

# identity wrappers: value-preserving (dims/coords/labels are not part of the term language)
IDENTITY_FUNCS = {
    "numpy.asarray", "numpy.array", "numpy.atleast_1d", "numpy.ascontiguousarray", "numpy.squeeze",
    "numpy.float64", "numpy.asanyarray", "numpy.copy",
    "ocean_science_utilities.wavetheory.wavetheory_tools.atleast_1d",
}
IDENTITY_METHODS = {
    "copy", "squeeze", "load", "compute", "drop", "drop_vars", "reset_coords", "rename",
    "transpose", "to_numpy", "item", "tolist", "reindex_like", "assign_coords", "expand_dims",
    "astype", "flatten", "ravel", "to_dataset",
}
IDENTITY_ATTRS = {"values", "data", "T", "real_if_close", "data_vars"}

UNARY = {
    "sqrt": sp.sqrt, "cos": sp.cos, "sin": sp.sin, "tan": sp.tan, "exp": sp.exp, "log": sp.log,
    "tanh": sp.tanh, "sinh": sp.sinh, "cosh": sp.cosh, "abs": sp.Abs, "absolute": sp.Abs,
    "fabs": sp.Abs, "arctan": sp.atan, "arcsin": sp.asin, "arccos": sp.acos, "floor": sp.floor, "ceil": sp.ceiling,
    "conj": sp.conjugate, "conjugate": sp.conjugate, "real": sp.re, "imag": sp.im,
    "square": lambda x: x**2, "deg2rad": lambda x: x * sp.pi / 180, "radians": lambda x: x * sp.pi / 180,
    "rad2deg": lambda x: x * 180 / sp.pi, "degrees": lambda x: x * 180 / sp.pi,
    "negative": lambda x: -x, "reciprocal": lambda x: 1 / x, "log10": lambda x: sp.log(x, 10),
    "sign": sp.sign,
}

# reductions / shape ops kept opaque but *known* (distinct, documented semantics)
KNOWN_EXT = {
    "sum", "nansum", "mean", "nanmean", "std", "nanstd", "max", "min", "nanmax", "nanmin", "amax", "amin",
    "argmax", "argmin", "nanargmax", "nanargmin", "cumsum", "cumprod", "prod", "diff", "trapz", "trapezoid",
    "linspace", "arange", "zeros", "ones", "empty", "full", "zeros_like", "ones_like", "empty_like",
    "full_like", "isnan", "isfinite", "isinf", "any", "all", "where", "clip", "rint", "round", "searchsorted",
    "concatenate", "roll", "unravel_index", "ravel_multi_index", "reshape", "meshgrid", "interp", "angle",
    "maximum", "minimum", "hypot", "arctan2", "power", "multiply", "add", "subtract", "divide", "true_divide",
    "mod", "remainder", "fmod", "floor_divide", "logical_and", "logical_or", "logical_not", "dot", "outer", "indices",
    "greater_equal", "less", "greater", "less_equal", "equal", "not_equal", "broadcast_arrays", "ascontiguousarray", "select",
    "sort", "argsort", "flip", "unique", "tile", "repeat", "stack", "vstack", "hstack", "nan_to_num",
    "datetime64", "timedelta64", "errstate", "dtype", "shape", "size", "ndim", "iscomplex", "isreal",
    "expand_dims", "broadcast_to", "swapaxes", "moveaxis", "take", "nonzero", "count_nonzero", "allclose",
    "isclose", "array_equal", "trunc", "fix", "exp2", "expm1", "log1p", "log2", "cbrt", "cross", "sinc",
    "median", "nanmedian", "percentile", "quantile", "var", "nanvar", "average", "cov", "corrcoef", "histogram",
    "linalg.norm", "linalg.lstsq", "linalg.solve", "linalg.inv", "linalg.cholesky", "fft.irfft", "fft.rfft",
    "fft.fft", "fft.ifft", "fft.rfftfreq", "fft.fftfreq", "random.default_rng", "random.seed", "random.rand",
    "random.randn", "random.uniform", "random.normal", "random.random", "full", "identity", "eye", "diag",
    "int32", "int64", "float32", "complex64", "complex128", "bool_", "ndarray", "typing.NDArray",
}


def _chain_tail(chain: str, root: str):
    if chain == root:
        return ""
    if chain.startswith(root + "."):
        return chain[len(root) + 1:]
    return None


# ============================================================================ attributes on modules
def ext_attr(it, chain: str, attr: str, env, node):
    from .interp import Ext

    full = chain + "." + attr
    it.ext_used.setdefault(full, it.loc(env, node) if node is not None else "")
    if full in ("numpy.pi", "math.pi"):
        return sp.pi
    if full in ("numpy.inf", "math.inf", "numpy.Inf", "numpy.infty"):
        return sp.oo
    if full in ("numpy.nan", "math.nan", "numpy.NaN", "numpy.NAN"):
        return T.NAN_T
    if full == "numpy.newaxis":
        return None
    if full in ("numpy.e", "math.e"):
        return sp.E
    return Ext(full)


# ============================================================================ helper constructors
def kw(kwargs, name, default=None):
    return kwargs[name] if name in kwargs else default


def axis_term(v):
    if v is None:
        return NONE_T
    return to_term(v)


def make_where(c, a, b):
    c, a, b = to_term(c), to_term(a), to_term(b)
    # where(isnan(x), v, x) with a number v replaces the missing values of x: x.fillna(v)
    if fname(c) in ("isnull", "isnan") and len(c.args) == 1 and c.args[0] == b and a.is_number and a.is_finite:
        return op("fillna", b, a)
    return op("where", c, a, b)


def axis_of_dim(ax):
    """the dimension name when `ax` is the axis number looked up for a named dimension (get_axis_num), else None"""
    ax = to_term(ax)
    if isinstance(ax, sp.Tuple) and len(ax.args) == 2 and ax.args[0] == Str("axis"):
        ax = ax.args[1]
    return ax.args[0] if fname(ax) == "axis_of" and len(ax.args) == 1 else None


def make_trapz(y, xcoord=None, axis=None, dx=None):
    return op("trapz", to_term(y), to_term(xcoord) if xcoord is not None else NONE_T)


def as_trapezoid(x, axis):
    """sum over the last axis of  diff(F) * (W[..., 1:] + W[..., :-1]) / 2  is the trapezoidal rule trapz(W, F); None otherwise"""
    x = to_term(x)
    ax = to_term(axis) if axis is not None else NONE_T
    if isinstance(ax, sp.Tuple) and len(ax.args) == 2 and ax.args[0] == Str("axis"):
        ax = ax.args[1]
    if ax != sp.Integer(-1):
        return None
    hi_s, lo_s = op("slc", sp.Integer(1), NONE_T, NONE_T), op("slc", NONE_T, sp.Integer(-1), NONE_T)

    def last_slice(n):
        if fname(n) != "item":
            return None
        ix = n.args[1]
        last = ix.args[-1] if isinstance(ix, sp.Tuple) and ix.args else ix
        lead = list(ix.args[:-1]) if isinstance(ix, sp.Tuple) else []
        if any(l != T.ELLIPSIS_T for l in lead):
            return None
        return last
    his = [n for n in sp.preorder_traversal(x) if last_slice(n) == hi_s]
    los = [n for n in sp.preorder_traversal(x) if last_slice(n) == lo_s]
    for A in his:
        for B in los:
            if A.args[0] != B.args[0]:
                continue
            W = A.args[0]
            # the step: np.diff(F), or F[1:] - F[:-1]
            steps = [n for n in sp.preorder_traversal(x) if fname(n) == "diff" and n.args[1:] == (NONE_T, NONE_T)]
            for D in steps:
                try:
                    if sp.expand(x - D * (A + B) / 2) == 0:
                        return make_trapz(W, D.args[0])
                except Exception:
                    pass
    return None


def reduce_op(name, x, axis=None, skipna=None):
    if name == "sum" and skipna is None:
        tz = as_trapezoid(x, axis)
        if tz is not None:
            return tz
    sk = None
    if skipna is True or skipna == TRUE_T:
        sk = True
    if sk and name in ("sum", "mean", "std", "max", "min", "argmax", "argmin"):
        name = "nan" + name
    if (skipna is False or skipna == T.FALSE_T) and name == "sum" and fname(to_term(x)) == "fillna" and to_term(x).args[1] == 0:
        return op("nansum", to_term(x).args[0], axis_term(axis))     # NaN replaced by 0 and then summed: the NaN-skipping sum
    if skipna is False or skipna == T.FALSE_T:
        name = "strict" + name      # an explicit skipna=False propagates NaN: a different reduction from the default
    return op(name, to_term(x), axis_term(axis))


# ============================================================================ external calls
def call_ext(it, chain: str, args: List[Any], kwargs: Dict[str, Any], env, node):
    from .interp import DatasetVal, Ext

    for root in ("numpy", "math", "cmath"):
        tail = _chain_tail(chain, root)
        if tail is not None:
            return call_numpy(it, tail, args, kwargs, env, node, chain)
    tail = _chain_tail(chain, "xarray")
    if tail is not None:
        return call_xarray(it, tail, args, kwargs, env, node, chain)
    tail = _chain_tail(chain, "numba")
    if tail is not None:
        if tail in ("prange",):
            return op("prange", *[to_term(a) for a in args])
        if tail.startswith("typed.Dict") or tail.startswith("typed.List"):
            if tail.endswith(".empty"):
                return {}
            if args:
                return args[0]
            return {}
        return op("numba_" + tail.replace(".", "_"), *[to_term(a) for a in args])
    if chain in IDENTITY_FUNCS and args:
        return args[0]
    if chain == "functools.partial" and args:
        from .interp import PartialVal
        return PartialVal(args[0], tuple(args[1:]), dict(kwargs))
    if chain == "itertools.product":
        # concrete operands only: the cartesian product in lexicographic order (last factor varies fastest)
        import itertools as _it
        rep = kwargs.get("repeat", 1)
        rep = int(rep) if isinstance(rep, (int, sp.Integer)) else None
        seqs = [it.iterate(a, env, node) for a in args]
        if rep is not None and all(s is not None for s in seqs):
            return [tuple(x) for x in _it.product(*seqs, repeat=rep)]
    if chain in ("itertools.chain",) and all(it.iterate(a, env, node) is not None for a in args):
        out = []
        for a in args:
            out += it.iterate(a, env, node)
        return out
    if chain.startswith("datetime."):
        # datetime constructors / class methods: kept as named operators with their keywords (typestate rules read them)
        name = "dt_" + chain[len("datetime."):].replace(".", "_")
        return op(name, *[to_term(a) for a in args],
                  *[sp.Tuple(Str(k), to_term(v)) for k, v in sorted(kwargs.items())])
    if chain.startswith("numba_progress"):
        return op("progressbar")
    if chain.startswith("typing.") or chain.startswith("numbers."):
        return Ext(chain)
    if chain == "warnings.warn" or chain.startswith("logging") or chain.endswith("logger.log"):
        return None
    if chain == "copy.deepcopy" or chain == "copy.copy":
        return it.lib.deepcopy_value(it, args[0], env, node)
    name = "ext_" + chain.replace(".", "_")
    it.unmodelled.add(name) if hasattr(it, "unmodelled") else None
    return op(name, *[to_term(a) for a in args],
              *[sp.Tuple(Str(k), to_term(v)) for k, v in sorted(kwargs.items())])


def deepcopy_value(it, v, env, node):
    from .interp import Obj

    if isinstance(v, Obj):
        m = v.cls.find_method("__deepcopy__")
        if m is not None:
            return it.call_function(m, [v, {}], {}, env, node)
    return v


# leading parameters of numpy functions that callers may also pass by keyword: keyword arguments are moved into their
# positional slots first, so `np.full_like(x, fill_value=v)` and `np.full_like(x, v)` are the same call to the model
NUMPY_SIGS = {
    "full_like": ["a", "fill_value"], "full": ["shape", "fill_value"], "where": ["condition", "x", "y"],
    "clip": ["a", "a_min", "a_max"], "roll": ["a", "shift", "axis"], "searchsorted": ["a", "v", "side"],
    "zeros": ["shape"], "ones": ["shape"], "empty": ["shape"], "zeros_like": ["a"], "ones_like": ["a"], "empty_like": ["a"],
    "linspace": ["start", "stop", "num"], "arange": ["start", "stop", "step"], "interp": ["x", "xp", "fp"],
    "maximum": ["x1", "x2"], "minimum": ["x1", "x2"], "arctan2": ["x1", "x2"], "power": ["x1", "x2"], "mod": ["x1", "x2"],
    "sum": ["a", "axis"], "nansum": ["a", "axis"], "mean": ["a", "axis"], "nanmean": ["a", "axis"], "max": ["a", "axis"],
    "min": ["a", "axis"], "all": ["a", "axis"], "any": ["a", "axis"], "argmax": ["a", "axis"], "argmin": ["a", "axis"],
    "prod": ["a", "axis"], "cumsum": ["a", "axis"], "trapz": ["y", "x"], "trapezoid": ["y", "x"], "diff": ["a"],
    "reshape": ["a", "newshape"], "expand_dims": ["a", "axis"], "unravel_index": ["indices", "shape"], "isnan": ["x"],
    "isfinite": ["x"], "abs": ["x"], "sqrt": ["x"], "exp": ["x"], "log": ["x"], "cos": ["x"], "sin": ["x"], "tanh": ["x"],
    "angle": ["z"], "real": ["val"], "conj": ["x"], "dot": ["a", "b"], "fft.irfft": ["a", "n"], "fft.rfftfreq": ["n", "d"],
    "linalg.norm": ["x"], "atleast_1d": ["arys"], "asarray": ["a"], "array": ["object"],
}


def _indices_as_unravel(arr, shape, order):
    """np.indices(S).reshape((len(S), L)) in C order: row d holds, for every flat position 0..L-1, its index along axis d,
    i.e. np.unravel_index(np.arange(L), S)[d] (for L = prod(S), which numpy requires of the reshape)."""
    if fname(arr) == "indices" and len(arr.args) == 1 and isinstance(shape, sp.Tuple) and len(shape.args) == 2 \
            and order == Str("C") and shape.args[0] == op("len", arr.args[0]):
        return op("unravel_index", op("arange", shape.args[1]), arr.args[0], Str("C"))
    return None


def call_numpy(it, tail, args, kwargs, env, node, chain):
    a = [x for x in args]
    sig = NUMPY_SIGS.get(tail)
    if sig and kwargs:
        kwargs = dict(kwargs)
        while len(a) < len(sig) and sig[len(a)] in kwargs:
            a.append(kwargs.pop(sig[len(a)]))
    args = a
    t = [to_term(x) for x in args]
    if tail in UNARY and len(a) >= 1:
        try:
            return UNARY[tail](t[0])
        except Exception:
            return op(tail, t[0])
    if tail in ("asarray", "array", "atleast_1d", "ascontiguousarray", "squeeze", "float64", "asanyarray", "copy",
                "atleast_2d", "nan_to_num_identity"):
        v = a[0]
        if isinstance(v, (list, tuple)):
            return op("array", *[to_term(x) for x in v]) if tail in ("array", "asarray") else to_term(v)
        return v
    if tail == "arctan2" and len(t) >= 2 and isinstance(t[0], sp.im) and isinstance(t[1], sp.re) and t[0].args[0] == t[1].args[0]:
        return op("angle", t[0].args[0])        # arctan2(z.imag, z.real) is np.angle(z)
    if tail == "arctan2":
        return sp.atan2(t[0], t[1])
    if tail == "hypot":
        return sp.sqrt(t[0] ** 2 + t[1] ** 2)
    if tail in ("power", "float_power", "pow"):
        return t[0] ** t[1]
    if tail == "multiply":
        return t[0] * t[1]
    if tail == "add":
        return t[0] + t[1]
    if tail == "subtract":
        return t[0] - t[1]
    if tail in ("divide", "true_divide"):
        return t[0] / t[1]
    if tail in ("mod", "remainder"):
        return op("pymod", t[0], t[1])
    if tail == "floor_divide":
        return op("floordiv", t[0], t[1])
    if tail in ("greater_equal", "less", "greater", "less_equal", "equal", "not_equal") and len(t) >= 2:
        return T.CMP({"greater_equal": "ge", "less": "lt", "greater": "gt", "less_equal": "le", "equal": "eq", "not_equal": "ne"}[tail], t[0], t[1])
    if tail == "logical_and":
        return AND(t[0], t[1])
    if tail == "logical_or":
        return OR(t[0], t[1])
    if tail == "logical_not":
        return NOT(t[0])
    if tail == "maximum":
        return op("maximum", *sorted(t[:2], key=sp.default_sort_key))
    if tail == "minimum":
        # np.minimum(np.maximum(x, lo), hi) with scalar bounds is np.clip(x, lo, hi)
        for inner, hi in ((t[0], t[1]), (t[1], t[0])):
            if fname(inner) == "maximum" and len(inner.args) == 2 and (hi.is_number or is_scalar_term(hi)):
                for lo, x_ in ((inner.args[0], inner.args[1]), (inner.args[1], inner.args[0])):
                    if (lo.is_number or is_scalar_term(lo)) and not (x_.is_number or is_scalar_term(x_)):
                        return op("clip", x_, lo, hi)
        return op("minimum", *sorted(t[:2], key=sp.default_sort_key))
    if tail == "where":
        if len(t) == 3:
            return make_where(t[0], t[1], t[2])
        return op("nonzero", t[0])
    if tail in ("trapz", "trapezoid"):
        x = a[1] if len(a) > 1 else kw(kwargs, "x")
        return make_trapz(a[0], x)
    if tail in ("sum", "nansum", "mean", "nanmean", "std", "nanstd", "max", "min", "amax", "amin", "nanmax",
                "nanmin", "argmax", "argmin", "prod", "cumsum", "any", "all", "median"):
        nm = {"amax": "max", "amin": "min"}.get(tail, tail)
        axis = a[1] if len(a) > 1 else kw(kwargs, "axis")
        if axis is not None and axis_of_dim(axis) is not None:
            axis = axis_of_dim(axis)        # the axis number of a named dimension is that dimension
        return op(nm, t[0], axis_term(axis))
    if tail == "diff":
        app, pre = to_term(kw(kwargs, "append")), to_term(kw(kwargs, "prepend"))
        # a difference closed over the circle is a roll: one canonical form for np.diff(x, append=x[0]) and np.roll(x,-1) - x
        if pre == NONE_T and app == op("item", t[0], num(0)):
            return op("roll", t[0], num(-1)) - t[0]
        if app == NONE_T and pre == op("item", t[0], num(-1)):
            return t[0] - op("roll", t[0], num(1))
        return op("diff", t[0], app, pre)
    if tail == "linspace":
        numv = a[2] if len(a) > 2 else kw(kwargs, "num", num(50))
        endpoint = kw(kwargs, "endpoint", True)
        return op("linspace", t[0], t[1], to_term(numv), to_term(endpoint))
    if tail == "take_along_axis" and len(a) >= 2:
        # values picked at one index per remaining position along a named axis: x.isel({dim: index}) (the kept unit axis is
        # dropped by the caller; unit axes are not tracked)
        ax = a[2] if len(a) > 2 else kw(kwargs, "axis")
        ix = to_term(a[1])
        d = axis_of_dim(ax) if ax is not None else None
        if d is not None and fname(ix) == "expand_dims" and len(ix.args) == 2 and axis_of_dim(ix.args[1]) == d:
            return op("isel", t[0], d, canon_index(ix.args[0]))
    if tail == "expand_dims" and len(t) >= 2:
        return op("expand_dims", t[0], t[1])
    if tail == "fft.rfftfreq":
        # n//2 + 1 bins from 0 up to and including the Nyquist frequency 1/(2d) (n even)
        nn = t[0]
        d = t[1] if len(t) > 1 else to_term(kw(kwargs, "d", num(1)))
        return op("linspace", num(0), 1 / (2 * d), op("floordiv", nn, num(2)) + 1, to_term(True))
    if tail == "arange":
        return op("arange", *t)
    if tail in ("zeros", "ones", "empty"):
        return op(tail, to_term(a[0]))
    if tail == "full":
        return op("full", t[0], t[1])
    if tail in ("zeros_like", "ones_like", "empty_like"):
        return op(tail[:-5], op("shape", t[0]))
    if tail == "full_like":
        return op("full", op("shape", t[0]), t[1])
    if tail == "isnan":
        return op("isnull", t[0])
    if tail in ("isfinite", "isinf"):
        return op(tail, t[0])
    if tail == "clip":
        lo = a[1] if len(a) > 1 else kw(kwargs, "a_min")
        hi = a[2] if len(a) > 2 else kw(kwargs, "a_max")
        return op("clip", t[0], to_term(lo), to_term(hi))
    if tail in ("rint", "round", "around"):
        return op("rint", t[0]) if tail == "rint" else op("round", *t)
    if tail == "searchsorted":
        side = a[2] if len(a) > 2 else kw(kwargs, "side", "left")
        return op("searchsorted", t[0], t[1], to_term(side))
    if tail == "take" and len(t) >= 2 and kw(kwargs, "axis") is None and len(t) == 2:
        return term_getitem(it, t[0], t[1], env, node)      # np.take(a, i) on a vector is a[i]
    if tail == "append" and len(t) == 2 and kw(kwargs, "axis") is None:
        # np.append(x[1:], x[0]) is x rotated by one position: np.roll(x, -1)
        a0, a1 = t
        if fname(a0) == "item" and fname(a0.args[1]) == "slc" and a0.args[1].args == (sp.Integer(1), NONE_T, NONE_T) \
                and fname(a1) == "item" and a1.args[0] == a0.args[0] and a1.args[1] == 0:
            return op("roll", a0.args[0], sp.Integer(-1))
        return op("concatenate", sp.Tuple(a0, a1), sp.Integer(0))
    if tail == "select" and len(a) >= 2 and isinstance(a[0], (list, tuple)) and isinstance(a[1], (list, tuple)) and len(a[0]) == len(a[1]):
        # np.select(conditions, choices, default): the first condition that holds picks its choice
        out = to_term(a[2] if len(a) > 2 else kw(kwargs, "default", num(0)))
        for c_, v_ in reversed(list(zip(a[0], a[1]))):
            out = make_where(to_term(c_), to_term(v_), out)
        return out
    if tail == "outer" and len(t) == 2:
        # np.outer(x, y) of two vectors is x[:, None] * y[None, :]
        full_ = op("slc", NONE_T, NONE_T, NONE_T)
        return op("item", t[0], sp.Tuple(full_, NONE_T)) * op("item", t[1], sp.Tuple(NONE_T, full_))
    if tail == "broadcast_arrays" and t:
        return tuple(t)            # the same values, shaped alike
    if tail == "concatenate":
        seq = a[0]
        axis = a[1] if len(a) > 1 else kw(kwargs, "axis", num(0))
        # np.concatenate((x[k:], x[:k])) is x rotated: np.roll(x, -k)  (k = -1: the last element moves to the front)
        sq = to_term(seq)
        if isinstance(sq, sp.Tuple) and len(sq.args) == 2 and all(fname(x_) == "item" and fname(x_.args[1]) == "slc" for x_ in sq.args) \
                and sq.args[0].args[0] == sq.args[1].args[0] and to_term(axis) == 0:
            s0, s1 = sq.args[0].args[1], sq.args[1].args[1]
            if s0.args[1] == NONE_T and s0.args[2] == NONE_T and s1.args[0] == NONE_T and s1.args[2] == NONE_T \
                    and s0.args[0] == s1.args[1] and getattr(s0.args[0], "is_Integer", False):
                return op("roll", sq.args[0].args[0], -s0.args[0])
        return op("concatenate", to_term(seq), to_term(axis))
    if tail == "roll":
        return op("roll", t[0], t[1])
    if tail == "unravel_index":
        order = kw(kwargs, "order", "C")
        return op("unravel_index", t[0], t[1], to_term(order))
    if tail == "reshape":
        order = kw(kwargs, "order", "C")
        r_ = _indices_as_unravel(t[0], t[1], to_term(order))
        if r_ is not None:
            return r_
        return op("reshape", t[0], t[1], to_term(order))
    if tail == "indices" and len(t) >= 1:
        return op("indices", t[0])
    if tail == "angle":
        # np.angle(a + 1j*b) with a, b free of the imaginary unit is arctan2(b, a)
        p_ = split_complex(t[0]) if t[0].has(sp.I) else None
        deg = kw(kwargs, "deg")
        if deg is None and len(t) > 1:
            deg = t[1]
        if p_ is not None and p_[1] != 0 and deg in (None, False, T.FALSE_T):
            return sp.atan2(p_[1], p_[0])
        if p_ is not None and p_[1] != 0 and deg in (True, T.TRUE_T):
            return sp.atan2(p_[1], p_[0]) * 180 / sp.pi      # np.angle(z, deg=True)
        return op("angle", t[0])
    if tail == "linalg.norm":
        return op("norm", t[0])
    if tail == "linalg.lstsq":
        return op("lstsq", t[0], t[1], to_term(kw(kwargs, "rcond")))
    if tail == "fft.irfft":
        n = a[1] if len(a) > 1 else kw(kwargs, "n")
        return op("irfft", t[0], to_term(n))
    if tail == "random.default_rng":
        seed = a[0] if a else kw(kwargs, "seed")
        return op("rng", to_term(seed))
    if tail.startswith("random."):
        return op("global_random_" + tail.split(".")[-1], *t)
    if tail == "datetime64":
        return op("datetime64", *t)
    if tail == "timedelta64":
        return op("timedelta64", *t)
    if tail == "errstate":
        return op("errstate")
    if tail == "dtype":
        return op("dtype", *t)
    if tail == "shape":
        return op("shape", t[0])
    if tail in ("isscalar",):
        return op("isscalar", t[0])
    if tail == "nan_to_num":
        return op("fillna", t[0], sp.Integer(0))
    if tail in KNOWN_EXT:
        return op(tail.replace(".", "_"), *t, *[sp.Tuple(Str(k), to_term(v)) for k, v in sorted(kwargs.items())])
    name = "ext_" + chain.replace(".", "_")
    it.unmodelled.add(name)
    return op(name, *t, *[sp.Tuple(Str(k), to_term(v)) for k, v in sorted(kwargs.items())])


def _tuple_value(v):
    # xarray (dims, data) tuples
    if isinstance(v, tuple) and len(v) == 2:
        return v[1]
    return v


def call_xarray(it, tail, args, kwargs, env, node, chain):
    if tail == "apply_ufunc" and args:
        # xarray.apply_ufunc(f, *arrays): f applied to the arrays (labels are aligned and carried along; the values are f's)
        return it.call(args[0], list(args[1:]), {}, env, node)
    from .interp import DatasetVal

    if tail == "DataArray":
        data = args[0] if args else kw(kwargs, "data")
        if data is None:
            return op("empty_dataarray")
        return data
    if tail == "Dataset":
        src = args[0] if args else kw(kwargs, "data_vars")
        coords = kw(kwargs, "coords")
        if src is None and coords is None:
            return DatasetVal({})
        if isinstance(src, DatasetVal):
            it.dataset_wraps.append((it.loc(env, node), "Dataset"))
            return src
        if isinstance(src, dict) or src is None:
            d = {}
            if isinstance(src, dict):
                for k, v in src.items():
                    d[k] = _tuple_value(v)
            if isinstance(coords, dict):
                for k, v in coords.items():
                    d.setdefault(k, _tuple_value(v))
            elif coords is not None:
                d["__coords__"] = to_term(coords)
            return DatasetVal(d)
        it.dataset_wraps.append((it.loc(env, node), T.show(to_term(src), 80)))
        return op("dataset_of", to_term(src))
    if tail == "where":
        return make_where(args[0], args[1], args[2])
    if tail == "concat":
        dim = args[1] if len(args) > 1 else kw(kwargs, "dim")
        return op("concat", to_term(args[0]), to_term(dim))
    if tail in ("zeros_like", "ones_like"):
        return op(tail[:-5], op("shape", to_term(args[0])))
    if tail == "open_dataset":
        return op("open_dataset", to_term(args[0] if args else kw(kwargs, "filename_or_obj")))
    name = "ext_" + chain.replace(".", "_")
    it.unmodelled.add(name)
    return op(name, *[to_term(a) for a in args], *[sp.Tuple(Str(k), to_term(v)) for k, v in sorted(kwargs.items())])


# ============================================================================ terms: attributes / methods
TERM_METHODS = {
    "isel", "sel", "fillna", "get_axis_num", "integrate", "sum", "mean", "std", "argmax", "argmin", "max", "min", "where",
    "isnull", "notnull", "all", "any", "cumsum", "diff", "differentiate", "reshape", "cumulative_integrate",
    "uniform", "normal", "random", "interp", "dot", "assign", "keys", "items", "to_netcdf", "to_dataframe",
    "to_array", "index", "update", "get", "replace", "astimezone", "timestamp", "strftime", "lower", "upper",
    "startswith", "endswith", "split", "encode", "hexdigest", "tz_localize", "reset_index", "set_index",
    "append", "pop", "fill", "clip", "round", "prod", "searchsorted", "nonzero", "derivative", "conj",
    "__getitem__", "__setitem__", "__iter__", "__contains__", "isoformat", "total_seconds", "touch",
    "sort", "join", "format", "strip", "count", "insert", "extend", "remove", "setdefault", "values_method",
    "raise_for_status", "write", "read", "close", "imap", "map", "imap_unordered", "dropna", "interpolate",
} | IDENTITY_METHODS

TERM_ATTRS_OPAQUE = {"shape", "dims", "coords", "ndim", "size", "dtype", "name", "tzinfo", "tz", "index",
                     "columns", "attrs", "x", "status_code", "text", "content", "real", "imag", "start", "stop"}


def split_complex(z):
    """(real part, imaginary part) of a term in which the imaginary unit occurs only as an explicit factor 1j of real quantities (a
    complex number used as a container for two reals, e.g. complex(a, b) accumulated in a loop): linear constructs - sums, loop sums,
    tabulations, selections, element reads - are split part by part.  None when the unit occurs in any other way."""
    z = to_term(z)
    if not z.has(sp.I):
        return z, sp.Integer(0)
    f = fname(z)
    if f in ("loopsum", "loopsum_brk", "loopprefix", "item", "lastiter") and z.args:
        p_ = split_complex(z.args[0])
        if p_ is None or any(a.has(sp.I) for a in z.args[1:]):
            return None
        return op(f, p_[0], *z.args[1:]), op(f, p_[1], *z.args[1:])
    if f in ("ite", "where") and len(z.args) == 3 and not z.args[0].has(sp.I):
        a_, b_ = split_complex(z.args[1]), split_complex(z.args[2])
        if a_ is None or b_ is None:
            return None
        mk = ITE if f == "ite" else make_where
        return mk(z.args[0], a_[0], b_[0]), mk(z.args[0], a_[1], b_[1])
    if isinstance(z, sp.Add):
        parts = [split_complex(a) for a in z.args]
        if any(p_ is None for p_ in parts):
            return None
        return sp.Add(*[p_[0] for p_ in parts]), sp.Add(*[p_[1] for p_ in parts])
    if isinstance(z, sp.Mul):
        cplx = [a for a in z.args if a.has(sp.I)]
        rest = sp.Mul(*[a for a in z.args if not a.has(sp.I)])
        if len(cplx) == 1:
            if cplx[0] == sp.I:
                return sp.Integer(0), rest
            p_ = split_complex(cplx[0])
            if p_ is not None:
                return rest * p_[0], rest * p_[1]
        return None
    return None


def term_attr(it, base, attr, env, node):
    from .interp import TermMethod

    # os.stat(p).st_atime / .st_mtime are os.path.getatime(p) / getmtime(p)
    if attr in ("st_atime", "st_mtime") and fname(base) in ("ext_os_stat",) and base.args:
        return op("ext_os_path_get" + attr[3:], base.args[0])

    if attr in IDENTITY_ATTRS:
        return base
    if attr in ("real", "imag") and isinstance(base, sp.Basic) and base.has(sp.I):
        # only a term that spells out its imaginary unit is read as a container of two reals; anything else may itself be complex
        p_ = split_complex(base)
        if p_ is not None:
            return p_[0] if attr == "real" else p_[1]
    if attr == "real":
        return sp.re(base)
    if attr == "imag":
        return sp.im(base)
    if attr == "shape" and base in getattr(it, "shape_hints", {}):
        return tuple(it.shape_hints[base])
    if attr in TERM_ATTRS_OPAQUE:
        return op(attr, base)
    if attr in TERM_METHODS:
        return TermMethod(base, attr)
    # xarray attribute-style variable access (dataset.friction_velocity, data.frequency)
    return op("item", base, Str(attr))


def _dim_items(args, kwargs):
    items = []
    if args and isinstance(args[0], dict):
        items.extend(args[0].items())
    elif args:
        items.append((Unknown("positional-indexer"), args[0]))
    for k, v in kwargs.items():
        if k in ("method", "drop", "tolerance", "missing_dims"):
            continue
        items.append((k, v))
    return items


def call_term_method(it, recv, name, args, kwargs, env, node):
    t = [to_term(a) for a in args]
    if name == "copy" and kw(kwargs, "data") is not None:
        return to_term(kw(kwargs, "data"))       # DataArray.copy(data=v): same labels, the values are v
    if name in IDENTITY_METHODS:
        if name == "astype" and t and T.str_of(t[0]) in ("float64", "float", "float32", "double") and fname(recv) == "datetime64" \
                and hasattr(it, "type_hints") and recv not in it.type_hints:
            it.type_hints[recv] = "numbers.Number"      # a time stamp cast to floating point seconds is a plain number from here on
        return recv
    if name == "get_axis_num" and len(t) == 1 and T.is_str_symbol(t[0]):
        return op("axis_of", t[0])
    if name == "fillna":
        v = args[0] if args else kw(kwargs, "value", num(0))
        return op("fillna", recv, to_term(v))
    if name == "isel":
        out = recv
        for k, v in sorted(_dim_items(args, kwargs), key=lambda kv: str(kv[0])):
            out = op("isel", out, to_term(k), canon_index(to_term(v)))
        return out
    if name == "sel":
        out = recv
        method = kw(kwargs, "method")
        for k, v in sorted(_dim_items(args, kwargs), key=lambda kv: str(kv[0])):
            out = op("selc", out, to_term(k), to_term(v), to_term(method))
        return out
    if name == "integrate":
        coord = args[0] if args else kw(kwargs, "coord")
        return op("trapz", recv, to_term(coord))
    if name == "cumulative_integrate":
        coord = args[0] if args else kw(kwargs, "coord")
        return op("cumtrapz", recv, to_term(coord))
    if name in ("sum", "mean", "std", "max", "min", "argmax", "argmin", "prod", "cumsum", "all", "any"):
        axis = args[0] if args else (kw(kwargs, "dim") if "dim" in kwargs else kw(kwargs, "axis"))
        skipna = kw(kwargs, "skipna")
        named = isinstance(axis, str) or T.is_str_symbol(axis) or "dim" in kwargs
        if named and skipna is None and name in ("sum", "mean", "std", "max", "min"):
            skipna = True  # xarray reductions over a named dimension skip NaN for float data by default
        return reduce_op(name, recv, axis, skipna)
    if name == "where":
        cond = args[0] if args else kw(kwargs, "cond")
        other = args[1] if len(args) > 1 else kw(kwargs, "other", T.NAN_T)
        if kw(kwargs, "drop") is True:
            return op("where_drop", to_term(cond), recv)
        return make_where(cond, recv, other)
    if name == "isnull":
        return op("isnull", recv)
    if name == "notnull":
        return op("notnull", recv)
    if name == "diff":
        return op("diff_dim", recv, to_term(args[0] if args else kw(kwargs, "dim")))
    if name == "differentiate":
        return op("differentiate", recv, to_term(args[0] if args else kw(kwargs, "coord")))
    if name == "reshape":
        shape = args[0] if len(args) == 1 else tuple(args)
        r_ = _indices_as_unravel(recv, to_term(shape), to_term(kw(kwargs, "order", "C")))
        if r_ is not None:
            return r_
        return op("reshape", recv, to_term(shape), to_term(kw(kwargs, "order", "C")))
    if name == "uniform":
        # Generator.uniform(lo, hi, size) is lo + (hi - lo) * Generator.random(size): one draw in [0, 1) per element
        lo_ = t[0] if len(t) > 0 else to_term(kw(kwargs, "low", num(0)))
        hi_ = t[1] if len(t) > 1 else to_term(kw(kwargs, "high", num(1)))
        sz_ = t[2] if len(t) > 2 else to_term(kw(kwargs, "size"))
        return lo_ + (hi_ - lo_) * op("random01", recv, sz_)
    if name == "random" and fname(recv) in ("rng", "default_rng", "ext_numpy_random_default_rng"):
        sz_ = t[0] if t else to_term(kw(kwargs, "size"))
        return op("random01", recv, sz_)
    if name == "conj":
        return sp.conjugate(recv)
    if name == "assign":
        src = args[0] if args else kwargs
        out = recv
        if isinstance(src, dict):
            for k, v in src.items():
                out = op("assign", out, to_term(k), to_term(v))
            return out
        return op("assign", out, to_term(src))
    if name == "clip":
        return op("clip", recv, *t)
    if name == "dot":
        return op("dot", recv, *t)
    if name == "index":
        return op("index_of", recv, *t)
    if name == "get":
        return op("get", recv, *t)
    if name in ("keys", "items"):
        return op("dict_" + name, recv)
    if name == "derivative":
        return op("derivative", recv)
    mname = "m_" + name
    if name not in TERM_METHODS:
        it.unmodelled.add(mname)
    return op(mname, recv, *t, *[sp.Tuple(Str(k), to_term(v)) for k, v in sorted(kwargs.items())])


def subst_index(val, pattern, actual):
    """Substitute loop symbols in a tabulated value by actual indices."""
    return val


def term_getitem(it, base, idx, env, node):
    f = fname(base)
    # component k of a sum of stacked components is the sum of component k: (sum_i stack((x, y, z)))[k] == sum_i (x, y, z)[k]
    if isinstance(idx, sp.Basic) and getattr(idx, "is_Integer", False):
        if f in ("loopsum", "loopsum_brk") and fname(base.args[0]) in ("stack", "array") and base.args[0].args:
            comps = base.args[0].args[0].args if isinstance(base.args[0].args[0], sp.Tuple) else base.args[0].args
            if 0 <= int(idx) < len(comps):
                return op(f, comps[int(idx)], *base.args[1:])
        if isinstance(base, sp.Mul):
            arrs = [a for a in base.args if not (a.is_number or is_scalar_term(a))]
            if len(arrs) == 1 and fname(arrs[0]) in ("loopsum", "loopsum_brk"):
                rest = sp.Mul(*[a for a in base.args if a is not arrs[0]])
                return rest * term_getitem(it, arrs[0], idx, env, node)
    if f == "zeros" and isinstance(idx, sp.Basic) and (getattr(idx, "is_Integer", False) or (isinstance(idx, sp.Symbol) and not T.is_str_symbol(idx))):
        return sp.Integer(0)        # any element of np.zeros(..)
    # np.stack((r0, r1, ..))[k, j] with a concrete k is r_k[j]
    if f in ("stack", "vstack") and base.args and isinstance(base.args[0], sp.Tuple) and isinstance(idx, (sp.Tuple, tuple)) \
            and all(not (isinstance(a, sp.Tuple) and a.args and a.args[0] == Str("axis") and a.args[1] != 0) for a in base.args[1:]):
        ti_ = to_term(idx)
        if len(ti_.args) >= 1 and getattr(ti_.args[0], "is_Integer", False) and 0 <= int(ti_.args[0]) < len(base.args[0].args):
            rest_ = ti_.args[1:]
            row = base.args[0].args[int(ti_.args[0])]
            if not rest_:
                return row
            return term_getitem(it, row, rest_[0] if len(rest_) == 1 else sp.Tuple(*rest_), env, node)
    # (a < B)[i] for an element-wise comparison of arrays is a < B[i]
    if f in ("lt", "ge", "eq", "ne", "and_", "or_", "not_") and isinstance(idx, sp.Basic) and not isinstance(idx, sp.Tuple) \
            and fname(idx) != "slc" and (isinstance(idx, sp.Symbol) or idx.is_Integer) and not T.is_str_symbol(idx):
        def elem(a_):
            if a_.is_number or is_scalar_term(a_):
                return a_
            return element_of(it, a_, idx)
        return op(f, *[elem(a_) for a_ in base.args])
    if is_term(idx) if False else isinstance(idx, sp.Basic):
        idx = canon_index(idx)
    # X.sizes["dim"]: the length of the coordinate that names the dimension (the one coordinate of that name X is built from)
    if f == "item" and base.args[1] == Str("sizes") and T.is_str_symbol(to_term(idx)):
        coords = {n for n in sp.preorder_traversal(base.args[0]) if fname(n) == "item" and n.args[1] == to_term(idx)}
        if len(coords) == 1:
            return op("len", next(iter(coords)))
    # B[i][j] == B[i, j] for loop indices i, j (rows walked one by one)
    if f == "item" and isinstance(base.args[1], sp.Symbol) and str(base.args[1]).startswith("~i:") \
            and isinstance(idx, sp.Symbol) and str(idx).startswith("~i:"):
        return term_getitem(it, base.args[0], sp.Tuple(base.args[1], idx), env, node)
    # tabulate(base0, idxpattern, value, loopvar): read back an element
    if f == "tabulate":
        r = read_tabulate(it, base, idx)
        if r is not None:
            return r
    if f == "array" and T.to_term(idx).is_Integer:
        i = int(T.to_term(idx))
        if -len(base.args) <= i < len(base.args):
            return base.args[i]
    if isinstance(base, sp.Tuple):
        i = None
        ti = to_term(idx)
        if ti.is_Integer:
            i = int(ti)
            if -len(base.args) <= i < len(base.args):
                return base.args[i]
    if isinstance(idx, dict):
        out = base
        for k, v in sorted(idx.items(), key=lambda kv: str(kv[0])):
            out = op("isel", out, to_term(k), to_term(v))
        return out
    if f == "assign":
        key = to_term(idx)
        b = base
        while fname(b) == "assign" and len(b.args) == 3:
            if b.args[1] == key:
                return b.args[2]
            if not (T.is_str_symbol(b.args[1]) and T.is_str_symbol(key)):
                break
            b = b.args[0]
        if fname(b) != "assign" and T.is_str_symbol(key):
            return op("item", b, key)
    if f == "store":
        r = read_store_chain(base, to_term(idx))
        if r is not None:
            return r
    if f in ("outer", "ext_numpy_outer") and len(base.args) == 2 and isinstance(to_term(idx), sp.Tuple) and len(to_term(idx).args) == 2 \
            and all(fname(x) != "slc" and x not in (NONE_T, T.ELLIPSIS_T) for x in to_term(idx).args):
        # np.outer(x, y)[i, j] == x[i] * y[j]
        i0, i1 = to_term(idx).args
        return op("item", base.args[0], i0) * op("item", base.args[1], i1)
    if isinstance(base, (sp.Mul, sp.Add)) and isinstance(to_term(idx), sp.Tuple) and any(_is_broadcast_axis(a) for a in base.args) \
            and all(is_scalar_term(a) or _is_broadcast_axis(a) for a in base.args):
        # outer products written with inserted axes: element (i, j) of x[:, None] * y[None, :] is x[i] * y[j]
        return element_of(it, base, idx)
    if isinstance(base, (sp.Mul, sp.Add)) and _concrete_index(to_term(idx)):
        parts = []
        okd = True
        for a in base.args:
            if is_scalar_term(a):
                parts.append(a)
            elif fname(a) in ("store", "tabulate", "zeros", "array") or isinstance(a, (sp.Mul, sp.Add)):
                parts.append(term_getitem(it, a, idx, env, node))
            else:
                okd = False
                break
        if okd:
            return base.func(*parts)
    return op("item", base, to_term(idx))


def _is_broadcast_axis(a) -> bool:
    if fname(a) == "expand_dims":
        return True
    return fname(a) == "item" and isinstance(a.args[1], sp.Tuple) and NONE_T in a.args[1].args and all(
        x == NONE_T or fname(x) == "slc" for x in a.args[1].args)


def _concrete_index(ti) -> bool:
    full = op("slc", NONE_T, NONE_T, NONE_T)
    if ti.is_number:
        return True
    if isinstance(ti, sp.Tuple):
        return all(x.is_number or x == full for x in ti.args)
    return False


def is_scalar_term(t) -> bool:
    if t.is_number:
        return True
    f = fname(t)
    if f in ("sum", "min", "max", "nansum", "mean") and len(t.args) == 2 and t.args[1] == NONE_T:
        return True
    if f in ("norm", "len"):
        return True
    if isinstance(t, (sp.Mul, sp.Add)):
        return all(is_scalar_term(a) for a in t.args)
    if isinstance(t, sp.Pow):
        return is_scalar_term(t.args[0]) and is_scalar_term(t.args[1])
    return False


def _index_relation(i, j):
    """'same' | 'different' | None (undecided) for two index terms"""
    if i == j:
        return "same"
    full = op("slc", NONE_T, NONE_T, NONE_T)
    if i.is_number and j.is_number:
        return "different"
    if isinstance(i, sp.Tuple) and isinstance(j, sp.Tuple) and len(i.args) == len(j.args):
        rel = "same"
        for a, b in zip(i.args, j.args):
            if a == b:
                continue
            if a.is_number and b.is_number:
                return "different"
            return None
        return rel
    return None


def read_store_chain(base, ti):
    """element ti of store(store(...)): the latest store to that index wins; stores to provably different
    indices are skipped; a full-slice store of a scalar defines every element"""
    full = op("slc", NONE_T, NONE_T, NONE_T)
    cur = base
    while fname(cur) == "store":
        b, i, v = cur.args
        rel = _index_relation(i, ti)
        if rel == "same":
            return v
        if rel == "different":
            cur = b
            continue
        if (i == full or (isinstance(i, sp.Tuple) and all(x == full for x in i.args))) and (v.is_number or is_scalar_term(v)):
            return v
        # a whole row was stored: table[k, :] = row; element (k, j) is row[j], rows with another number are skipped
        if isinstance(i, sp.Tuple) and isinstance(ti, sp.Tuple) and len(i.args) == 2 == len(ti.args) and i.args[1] == full \
                and getattr(i.args[0], "is_Integer", False) and getattr(ti.args[0], "is_Integer", False) and fname(ti.args[1]) != "slc":
            if i.args[0] != ti.args[0]:
                cur = b
                continue
            return v if (v.is_number or is_scalar_term(v)) else element_of(None, v, ti.args[1])
        return None
    if fname(cur) == "zeros" or cur == 0:
        return sp.Integer(0)
    return None


def _flatten_tab(t):
    """tabulate(tabulate(... base ...)) chains produced by nested loops ->
    (base, index, value, [loopvars])"""
    loopvars = []
    idx = t.args[1]
    val = t.args[2]
    loopvars.append(t.args[3])
    base = t.args[0]
    # nested: index = ("inner", idx2, lv2)
    while isinstance(idx, sp.Tuple) and len(idx.args) in (3, 4) and idx.args[0] == Str("inner"):
        loopvars.append(idx.args[2])
        idx = idx.args[1]
    return base, idx, val, loopvars


def tab_ranges(t):
    """iteration spaces of the loops of a (nested) tabulate, outermost first"""
    out = [t.args[4] if len(t.args) > 4 else None]
    idx = t.args[1]
    while isinstance(idx, sp.Tuple) and len(idx.args) in (3, 4) and idx.args[0] == Str("inner"):
        out.append(idx.args[3] if len(idx.args) > 3 else None)
        idx = idx.args[1]
    return out


def read_tabulate(it, tab, idx):
    base, pat, val, loopvars = _flatten_tab(tab)
    ti = to_term(idx)
    pats = list(pat.args) if isinstance(pat, sp.Tuple) else [pat]
    acts = list(ti.args) if isinstance(ti, sp.Tuple) else [ti]
    # allow reading a row: fewer actual indices than pattern (or slices) -> partial substitution
    subs = {}
    rest = []
    if len(acts) > len(pats):
        return None
    for i, pv in enumerate(pats):
        if i < len(acts):
            av = acts[i]
            if pv in loopvars:
                if fname(av) == "slc":
                    rest.append(av)
                    continue
                subs[pv] = av
            elif fname(pv) == "slc" and pv.args == (NONE_T, NONE_T, NONE_T):
                rest.append(av)
            elif pv == av:
                continue
            else:
                return None
        else:
            pass
    if not subs and loopvars:
        return None
    out = val.xreplace(subs)
    remaining = [lv for lv in loopvars if lv not in subs]
    keep = op("keep")
    if out.has(keep) and not remaining and not rest and fname(base) not in ("empty", "empty_like"):
        # a pass that does not store leaves what the buffer held before the loop (e.g. a zero fill ahead of the loop)
        prior = element_of(it, base, idx)
        if not (fname(prior) == "item" and prior.args[0] == base):
            out = out.xreplace({keep: prior})
    if rest and any(not (fname(r) == "slc" and r.args == (NONE_T, NONE_T, NONE_T)) for r in rest):
        # the stored value is a row (or slab): its element is the same expression of the operands' elements
        out = index_slab(it, out, rest)
    if remaining:
        out = op("tabrow", out, *remaining)
    return out


def index_slab(it, val, rest):
    """element `rest` (indices for the sliced axes, in order) of a row/slab expression: scalars are unchanged, an operand
    x[a, :, b, :] becomes x[a, r0, b, r1], arithmetic and ite distribute."""
    val = to_term(val)
    full = op("slc", NONE_T, NONE_T, NONE_T)
    if val.is_number or is_scalar_term(val):
        return val
    if isinstance(val, (sp.Add, sp.Mul)):
        return val.func(*[index_slab(it, a, rest) for a in val.args])
    if isinstance(val, sp.Pow) and (val.args[1].is_number or is_scalar_term(val.args[1])):
        return index_slab(it, val.args[0], rest) ** val.args[1]
    f = fname(val)
    if f == "ite":
        return ITE(val.args[0], index_slab(it, val.args[1], rest), index_slab(it, val.args[2], rest))
    if f == "item":
        ix = val.args[1]
        parts = list(ix.args) if isinstance(ix, sp.Tuple) else [ix]
        nfull = sum(1 for x in parts if x == full)
        if nfull == len(rest) and nfull > 0:
            it_rest = iter(rest)
            return op("item", val.args[0], sp.Tuple(*[next(it_rest) if x == full else x for x in parts]))
        if nfull == 0 and all(fname(x) != "slc" for x in parts):
            return val          # an element: a scalar in this expression
    return op("item", val, sp.Tuple(*rest) if len(rest) > 1 else rest[0])


def canon_index(ti):
    """x[np.nonzero(m)], x[np.nonzero(m)[0]], x[np.where(m)[0]], x[np.flatnonzero(m)] select what the boolean mask x[m] selects
    (in the same order): positions and mask are one index."""
    if isinstance(ti, sp.Tuple) and any(fname(x) in ("nonzero", "flatnonzero", "ext_numpy_flatnonzero") for x in ti.args):
        return sp.Tuple(*[canon_index(x) for x in ti.args])
    f = fname(ti)
    if f in ("nonzero", "flatnonzero", "ext_numpy_flatnonzero") and len(ti.args) == 1:
        return ti.args[0]
    if f == "item" and fname(ti.args[0]) == "nonzero" and len(ti.args[0].args) == 1 and ti.args[1] == 0:
        return ti.args[0].args[0]
    return ti


_BOOLEAN_HEADS = ("and_", "or_", "not_", "lt", "ge", "eq", "ne", "isnull", "notnull", "isfinite", "isinf")


def term_setitem(it, base, idx, value, env, node):
    ti = canon_index(to_term(idx))
    tv = to_term(value)
    # x[..., mask] = c with a boolean mask over the trailing axis and a scalar c: x where the mask does not hold, c where it does
    if isinstance(ti, sp.Tuple) and len(ti.args) == 2 and ti.args[0] == T.ELLIPSIS_T and fname(ti.args[1]) in _BOOLEAN_HEADS \
            and (tv.is_number or is_scalar_term(tv)) and fname(to_term(base)) not in ("empty", "zeros"):
        return make_where(T.NOT(ti.args[1]), to_term(base), tv)
    if fname(base) == "store" and base.args[1] == ti:
        base = base.args[0]  # overwriting the element just written
    return op("store", base, ti, to_term(value))


# ============================================================================ python containers
def call_py_method(it, recv, name, args, kwargs, env, node):
    from .interp import as_int, DatasetVal

    if isinstance(recv, DatasetVal):
        if name == "assign":
            src = args[0] if args else kwargs
            new = recv.copy()
            if isinstance(src, dict):
                for k, v in src.items():
                    kk = T.str_of(k) if (isinstance(k, str) or T.is_str_symbol(k)) else k
                    new.items[kk] = v
                return new
            return op("assign", recv.as_term(), to_term(src))
        if name == "copy":
            return recv.copy()
        if name == "keys":
            return list(recv.items.keys())
        if name == "items":
            return list(recv.items.items())
        if name in ("reset_coords", "drop_vars"):
            return recv
        if name == "update" and args and isinstance(args[0], dict):
            recv.items.update(args[0])
            return None
        return op("m_" + name, recv.as_term(), *[to_term(a) for a in args])

    if isinstance(recv, dict):
        if name == "get":
            key = args[0]
            k = T.str_of(key) if (isinstance(key, str) or T.is_str_symbol(key)) else key
            default = args[1] if len(args) > 1 else None
            try:
                if k in recv:
                    return recv[k]
            except TypeError:
                pass
            return default
        if name == "items":
            return [(k, v) for k, v in recv.items()]
        if name == "keys":
            return list(recv.keys())
        if name == "values":
            return list(recv.values())
        if name == "copy":
            return dict(recv)
        if name == "pop":
            k = T.str_of(args[0]) if (isinstance(args[0], str) or T.is_str_symbol(args[0])) else args[0]
            try:
                if k in recv:
                    return recv.pop(k)
            except TypeError:
                pass
            return args[1] if len(args) > 1 else it.note_unknown("dict.pop missing", node, env)
        if name == "update":
            if args and isinstance(args[0], dict):
                recv.update(args[0])
            recv.update(kwargs)
            return None
        if name == "setdefault":
            return recv.setdefault(args[0], args[1] if len(args) > 1 else None)
    if isinstance(recv, list):
        if name == "append":
            recv.append(args[0])
            return None
        if name == "extend" and isinstance(args[0], (list, tuple)):
            recv.extend(args[0])
            return None
        if name == "pop":
            i = as_int(args[0]) if args else -1
            if i is not None and recv:
                return recv.pop(i)
        if name == "copy":
            return list(recv)
        if name == "insert":
            i = as_int(args[0])
            if i is not None:
                recv.insert(i, args[1])
                return None
    if isinstance(recv, (list, tuple)):
        if name == "index":
            for i, x in enumerate(recv):
                try:
                    if x is args[0] or x == args[0]:
                        return sp.Integer(i)
                except Exception:
                    pass
            return op("index_of", to_term(recv), to_term(args[0]))
        if name == "count":
            return sp.Integer(sum(1 for x in recv if x == args[0]))
    if isinstance(recv, str):
        if name == "lower":
            return recv.lower()
        if name == "upper":
            return recv.upper()
        if name == "startswith" and isinstance(args[0], str):
            return recv.startswith(args[0])
        if name == "endswith" and isinstance(args[0], str):
            return recv.endswith(args[0])
        if name == "split" and all(isinstance(a, str) for a in args):
            return recv.split(*args)
        if name == "join" and isinstance(args[0], (list, tuple)) and all(isinstance(a, str) for a in args[0]):
            return recv.join(args[0])
        if name == "replace" and all(isinstance(a, str) for a in args):
            return recv.replace(*args)
        if name == "format":
            return op("fstr", Str(recv), *[to_term(a) for a in args])
        if name == "encode":
            return recv
        return op("m_" + name, Str(recv), *[to_term(a) for a in args])
    return op("m_" + name, to_term(recv), *[to_term(a) for a in args])


# ============================================================================ builtins
def call_builtin(it, name, args, kwargs, env, node):
    from .interp import (Obj, ClassVal, DatasetVal, truth, as_int, is_term, FuncVal, BoundMethod, Ext, SuperVal,
                         MISSING)

    if name.startswith("<object."):
        return None
    if name == "len":
        v = args[0]
        if isinstance(v, (list, tuple, dict, str)):
            return sp.Integer(len(v))
        if isinstance(v, DatasetVal):
            return sp.Integer(len(v.items))
        if isinstance(v, Obj):
            m = v.cls.find_method("__len__")
            if m is not None:
                return it.call_function(m, [v], {}, env, node)
        tv = to_term(v)
        # an element-wise function of one array, or its multiple by a number, has that array's length
        while True:
            if isinstance(tv, (sp.exp, sp.cos, sp.sin, sp.tan, sp.Abs, sp.conjugate, sp.re, sp.im, sp.log, sp.tanh, sp.sinh, sp.cosh)) \
                    and len(tv.args) == 1 and not tv.args[0].is_number:
                tv = tv.args[0]
                continue
            if isinstance(tv, sp.Mul):
                arrs = [a for a in tv.args if not a.is_number]
                if len(arrs) == 1:
                    tv = arrs[0]
                    continue
            break
        return op("len", tv)
    if name == "range":
        return op("range", *[to_term(a) for a in args])
    if name == "complex" and len(args) == 2:
        return to_term(args[0]) + sp.I * to_term(args[1])
    if name in ("int", "float", "complex"):
        if not args:
            return sp.Integer(0)
        v = to_term(args[0])
        if name == "int":
            if v.is_number and v.is_Rational:
                return sp.Integer(int(v))
            return op("int", v)
        return v
    if name == "bool":
        t = truth(args[0]) if args else False
        return t if t is not None else op("bool", to_term(args[0]))
    if name == "str":
        v = args[0] if args else ""
        if isinstance(v, str):
            return v
        if T.is_str_symbol(v):
            return T.str_of(v)
        tv = to_term(v)
        if fname(tv) in ("elem", "key"):
            return tv  # names iterated from a mapping stay themselves under str()
        return op("str", tv)
    if name in ("list", "tuple", "set", "sorted", "reversed", "iter"):
        if not args:
            return [] if name != "tuple" else ()
        v = args[0]
        seq = it.iterate(v, env, node)
        if seq is not None and name in ("list", "tuple", "set"):
            return list(seq) if name != "tuple" else tuple(seq)
        if seq is not None and name == "reversed":
            return list(seq)[::-1]
        if isinstance(v, DatasetVal):
            return list(v.items.keys())
        if name in ("list", "tuple", "iter"):
            return v
        return op(name, to_term(v), *[sp.Tuple(Str(k), to_term(x)) for k, x in sorted(kwargs.items())])
    if name == "dict":
        if args and isinstance(args[0], dict):
            d = dict(args[0])
        elif args and isinstance(args[0], (list, tuple)):
            try:
                d = {k: v for k, v in args[0]}
            except Exception:
                return it.note_unknown("dict() of pairs", node, env)
        else:
            d = {}
        d.update(kwargs)
        return d
    if name == "divmod" and len(args) == 2:
        # divmod(a, b) == (a // b, a - b * (a // b))
        ta, tb = to_term(args[0]), to_term(args[1])
        if ta.is_number and tb.is_number and ta.is_Rational and tb.is_Rational and tb != 0:
            q = sp.floor(ta / tb)
        else:
            q = op("floordiv", ta, tb)
        return (q, ta - tb * q)
    if name == "zip":
        seqs = [it.iterate(a, env, node) for a in args]
        if all(s is not None for s in seqs):
            return [tuple(x) for x in zip(*seqs)]
        return op("zip", *[to_term(a) for a in args])
    if name == "enumerate":
        seq = it.iterate(args[0], env, node)
        if seq is not None:
            return [(sp.Integer(i), x) for i, x in enumerate(seq)]
        return op("enumerate", to_term(args[0]))
    if name == "isinstance":
        return isinstance_model(it, args[0], args[1], env, node)
    if name == "abs":
        return sp.Abs(to_term(args[0]))
    if name in ("min", "max"):
        vals = args[0] if len(args) == 1 and isinstance(args[0], (list, tuple)) else args
        tv = [to_term(v) for v in vals] if isinstance(vals, (list, tuple)) else [to_term(vals)]
        if len(tv) == 1:
            return op(name, tv[0], NONE_T)
        if all(v.is_number and v.is_comparable for v in tv):
            return (sp.Min if name == "min" else sp.Max)(*tv)
        return op("minimum" if name == "min" else "maximum", *sorted(tv, key=sp.default_sort_key))
    if name == "sum":
        v = args[0]
        if isinstance(v, (list, tuple)):
            acc = to_term(args[1]) if len(args) > 1 else sp.Integer(0)
            for x in v:
                acc = acc + to_term(x)
            return acc
        return op("sum", to_term(v), NONE_T)
    if name == "type":
        v = args[0]
        if isinstance(v, Obj):
            return ClassVal(v.cls)
        return op("type", to_term(v))
    if name == "getattr":
        nm = args[1] if isinstance(args[1], str) else T.str_of(args[1])
        if nm is not None:
            return it.get_attr(args[0], nm, env, node)
        if isinstance(args[0], Obj):
            return op("getattr", to_term(args[0]), to_term(args[1]))
        return op("getattr", to_term(args[0]), to_term(args[1]))
    if name == "hasattr":
        v = args[0]
        nm = args[1] if isinstance(args[1], str) else None
        if isinstance(v, Obj) and nm:
            return nm in v.fields or v.cls.find_method(nm) is not None
        return op("hasattr", to_term(v), to_term(args[1]))
    if name == "setattr":
        if isinstance(args[1], str):
            it.set_attr(args[0], args[1], args[2], env, node)
        return None
    if name == "print":
        return None
    if name in ("any", "all"):
        v = args[0]
        if isinstance(v, (list, tuple)):
            ts = [truth(x) for x in v]
            if all(t is not None for t in ts):
                return any(ts) if name == "any" else all(ts)
            return (OR if name == "any" else AND)(*[to_term(x) for x in v])
        return op(name, to_term(v), NONE_T)
    if name == "filter":
        return op("filter", to_term(args[0]), to_term(args[1]))
    if name == "map":
        return op("map", to_term(args[0]), *[to_term(a) for a in args[1:]])
    if name == "slice":
        a3 = list(args) + [None] * (3 - len(args))
        if len(args) == 1:
            return slice(None, args[0], None)
        return slice(a3[0], a3[1], a3[2])
    if name == "round":
        return op("round", *[to_term(a) for a in args])
    if name == "callable":
        return isinstance(args[0], (FuncVal, BoundMethod, Ext))
    if name == "open":
        mode = args[1] if len(args) > 1 else kw(kwargs, "mode", "r")
        return op("open", to_term(args[0]), to_term(mode))
    if name in ("ValueError", "Exception", "KeyError", "TypeError", "IOError", "FileNotFoundError",
                "NotImplementedError", "DeprecationWarning"):
        return op("exc_" + name, *[to_term(a) for a in args])
    return it.note_unknown(f"builtin {name}", node, env)


TYPE_FACTS = {
    # term operator name -> python/xarray type family it denotes
}


def isinstance_model(it, v, cls, env, node):
    from .interp import Obj, ClassVal, Ext, DatasetVal

    classes = list(cls) if isinstance(cls, (tuple, list)) else [cls]
    if isinstance(v, Obj):
        res = False
        for c in classes:
            if isinstance(c, ClassVal) and v.cls.is_subclass_of(c.cls):
                res = True
        return res
    pytypes = {"str": str, "dict": dict, "list": list, "tuple": tuple, "bool": bool}
    if isinstance(v, (str, dict, list, tuple, bool)) or v is None:
        for c in classes:
            nm = getattr(c, "name", None)
            if nm in pytypes and isinstance(v, pytypes[nm]):
                return True
            if isinstance(c, Ext) and c.chain in ("typing.Iterable", "typing.Sequence") and isinstance(v, (list, tuple)):
                return True
        return False
    if isinstance(v, DatasetVal):
        return any(isinstance(c, Ext) and c.chain == "xarray.Dataset" for c in classes)
    names = []
    for c in classes:
        if isinstance(c, ClassVal):
            names.append(c.cls.name)
        elif isinstance(c, Ext):
            names.append(c.chain)
        else:
            names.append(getattr(c, "name", "?"))
    hint = it.type_hints.get(to_term(v)) if hasattr(it, "type_hints") else None
    if hint is not None:
        return any(n == hint or n.endswith("." + hint) for n in names)
    return op("isinstance", to_term(v), *[Str(n) for n in sorted(names)])


# ============================================================================ element access on array terms
def element_of(it, arr, idx):
    """Term of element ``idx`` (tuple of index terms) of an array-valued term: distributes over arithmetic,
    ite/where, and reads tabulate/store summaries; falls back to item(arr, idx)."""
    arr = to_term(arr)
    ti = to_term(idx)
    f = fname(arr)
    if isinstance(arr, (sp.Add, sp.Mul)):
        parts = [element_of(it, a, idx) if not a.is_number else a for a in arr.args]
        return arr.func(*parts)
    if isinstance(arr, sp.Pow):
        return element_of(it, arr.args[0], idx) ** arr.args[1] if arr.args[1].is_number else op("item", arr, ti)
    if f == "ite":
        return ITE(arr.args[0], element_of(it, arr.args[1], idx), element_of(it, arr.args[2], idx))
    if f == "tabulate":
        r = read_tabulate(it, arr, idx)
        if r is not None and fname(r) != "tabrow":
            return r
        return op("item", arr, ti)
    if f == "store":
        base, i, v = arr.args
        full = op("slc", NONE_T, NONE_T, NONE_T)
        if i == ti:
            return v
        if i == full or (isinstance(i, sp.Tuple) and all(x == full for x in i.args)):
            return v if not isinstance(v, sp.Basic) or v.is_number or True else v
        return op("item", arr, ti)
    if f in ("zeros",):
        return sp.Integer(0)
    if arr.is_number:
        return arr
    # inserted length-one axes only broadcast: np.expand_dims(x, k), x[None, :], x[:, None]
    if isinstance(ti, sp.Tuple):
        full = op("slc", NONE_T, NONE_T, NONE_T)
        if f == "expand_dims" and len(arr.args) == 2 and arr.args[1].is_Integer:
            k = int(arr.args[1])
            k = k if k >= 0 else len(ti.args) + k
            if 0 <= k < len(ti.args):
                rest = [x for j, x in enumerate(ti.args) if j != k]
                return element_of(it, arr.args[0], sp.Tuple(*rest) if len(rest) != 1 else rest[0])
        if f == "item" and isinstance(arr.args[1], sp.Tuple) and len(arr.args[1].args) == len(ti.args) \
                and all(x == NONE_T or x == full for x in arr.args[1].args) and NONE_T in arr.args[1].args:
            rest = [x for x, sel in zip(ti.args, arr.args[1].args) if sel == full]
            return element_of(it, arr.args[0], sp.Tuple(*rest) if len(rest) != 1 else rest[0])
    return term_getitem(it, arr, idx, None, None)
