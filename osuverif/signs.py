"""Engine E2 on terms: sign / zero-guard / homogeneity analysis of extracted kernel terms.

Abstract value = subset of {NEG, ZERO, POS} (bit mask).  Atoms get their sign from an explicit
assumption table (printed in the evidence) and from branch conditions met on the way (``ite``
refinement).  Everything not modelled is TOP.
"""
from __future__ import annotations

from typing import Callable, Dict, List, Optional, Tuple

import sympy as sp

from . import terms as T
from .terms import fname, op, NONE_T, TRUE_T, FALSE_T

NEG, ZERO, POS = 1, 2, 4
TOP = NEG | ZERO | POS
NONNEG = ZERO | POS
NONPOS = ZERO | NEG
BOT = 0


def show(s: int) -> str:
    return {0: "bottom", NEG: "<0", ZERO: "=0", POS: ">0", NONNEG: ">=0", NONPOS: "<=0", NEG | POS: "!=0", TOP: "any"}[s]


def neg(s):
    out = 0
    if s & NEG:
        out |= POS
    if s & POS:
        out |= NEG
    if s & ZERO:
        out |= ZERO
    return out


def mul(a, b):
    if a == BOT or b == BOT:
        return BOT
    out = 0
    for x in (NEG, ZERO, POS):
        if not a & x:
            continue
        for y in (NEG, ZERO, POS):
            if not b & y:
                continue
            if x == ZERO or y == ZERO:
                out |= ZERO
            elif x == y:
                out |= POS
            else:
                out |= NEG
    return out


def add(a, b):
    if a == BOT or b == BOT:
        return BOT
    out = 0
    for x in (NEG, ZERO, POS):
        if not a & x:
            continue
        for y in (NEG, ZERO, POS):
            if not b & y:
                continue
            if x == ZERO:
                out |= y
            elif y == ZERO:
                out |= x
            elif x == y:
                out |= x
            else:
                out |= TOP
    return out


def inv(s):
    # 1/x : zero excluded from the domain (division by zero is not a sign question)
    return s & ~ZERO if s & ~ZERO else s


class SignAnalysis:
    def __init__(self, assumptions: List[Tuple[Callable[[sp.Basic], bool], int, str]]):
        """assumptions: (predicate on term, sign set, description)"""
        self.assumptions = assumptions
        self.small_angle = None  # predicate: term is -(W) with 0 < W < pi/2
        self.symbolic_powers: Dict = {}  # power term with non-numeric exponent -> sign set of its base (in context)
        self.used: List[str] = []
        self.unknown: List[str] = []

    def atom(self, t) -> Optional[int]:
        for pred, s, desc in self.assumptions:
            try:
                if pred(t):
                    if desc not in self.used:
                        self.used.append(desc)
                    return s
            except Exception:
                pass
        return None

    def refine(self, facts: Dict, cond, truth: bool) -> Dict:
        """facts after assuming cond == truth"""
        out = dict(facts)
        f = fname(cond)
        if f == "not_":
            return self.refine(facts, cond.args[0], not truth)
        if f == "and_" and truth:
            for a in cond.args:
                out = self.refine(out, a, True)
            return out
        if f == "or_" and not truth:
            for a in cond.args:
                out = self.refine(out, a, False)
            return out
        if f in ("lt", "ge") and len(cond.args) == 2:
            a, b = cond.args
            strict_less = (f == "lt") == truth  # a < b holds
            # normalise to  (b - a) > 0  or (b - a) <= 0 ... keep simple cases with a zero side
            if a == 0:
                # 0 < b  | 0 >= b
                s = POS if (f == "lt") == truth else NONPOS
                out[b] = out.get(b, TOP) & s
            elif b == 0:
                # a < 0  | a >= 0
                s = NEG if (f == "lt") == truth else NONNEG
                out[a] = out.get(a, TOP) & s
            else:
                d = b - a
                s = POS if (f == "lt") == truth else NONPOS
                out[d] = out.get(d, TOP) & s
                out[-d] = out.get(-d, TOP) & neg(s)
        return out

    def sign(self, t, facts: Optional[Dict] = None) -> int:
        facts = facts or {}
        t = T.to_term(t)
        if t in facts:
            base = facts[t]
            inner = self._sign(t, facts)
            return base & inner if inner != BOT else base
        return self._sign(t, facts)

    def _sign(self, t, facts) -> int:
        if t.is_number:
            if t.is_zero:
                return ZERO
            if t.is_positive:
                return POS
            if t.is_negative:
                return NEG
            if t == sp.oo:
                return POS
            if t == -sp.oo:
                return NEG
            return TOP
        a = self.atom(t)
        if a is not None:
            return a
        if isinstance(t, sp.Mul):
            s = POS
            for x in t.args:
                s = mul(s, self.sign(x, facts))
            return s
        if isinstance(t, sp.Add):
            s = ZERO
            for x in t.args:
                s = add(s, self.sign(x, facts))
            return s
        if isinstance(t, sp.Pow):
            b, e = t.args
            sb = self.sign(b, facts)
            if e.is_number and e.is_Integer:
                n = int(e)
                if n == 0:
                    return POS
                if n > 0:
                    if n % 2 == 0:
                        return (POS if sb & (NEG | POS) else 0) | (ZERO if sb & ZERO else 0)
                    return sb
                # negative integer power
                r = inv(sb)
                if n % 2 == 0:
                    return POS if r & (NEG | POS) else r
                return r
            if e.is_number and e.is_Rational:
                # roots: defined for non-negative bases
                if e > 0:
                    return (POS if sb & POS else 0) | (ZERO if sb & ZERO else 0) or NONNEG
                return POS
            # symbolic exponent: positive base stays positive; zero base with positive exponent is zero
            self.symbolic_powers[t] = self.symbolic_powers.get(t, 0) | sb
            if sb == POS:
                return POS
            if not sb & NEG:
                se = self.sign(e, facts)
                if se == POS:
                    return sb
                return NONNEG
            return TOP
        if isinstance(t, sp.exp):
            return POS
        if isinstance(t, sp.cos):
            y = t.args[0]
            for k, v in facts.items():
                # |y - pi| <= W or |y| <= W with W assumed below pi/2
                if isinstance(k, sp.Add) and v == NONPOS:
                    absd = [a for a in k.args if isinstance(a, sp.Abs)]
                    if len(absd) == 1 and self.small_angle is not None and self.small_angle(k - absd[0]):
                        inner = absd[0].args[0]
                        if sp.expand(inner - y) == 0:
                            return POS
                        if sp.expand(inner - (y - sp.pi)) == 0 or sp.expand(inner + (y - sp.pi)) == 0:
                            return NEG
            return TOP
        if isinstance(t, sp.Abs):
            s = self.sign(t.args[0], facts)
            return (POS if s & (NEG | POS) else 0) | (ZERO if s & ZERO else 0)
        if isinstance(t, (sp.cosh,)):
            return POS
        if isinstance(t, (sp.sinh, sp.tanh, sp.atan)):
            return self.sign(t.args[0], facts)
        if isinstance(t, sp.log):
            return TOP
        f = fname(t)
        if f == "ite":
            c, a, b = t.args
            fa = self.refine(facts, c, True)
            fb = self.refine(facts, c, False)
            return self.sign(a, fa) | self.sign(b, fb)
        if f == "where":
            c, a, b = t.args
            return self.sign(a, self.refine(facts, c, True)) | self.sign(b, self.refine(facts, c, False))
        if f in ("item", "sel", "isel", "lastiter", "tabrow"):
            return self.sign(t.args[0], facts)
        if f in ("loopsum", "loopsum_brk", "loopprefix"):
            s = self.sign(t.args[0], facts)
            # a sum of terms of one sign keeps it (possibly empty -> zero)
            if not s & NEG:
                return NONNEG if s & POS else ZERO
            if not s & POS:
                return NONPOS if s & NEG else ZERO
            return TOP
        if f in ("sum", "nansum", "mean", "nanmean", "trapz", "max", "nanmax", "min", "nanmin"):
            s = self.sign(t.args[0], facts)
            if s in (NONNEG, POS, ZERO, NONPOS, NEG):
                return s | ZERO if f in ("sum", "nansum", "trapz") else s
            return TOP
        if f == "tabulate":
            return self.sign(t.args[0], facts) | self.sign(t.args[2], facts)
        if f == "store":
            b_, m_, v_ = t.args
            # x[mask(x)] = v with an element-wise mask computed from x itself: the elements that keep their value are those where the
            # mask does not hold, so x is refined by the negated mask (x[~(x > 0)] = 0 is max(x, 0))
            if T.fname(m_) in ("lt", "ge", "eq", "ne", "not_", "and_", "or_") and m_.has(b_):
                return self.sign(b_, self.refine(facts, m_, False)) | self.sign(v_, facts)
            return self.sign(b_, facts) | self.sign(v_, facts)
        if f == "cumsum":
            s = self.sign(t.args[0], facts)
            if not s & NEG:
                return NONNEG if s & POS else ZERO
            if not s & POS:
                return NONPOS if s & NEG else ZERO
            return TOP
        if f in ("empty",):
            return BOT  # uninitialised: contributes nothing once fully overwritten
        if f in ("zeros",):
            return ZERO
        if f in ("ones",):
            return POS
        if f in ("full",):
            return self.sign(t.args[1], facts)
        if f == "maximum":
            ss = [self.sign(a, facts) for a in t.args]
            if any(s == POS for s in ss):
                return POS
            if any(not s & NEG for s in ss):
                return NONNEG
            return TOP
        if f == "minimum":
            ss = [self.sign(a, facts) for a in t.args]
            if any(s == NEG for s in ss):
                return NEG
            if any(not s & POS for s in ss):
                return NONPOS
            return TOP
        if f == "keep":
            return BOT
        if t not in self.unknown and not isinstance(t, sp.Symbol):
            self.unknown.append(T.show(t, 80))
        return TOP


# ---------------------------------------------------------------------------- zero substitution
def substitute_zero(t: sp.Basic, is_target: Callable[[sp.Basic], bool]) -> sp.Basic:
    """t with every sub-term satisfying is_target replaced by 0, re-simplified (ite/loopsum/tabulate of zeros)."""
    def fn(n):
        if is_target(n):
            return sp.Integer(0)
        f = fname(n)
        if f == "ite":
            return T.ITE(n.args[0], n.args[1], n.args[2])
        if f in ("loopsum", "loopsum_brk", "loopprefix") and n.args[0] == 0:
            return sp.Integer(0)
        if f in ("item", "sel", "lastiter", "tabrow") and n.args[0] == 0:
            return sp.Integer(0)
        if f in ("sum", "nansum", "trapz", "max", "nanmax") and n.args[0] == 0:
            return sp.Integer(0)
        if f == "tabulate" and n.args[2] == 0:
            return op("zeros_like", n.args[0])
        if f == "item" and fname(n.args[0]) == "zeros_like":
            return sp.Integer(0)
        if f == "maximum" and all(a == 0 for a in n.args):
            return sp.Integer(0)
        if f in ("lt", "ge"):
            a, b = n.args
            if a.is_number and b.is_number and a.is_comparable and b.is_comparable:
                v = (a < b) if f == "lt" else (a >= b)
                return TRUE_T if bool(v) else FALSE_T
        return None
    return T.rewrite(T.to_term(t), fn)
