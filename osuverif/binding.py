"""E6 -- call-site binding rules.

(a) name/role agreement of actuals and formals, (b) numba keyword binding inside ``try`` blocks of
nopython functions (numba 0.67 appends keywords positionally there), (c) ``xarray.Dataset(<Dataset>)``
wrappers rejected by the pinned xarray.
"""
from __future__ import annotations

import ast
from typing import Dict, Iterable, List, Optional, Tuple

from .model import Program, Function, Class
from .callgraph import CallGraph, annotation_is_dataset


def formal_names(f: Function) -> List[str]:
    a = f.node.args
    return [x.arg for x in a.posonlyargs + a.args]


def bind_by_name(callee: Function, call: ast.Call, drop_self: bool) -> Optional[Dict[str, ast.expr]]:
    """Python's binding of the actuals of ``call`` to the formals of ``callee`` (None if *args/** used)."""
    formals = formal_names(callee)
    if drop_self and formals:
        formals = formals[1:]
    if any(isinstance(a, ast.Starred) for a in call.args) or any(k.arg is None for k in call.keywords):
        return None
    out: Dict[str, ast.expr] = {}
    for name, a in zip(formals, call.args):
        out[name] = a
    kwonly = [x.arg for x in callee.node.args.kwonlyargs]
    for k in call.keywords:
        if k.arg in formals or k.arg in kwonly or callee.node.args.kwarg is not None:
            out[k.arg] = k.value
        else:
            out["!unexpected:" + k.arg] = k.value
    return out


def bind_positionally(callee: Function, call: ast.Call, drop_self: bool) -> Optional[Dict[str, ast.expr]]:
    """numba-in-try binding: keywords appended as positionals in order of appearance."""
    formals = formal_names(callee)
    if drop_self and formals:
        formals = formals[1:]
    if any(isinstance(a, ast.Starred) for a in call.args) or any(k.arg is None for k in call.keywords):
        return None
    actuals = list(call.args) + [k.value for k in call.keywords]
    return {name: a for name, a in zip(formals, actuals)}


def is_method_call(kind: str) -> bool:
    return kind in ("self", "super", "may:by-name", "constructor")


def drops_first_formal(callee: Function, kind: str) -> bool:
    if callee.cls is None or callee.is_static:
        return False
    return is_method_call(kind) or callee.is_classmethod


# ---------------------------------------------------------------------------- (a) name agreement
def name_agreement_rule(ctx, rule: str, cg: CallGraph, funcs: Iterable[Function], construct_prefix: str = ""):
    """An actual that is literally the name of formal X of the callee, bound to a different formal Y while X is left
    at its default; and keyword swaps K=x.K', K'=x.K."""
    n_sites = 0
    for f in funcs:
        for callee, call, kind in cg.edges.get(f, []):
            if call is None or kind.startswith("may") or kind == "function-parameter":
                continue
            b = bind_by_name(callee, call, drop_self=drops_first_formal(callee, kind))
            if b is None:
                continue
            n_sites += 1
            formals = set(formal_names(callee)[1:] if drops_first_formal(callee, kind) else formal_names(callee))
            bad = []
            for formal, actual in b.items():
                if isinstance(actual, ast.Name) and actual.id in formals and actual.id != formal \
                        and actual.id not in b and not formal.startswith("!"):
                    bad.append((formal, actual.id))
            cname = f"{construct_prefix}{f.qualname}->{callee.name}"
            if bad:
                for formal, actual in bad:
                    ctx.bad(rule, cname,
                            f"argument `{actual}` is bound to parameter `{formal}` of {callee.qualname} while its own "
                            f"parameter `{actual}` is left at the default", f.loc(call),
                            derived=f"{formal} <- {actual}", required=f"{actual} <- {actual}")
            # keyword swap
            kws = {k.arg: k.value for k in call.keywords if k.arg}
            swapped = False
            for k1, v1 in kws.items():
                if isinstance(v1, ast.Attribute) and v1.attr in kws and v1.attr != k1:
                    v2 = kws[v1.attr]
                    if isinstance(v2, ast.Attribute) and v2.attr == k1 and ast.dump(v1.value) == ast.dump(v2.value):
                        swapped = True
            if swapped:
                ctx.bad(rule, cname, "keyword arguments are swapped: K=x.K' together with K'=x.K", f.loc(call),
                        derived=ast.unparse(call)[:200])
            if not bad and not swapped:
                ctx.ok(rule, cname, "actuals agree with formals by name where names coincide", f.loc(call))
        # keyword swaps at call sites whose callee has no analysable signature (dataclass constructors, library calls)
        covered = {id(c) for _, c, _ in cg.edges.get(f, []) if c is not None}
        for call in cg.own_nodes(f):
            if not isinstance(call, ast.Call) or id(call) in covered or len(call.keywords) < 2:
                continue
            kws = {k.arg: k.value for k in call.keywords if k.arg}
            for k1, v1 in kws.items():
                if isinstance(v1, ast.Attribute) and v1.attr in kws and v1.attr != k1:
                    v2 = kws[v1.attr]
                    if isinstance(v2, ast.Attribute) and v2.attr == k1 and ast.dump(v1.value) == ast.dump(v2.value) \
                            and k1 < v1.attr:
                        n_sites += 1
                        ctx.bad(rule, f"{construct_prefix}{f.qualname}->{ast.unparse(call.func)}",
                                f"keyword arguments are swapped: {k1}=<x>.{v1.attr} together with {v1.attr}=<x>.{k1}",
                                f.loc(call), derived=ast.unparse(call)[:200])
    return n_sites


# ---------------------------------------------------------------------------- (b) numba try/keyword
def try_bodies(f: Function):
    for n in ast.walk(f.node):
        if isinstance(n, ast.Try):
            yield n


def numba_try_keyword_rule(ctx, rule: str, cg: CallGraph, funcs: Iterable[Function]):
    """Inside ``try:`` in a nopython-jitted function numba 0.67 binds keyword arguments by position.
    A call is safe iff positional binding of its keywords equals binding by name."""
    n = 0
    for f in funcs:
        if not (f.jitted and f.jit_opts.get("nopython", False) and not f.jit_opts.get("forceobj", False)):
            continue
        for tr in try_bodies(f):
            calls = [c for st in tr.body for c in ast.walk(st) if isinstance(c, ast.Call)]
            for call in calls:
                if not call.keywords:
                    continue
                targets = [(t, k) for t, c, k in cg.edges.get(f, []) if c is call and not k.startswith("may")]
                cname = f"{f.qualname}:try:{ast.unparse(call.func)}"
                if not targets:
                    ctx.unsure(rule, cname, "keyword call inside try in a jitted function; callee unresolved", f.loc(call))
                    n += 1
                    continue
                for callee, kind in targets:
                    n += 1
                    bn = bind_by_name(callee, call, False)
                    bp = bind_positionally(callee, call, False)
                    if bn is None or bp is None:
                        ctx.unsure(rule, cname, "star-arguments in a keyword call inside try", f.loc(call))
                        continue
                    same = {k: ast.dump(v) for k, v in bn.items()} == {k: ast.dump(v) for k, v in bp.items()}
                    if same:
                        ctx.ok(rule, cname, "keywords are in declaration order with nothing skipped: positional and "
                               "by-name binding coincide", f.loc(call))
                    else:
                        diff = [f"{k}<-{ast.unparse(v)}" for k, v in bp.items()
                                if k not in bn or ast.dump(bn[k]) != ast.dump(v)]
                        ctx.bad(rule, cname,
                                f"numba 0.67 binds keywords positionally inside try: {', '.join(diff)} (by name: "
                                f"{', '.join(k + '<-' + ast.unparse(v) for k, v in bn.items() if k not in bp or ast.dump(bp[k]) != ast.dump(v))})",
                                f.loc(call), derived="; ".join(diff), required="keyword binding by name")
    return n


# ---------------------------------------------------------------------------- (c) Dataset(Dataset)
def _single_assignments(f: Function) -> Dict[str, List[ast.expr]]:
    out: Dict[str, List[ast.expr]] = {}
    for n in ast.walk(f.node):
        if isinstance(n, ast.Assign):
            for t in n.targets:
                if isinstance(t, ast.Name):
                    out.setdefault(t.id, []).append(n.value)
        elif isinstance(n, ast.AnnAssign) and isinstance(n.target, ast.Name) and n.value is not None:
            out.setdefault(n.target.id, []).append(n.value)
        elif isinstance(n, ast.AugAssign) and isinstance(n.target, ast.Name):
            out.setdefault(n.target.id, []).append(n.value)
    return out


def static_is_dataset(p: Program, f: Function, e: ast.expr, assigns, depth=0) -> Optional[str]:
    """Why expression e is statically an xarray.Dataset (declared return type / constructor), else None."""
    if depth > 4:
        return None
    if isinstance(e, ast.Call):
        r = p.resolve_expr(f.module, e.func) if isinstance(e.func, (ast.Name, ast.Attribute)) else None
        if isinstance(r, Function) and annotation_is_dataset(p, r):
            return f"{r.qualname} is declared to return {ast.unparse(r.node.returns)}"
        if isinstance(r, tuple) and r[0] == "ext" and r[1] == "xarray.Dataset":
            return "xarray.Dataset(...) constructs a Dataset"
        if isinstance(e.func, ast.Attribute) and e.func.attr in ("assign", "copy", "reset_coords", "drop_vars"):
            return static_is_dataset(p, f, e.func.value, assigns, depth + 1)
        return None
    if isinstance(e, ast.Name):
        vals = assigns.get(e.id, [])
        if vals:
            whys = [static_is_dataset(p, f, v, assigns, depth + 1) for v in vals]
            if all(whys):
                return whys[0]
            return None
        for a in f.node.args.args:
            if a.arg == e.id and a.annotation is not None and "Dataset" in ast.unparse(a.annotation) \
                    and "Optional" not in ast.unparse(a.annotation):
                return f"parameter {e.id} is annotated {ast.unparse(a.annotation)}"
    return None


def dataset_wrap_rule(ctx, rule: str, funcs: Iterable[Function]):
    p = ctx.program
    n = 0
    for f in funcs:
        assigns = None
        for call in ast.walk(f.node):
            if not isinstance(call, ast.Call):
                continue
            r = p.resolve_expr(f.module, call.func) if isinstance(call.func, (ast.Name, ast.Attribute)) else None
            if not (isinstance(r, tuple) and r[0] == "ext" and r[1] == "xarray.Dataset"):
                continue
            src = call.args[0] if call.args else next((k.value for k in call.keywords if k.arg == "data_vars"), None)
            if src is None:
                continue
            n += 1
            if assigns is None:
                assigns = _single_assignments(f)
            why = static_is_dataset(p, f, src, assigns)
            cname = f"{f.qualname}:xarray.Dataset({ast.unparse(src)[:50]})"
            if why:
                ctx.bad(rule, cname, "an xarray.Dataset is passed as data_vars to the Dataset constructor, which the pinned "
                        f"xarray rejects with TypeError ({why})", f.loc(call), derived=ast.unparse(call)[:160],
                        required="pass the dataset itself (or .copy())")
            else:
                ctx.ok(rule, cname, "constructor argument is not statically a Dataset", f.loc(call))
    ctx.trust("xarray (pinned 2026.7): Dataset(data_vars=<Dataset>) raises TypeError")
    return n
