"""Self-test of the checker: firing and silent variants of the *current* tree.

Each variant is an edit description (file, old text, new text) materialised in a scratch copy of
/repo/src outside /repo and /verif, analysed with --root, and removed immediately.  A firing
variant must exit 1 and name the broken rule; a silent (behaviour preserving) variant must exit 0.
Variants whose edit no longer applies to the tree under analysis are skipped and reported.
"""
from __future__ import annotations

import glob
import json
import os
import py_compile
import shutil
import subprocess
import sys
import tempfile
from concurrent.futures import ThreadPoolExecutor

HERE = os.path.dirname(os.path.dirname(os.path.abspath(__file__)))
PKGREL = os.path.join("src", "ocean_science_utilities")


def load_variants(pid=None):
    out = []
    for path in sorted(glob.glob(os.path.join(HERE, "selftest", "*.json"))):
        with open(path) as fh:
            for v in json.load(fh):
                if pid is None or v["property"] == pid:
                    out.append(v)
    return out


def run_variant(v, root="/repo"):
    tmp = tempfile.mkdtemp(prefix="osuverif-st-")
    try:
        dst = os.path.join(tmp, PKGREL)
        shutil.copytree(os.path.join(root, PKGREL), dst, ignore=shutil.ignore_patterns("__pycache__"))
        edits = v.get("edits") or [{"file": v["file"], "old": v["old"], "new": v["new"]}]
        for e in edits:
            path = os.path.join(dst, e["file"])
            with open(path) as fh:
                src = fh.read()
            if src.count(e["old"]) < 1:
                return {"name": v["name"], "status": "skipped", "why": f"edit no longer applies to {e['file']}"}
            src = src.replace(e["old"], e["new"], e.get("count", 1))
            with open(path, "w") as fh:
                fh.write(src)
            try:
                py_compile.compile(path, doraise=True, cfile=os.path.join(tmp, "x.pyc"))
            except py_compile.PyCompileError as ex:
                return {"name": v["name"], "status": "broken-variant", "why": str(ex)[:200]}
        env = dict(os.environ)
        env["OSU_VERIF_NO_EVIDENCE"] = "1"
        p = subprocess.run([sys.executable, "-B", "-m", "osuverif.main", v["property"], "--root", tmp, "--tier", "quick"],
                           cwd=HERE, capture_output=True, text=True, env=env, timeout=600)
        out = p.stdout
        expect = v.get("expect", "fire")
        ok = False
        why = ""
        if expect == "fire":
            ok = p.returncode == 1 and "VIOLATION property=" + v["property"] in out
            if ok and v.get("rule"):
                ok = ("rule=" + v["rule"]) in out
                if not ok:
                    why = f"fired but not rule {v['rule']}"
            if p.returncode != 1:
                why = f"exit {p.returncode}"
        else:
            ok = p.returncode == 0
            if not ok:
                why = f"exit {p.returncode}"
        tail = "\n".join([ln for ln in out.splitlines() if ln.startswith(("VIOLATION", "  rule=", "ANALYSIS"))][:6])
        return {"name": v["name"], "status": "ok" if ok else "FAILED", "expect": expect, "why": why, "out": tail}
    finally:
        shutil.rmtree(tmp, ignore_errors=True)


def main(args) -> int:
    pid = os.environ.get("SELFTEST_PROPERTY")
    variants = load_variants(pid)
    with ThreadPoolExecutor(max_workers=int(os.environ.get("SELFTEST_JOBS", "16"))) as ex:
        results = list(ex.map(lambda v: run_variant(v, args.root), variants))
    bad = 0
    for v, r in zip(variants, results):
        flag = r["status"]
        print(f"{flag:8s} {v['property']} {r['name']} ({v.get('expect', 'fire')}) {r.get('why', '')}")
        if flag == "FAILED":
            bad += 1
            print("   " + r.get("out", "").replace("\n", "\n   "))
        if flag == "broken-variant":
            bad += 1
    print(f"selftest: {len(results)} variants, {bad} failed, {sum(1 for r in results if r['status'] == 'skipped')} skipped")
    return 1 if bad else 0
