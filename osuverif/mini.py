"""Tiny in-memory positive examples for rules whose expected number of findings is zero: the example must be
reported on every run, otherwise the rule is dead and the check is INCONCLUSIVE (exit 2)."""
from __future__ import annotations

import os
import shutil
import tempfile
from typing import Dict

from .model import Program
from .report import Ctx, VIOLATED


def mini_program(files: Dict[str, str]) -> Program:
    tmp = tempfile.mkdtemp(prefix="osuverif-mini-")
    try:
        pkg = os.path.join(tmp, "src", "ocean_science_utilities")
        os.makedirs(pkg)
        for name, src in files.items():
            path = os.path.join(pkg, name)
            os.makedirs(os.path.dirname(path), exist_ok=True)
            with open(path, "w") as fh:
                fh.write(src)
        return Program(tmp)
    finally:
        shutil.rmtree(tmp, ignore_errors=True)


def must_fire(ctx, rule: str, files: Dict[str, str], runner, what: str):
    """runner(sub_ctx, mini_program) must record at least one VIOLATED obligation."""
    mp = mini_program(files)
    sub = Ctx(ctx.pid, ctx.tier, mp, "<positive-example>")
    try:
        runner(sub, mp)
    except Exception as e:  # pragma: no cover
        ctx.unsure(rule, "<positive-example>", f"positive example for {what} crashed: {e}")
        return
    if any(o.verdict == VIOLATED for o in sub.obligations):
        ctx.ok(rule, "<positive-example>", f"rule is live: the built-in positive example ({what}) is reported")
    else:
        ctx.unsure(rule, "<positive-example>", f"rule is dead: the built-in positive example ({what}) was not reported")
