"""Paired-container bookkeeping (engine E5b): two parallel containers A (positions) and B (function values at those
positions) must be updated together, slot for slot, from a consistent (position, value) source pair.

Used for bracketing root finders: root_bounds[i] / func_at_bounds[i] updated from iterates[k] / func_evals[k], where
func_evals[k] was evaluated at iterates[k].  The rule is structural: it inspects every statement block of the function,
the initialisation of B, the evaluation statement that establishes the source pair, and difference quotients built from the
source pair.
"""
from __future__ import annotations

import ast
from typing import Dict, List, Optional, Tuple

from .cfg import CFG


def _const_index(sub: ast.Subscript) -> Optional[int]:
    s = sub.slice
    if isinstance(s, ast.Constant) and isinstance(s.value, int):
        return s.value
    if isinstance(s, ast.UnaryOp) and isinstance(s.op, ast.USub) and isinstance(s.operand, ast.Constant):
        return -s.operand.value
    return None


def _elem(e: ast.AST, name: str) -> Optional[int]:
    if isinstance(e, ast.Subscript) and isinstance(e.value, ast.Name) and e.value.id == name:
        return _const_index(e)
    return None


def _simple_assigns(st):
    """(target, value) pairs of an assignment statement; `a, b = x, y` counts as two"""
    if not isinstance(st, ast.Assign):
        return []
    out = []
    for t in st.targets:
        if isinstance(t, (ast.Tuple, ast.List)) and isinstance(st.value, (ast.Tuple, ast.List)) and len(t.elts) == len(st.value.elts):
            out += list(zip(t.elts, st.value.elts))
        else:
            out.append((t, st.value))
    return out


def _blocks(node):
    for n in ast.walk(node):
        for fld in ("body", "orelse", "finalbody"):
            b = getattr(n, fld, None)
            if isinstance(b, list) and b and isinstance(b[0], ast.stmt):
                if isinstance(n, (ast.If, ast.While)):
                    label = ("when " if fld == "body" else "unless ") + ast.unparse(n.test)[:70]
                elif isinstance(n, ast.For):
                    label = "in loop over " + ast.unparse(n.target)
                else:
                    label = "top level"
                yield b, label


def paired_update_rule(ctx, rule: str, f, A: str, B: str, X: str, Y: str, fn_param: str, min_blocks: int):
    """A[i] and B[i] are always stored together in one block, from X[k] and Y[k] with one k; B is initialised with
    fn(A[i]) slot by slot; Y[k] = fn(X[k]) is established by a statement that dominates the paired stores with no write to X
    in between; difference quotients (Y[a]-Y[b])/(X[c]-X[d]) use (a,b) == (c,d)."""
    node = f.node
    tag = f.name
    nblocks = 0
    # the source pair and the function parameter are local names, not anchors: infer them from the stores into A and B
    def _sources(target):
        names = set()
        for st in ast.walk(node):
            for tg, vl in _simple_assigns(st):
                if _elem(tg, target) is not None and isinstance(vl, ast.Subscript) and isinstance(vl.value, ast.Name):
                    names.add(vl.value.id)
        return names
    sx, sy = _sources(A), _sources(B)
    if len(sx) == 1:
        X = next(iter(sx))
    if len(sy) == 1:
        Y = next(iter(sy))
    for st in ast.walk(node):
        if isinstance(st, ast.Assign) and len(st.targets) == 1 and isinstance(st.targets[0], ast.Name) and st.targets[0].id == B \
                and isinstance(st.value, ast.List) and st.value.elts and all(
                    isinstance(e, ast.Call) and isinstance(e.func, ast.Name) for e in st.value.elts):
            fns = {e.func.id for e in st.value.elts}
            if len(fns) == 1:
                fn_param = next(iter(fns))
    for blk, label in _blocks(node):
        a_st: Dict[int, ast.AST] = {}
        b_st: Dict[int, ast.AST] = {}
        for st in blk:
            for tg, vl in _simple_assigns(st):
                ia, ib = _elem(tg, A), _elem(tg, B)
                if ia is not None:
                    a_st[ia] = ast.copy_location(ast.Assign(targets=[tg], value=vl), st)
                if ib is not None:
                    b_st[ib] = ast.copy_location(ast.Assign(targets=[tg], value=vl), st)
        if not a_st and not b_st:
            continue
        nblocks += 1
        line = (list(a_st.values()) + list(b_st.values()))[0]
        where = f"{tag}[{A}/{B} update {label}]"
        if set(a_st) != set(b_st):
            ctx.bad(rule, where, f"the block stores {A}{sorted(a_st)} but {B}{sorted(b_st)}: position and function value of a "
                    "bracket end are no longer updated together, so the sign test on the bracket uses a value that belongs to the other end",
                    f.loc(line), derived="; ".join(ast.unparse(s) for s in list(a_st.values()) + list(b_st.values())))
            continue
        ok = True
        detail = []
        for i in sorted(a_st):
            ka, kb = _elem(a_st[i].value, X), _elem(b_st[i].value, Y)
            detail.append(f"{ast.unparse(a_st[i])}; {ast.unparse(b_st[i])}")
            if ka is None or kb is None:
                ok = None if ok else ok
            elif ka != kb:
                ok = False
        want_slot = _slot_from_guard(blk, node, A, B, X, Y)
        if want_slot is not None and ok:
            ctx.expect(set(a_st) == {want_slot}, rule, where + "[slot]",
                       f"an iterate beyond end i replaces end i; a sign change between end i and the iterate replaces the other end",
                       f.loc(line), derived="; ".join(detail), required=f"slot {want_slot}")
        if ok is None:
            ctx.unsure(rule, where, f"stores are not of the form {A}[i] = {X}[k]; {B}[i] = {Y}[k]", f.loc(line), derived="; ".join(detail))
        else:
            ctx.expect(ok, rule, where, f"{A}[i] and {B}[i] are stored together from {X}[k] and {Y}[k] with the same k",
                       f.loc(line), derived="; ".join(detail))
    # initialisation of B
    inits = [st for st in ast.walk(node) if isinstance(st, ast.Assign) and len(st.targets) == 1
             and isinstance(st.targets[0], ast.Name) and st.targets[0].id == B]
    okinit = len(inits) == 1 and isinstance(inits[0].value, ast.List)
    if okinit:
        for i, e in enumerate(inits[0].value.elts):
            okinit = okinit and isinstance(e, ast.Call) and isinstance(e.func, ast.Name) and e.func.id == fn_param \
                and len(e.args) >= 1 and _elem(e.args[0], A) == i
    ctx.expect(okinit, rule, f"{tag}[{B} initialisation]", f"{B}[i] starts as {fn_param}({A}[i], ...) for each slot",
               f.loc(inits[0]) if inits else f.loc(), derived=ast.unparse(inits[0]) if inits else "missing")
    # evaluation statement establishing Y[k] = fn(X[k])
    cfg = CFG(node, exceptions=False)
    evals = []
    for st in cfg.stmts:
        if isinstance(st, ast.Assign) and len(st.targets) == 1 and _elem(st.targets[0], Y) is not None \
                and isinstance(st.value, ast.Call) and isinstance(st.value.func, ast.Name) and st.value.func.id == fn_param:
            evals.append(st)
    okev = len(evals) == 1 and len(evals[0].value.args) >= 1 and _elem(evals[0].value.args[0], X) == _elem(evals[0].targets[0], Y)
    ctx.expect(okev, rule, f"{tag}[{Y} evaluation]", f"one statement sets {Y}[k] = {fn_param}({X}[k], ...) with the same k",
               f.loc(evals[0]) if evals else f.loc(), derived="; ".join(ast.unparse(e) for e in evals) or "missing")
    if okev:
        ev = evals[0]
        k = _elem(ev.targets[0], Y)

        def writes_X(st):
            if isinstance(st, (ast.Assign, ast.AugAssign)):
                tg = [t for t, _ in _simple_assigns(st)] if isinstance(st, ast.Assign) else [st.target]
                for t in tg:
                    if isinstance(t, ast.Subscript) and isinstance(t.value, ast.Name) and t.value.id == X:
                        return True
                    if isinstance(t, ast.Name) and t.id == X:
                        return True
            if isinstance(st, ast.Expr) and isinstance(st.value, ast.Call) and isinstance(st.value.func, ast.Attribute) \
                    and isinstance(st.value.func.value, ast.Name) and st.value.func.value.id == X:
                return True
            return False
        muts = [st for st in cfg.stmts if writes_X(st)]
        users = [st for st in cfg.stmts if any(_elem(tg, B) is not None and _elem(vl, Y) == k for tg, vl in _simple_assigns(st))]
        stale = []
        for u in users:
            if not cfg.dominates(ev, u):
                stale.append(f"line {u.lineno}: not dominated by the evaluation")
            for m in muts:
                if cfg.reaches(ev, m) and cfg.path_avoiding(m, u, {ev}) and cfg.dominates(ev, m) and not (m is u):
                    # a write to X after the evaluation can reach the use without a fresh evaluation
                    if cfg.path_avoiding(ev, m, set()) and _loop_local_path(cfg, ev, m, u):
                        stale.append(f"line {u.lineno}: {X} is written at line {m.lineno} between the evaluation and this use")
        ctx.expect(not stale and bool(users), rule, f"{tag}[{Y}[{k}] is current when stored]",
                   f"every `{B}[i] = {Y}[{k}]` is dominated by the evaluation of {Y}[{k}] at {X}[{k}] with no write to {X} in between",
                   f.loc(ev), derived="; ".join(stale) or f"{len(users)} stores, {len(muts)} writes to {X}")
    # difference quotients
    nq = 0
    for n in ast.walk(node):
        if isinstance(n, ast.BinOp) and isinstance(n.op, ast.Div) and isinstance(n.left, ast.BinOp) and isinstance(n.right, ast.BinOp) \
                and isinstance(n.left.op, ast.Sub) and isinstance(n.right.op, ast.Sub):
            ya, yb = _elem(n.left.left, Y), _elem(n.left.right, Y)
            xa, xb = _elem(n.right.left, X), _elem(n.right.right, X)
            if None in (ya, yb, xa, xb):
                continue
            nq += 1
            ctx.expect((ya, yb) == (xa, xb), rule, f"{tag}[difference quotient {ast.unparse(n)[:60]}]",
                       f"({Y}[a]-{Y}[b])/({X}[a]-{X}[b]) uses the same two slots above and below", f.loc(n), derived=ast.unparse(n))
    return nblocks, nq


def _loop_local_path(cfg: CFG, ev, m, u) -> bool:
    """m lies on a path ev -> m -> u that does not pass ev again (i.e. within one loop iteration)"""
    return cfg.path_avoiding(ev, m, set()) and cfg.path_avoiding(m, u, {ev})


def _slot_from_guard(blk, func_node, A, B, X, Y) -> Optional[int]:
    """slot the guard of this block implies: X[k] < A[i] or X[k] > A[i] -> i;  B[i] * Y[k] < 0 -> 1 - i"""
    owner = None
    for n in ast.walk(func_node):
        if isinstance(n, ast.If) and n.body is blk:
            owner = n
    if owner is None or not isinstance(owner.test, ast.Compare) or len(owner.test.ops) != 1:
        return None
    t = owner.test
    l, r = t.left, t.comparators[0]
    if isinstance(t.ops[0], (ast.Lt, ast.Gt, ast.LtE, ast.GtE)):
        if _elem(l, X) is not None and _elem(r, A) is not None:
            return _elem(r, A)
        if isinstance(l, ast.BinOp) and isinstance(l.op, ast.Mult) and isinstance(r, ast.Constant) and r.value == 0 \
                and isinstance(t.ops[0], ast.Lt):
            for a, b in ((l.left, l.right), (l.right, l.left)):
                if _elem(a, B) is not None and _elem(b, Y) is not None:
                    return 1 - _elem(a, B)
    return None
