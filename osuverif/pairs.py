"""Paired-container bookkeeping (engine E5b): two parallel containers A (positions) and B (function values at those
positions) must be updated together, slot for slot, from a consistent (position, value) source pair.

Used for bracketing root finders: root_bounds[i] / func_at_bounds[i] updated from iterates[k] / func_evals[k], where
func_evals[k] was evaluated at iterates[k].  The rule is structural: it inspects every statement block of the function,
the initialisation of B, the evaluation statement that establishes the source pair, and difference quotients built from the
source pair.
"""
from __future__ import annotations

import ast
from typing import Dict, List, Optional, Tuple

from .cfg import CFG


def _const_index(sub: ast.Subscript, _s=None):
    """a constant element index: an integer, or a tuple of integers for an element of a small table (`bracket[0, 1]`)"""
    s = sub.slice if _s is None else _s
    if isinstance(s, ast.Tuple) and s.elts:
        parts = [_const_index(sub, e) for e in s.elts]
        return None if any(not isinstance(q, int) for q in parts) else tuple(parts)
    if isinstance(s, ast.Constant) and isinstance(s.value, int):
        return s.value
    if isinstance(s, ast.UnaryOp) and isinstance(s.op, ast.USub) and isinstance(s.operand, ast.Constant):
        return -s.operand.value
    return None


def _elem(e: ast.AST, name: str) -> Optional[int]:
    if isinstance(e, ast.Subscript) and isinstance(e.value, ast.Name) and e.value.id == name:
        return _const_index(e)
    return None


def _simple_assigns(st):
    """(target, value) pairs of an assignment statement; `a, b = x, y` counts as two"""
    if not isinstance(st, ast.Assign):
        return []
    out = []
    for t in st.targets:
        if isinstance(t, (ast.Tuple, ast.List)) and isinstance(st.value, (ast.Tuple, ast.List)) and len(t.elts) == len(st.value.elts):
            out += list(zip(t.elts, st.value.elts))
        else:
            out.append((t, st.value))
    return out


def _blocks(node):
    for n in ast.walk(node):
        for fld in ("body", "orelse", "finalbody"):
            b = getattr(n, fld, None)
            if isinstance(b, list) and b and isinstance(b[0], ast.stmt):
                if isinstance(n, (ast.If, ast.While)):
                    label = ("when " if fld == "body" else "unless ") + ast.unparse(n.test)[:70]
                elif isinstance(n, ast.For):
                    label = "in loop over " + ast.unparse(n.target)
                else:
                    label = "top level"
                yield b, label


def _slot(e: ast.AST) -> Optional[str]:
    """a storage slot: a local scalar `name`, or a constant element `name[i]` of a local list"""
    if isinstance(e, ast.Name):
        return e.id
    if isinstance(e, ast.Subscript) and isinstance(e.value, ast.Name):
        i = _const_index(e)
        if i is not None:
            return f"{e.value.id}[{i}]"
    return None


def _slot_index(s: Optional[str]) -> Optional[int]:
    if s and s.endswith("]") and "[" in s:
        try:
            return ast.literal_eval(s[s.index("[") + 1:-1])
        except (ValueError, SyntaxError):
            return None
    return None


def _slot_base(s: str) -> str:
    return s.split("[")[0]


def _virtual_assigns(st):
    """_simple_assigns, with `B = [e0, e1]` also read as B[0] = e0; B[1] = e1"""
    out = []
    for tg, vl in _simple_assigns(st):
        if isinstance(tg, ast.Name) and isinstance(vl, (ast.List, ast.Tuple)) and vl.elts:
            for i, e in enumerate(vl.elts):
                sub = ast.Subscript(value=ast.Name(id=tg.id, ctx=ast.Load()), slice=ast.Constant(value=i), ctx=ast.Store())
                out.append((ast.copy_location(sub, tg), e))
        else:
            out.append((tg, vl))
    return out


def discover_pairs(node: ast.FunctionDef):
    """The bracket is found by role, not by name: ahead of the main loop two slots B_i are initialised with `fn(A_i, ...)`,
    fn a parameter of the function; inside a loop one statement sets Y = fn(X, ...).  Returns (fn, [(A_0, B_0), (A_1, B_1)],
    [(X, Y) evaluation statements]) or None."""
    params = {a.arg for a in node.args.posonlyargs + node.args.args + node.args.kwonlyargs}
    in_loop = set()
    for n in ast.walk(node):
        if isinstance(n, (ast.For, ast.While)):
            for m in ast.walk(n):
                if m is not n:
                    in_loop.add(id(m))
    inits, evals = [], []
    for st in ast.walk(node):
        if not isinstance(st, ast.Assign):
            continue
        for tg, vl in _virtual_assigns(st):
            if isinstance(vl, ast.Call) and isinstance(vl.func, ast.Name) and vl.func.id in params and vl.args \
                    and _slot(vl.args[0]) is not None and _slot(tg) is not None:
                (evals if id(st) in in_loop else inits).append((vl.func.id, _slot(vl.args[0]), _slot(tg), st))
    fns = {x[0] for x in inits}
    if len(inits) != 2 or len(fns) != 1:
        return None
    fn = next(iter(fns))
    return fn, [(a, b) for _, a, b, _ in inits], [(x, y, st) for f_, x, y, st in evals if f_ == fn], [st for *_, st in inits]


def paired_update_rule(ctx, rule: str, f, A: str, B: str, X: str, Y: str, fn_param: str, min_blocks: int):
    """Bracket ends (position A_i, function value B_i) are always stored together in one block, from a source pair (X, Y)
    for which Y = fn(X) was established; B_i is initialised with fn(A_i) slot by slot; the evaluation statement dominates
    the paired stores with no write to X in between; difference quotients (Y[a]-Y[b])/(X[c]-X[d]) use (a,b) == (c,d).
    A, B, X, Y, fn_param are only the names used in messages when the roles cannot be discovered."""
    node = f.node
    tag = f.name
    nblocks = 0
    found = discover_pairs(node)
    if found is None:
        ctx.unsure(rule, f"{tag}[bracket]", "two bracket ends initialised with fn(end, ...) ahead of the iteration were not found", f.loc())
        return 0, 0
    fn_param, pairs, evals, init_sts = found
    a_slots = [a for a, _ in pairs]
    b_slots = [b for _, b in pairs]
    A, B = _slot_base(a_slots[0]), _slot_base(b_slots[0])
    A_lbl = A if _slot_base(a_slots[1]) == A else "/".join(a_slots)
    B_lbl = B if _slot_base(b_slots[1]) == B else "/".join(b_slots)
    ctx.ok(rule, f"{tag}[{B} initialisation]", f"each bracket end's function value starts as {fn_param}(end, ...): "
           + "; ".join(f"{b} = {fn_param}({a}, ...)" for a, b in pairs), f.loc(init_sts[0]))
    x_eval = {x for x, _, _ in evals}
    y_eval = {y for _, y, _ in evals}
    X = _slot_base(next(iter(x_eval))) if x_eval else X
    Y = _slot_base(next(iter(y_eval))) if y_eval else Y
    updated = set()
    loop_stmts = {id(m) for n in ast.walk(node) if isinstance(n, (ast.For, ast.While)) for m in ast.walk(n) if m is not n}
    for blk, label in _blocks(node):
        a_st: Dict[int, ast.AST] = {}
        b_st: Dict[int, ast.AST] = {}
        for st in blk:
            if st in init_sts or id(st) not in loop_stmts:
                continue        # ahead of the iteration the bracket is being set up, not updated
            for tg, vl in _simple_assigns(st):
                s_ = _slot(tg)
                if s_ in a_slots:
                    a_st[a_slots.index(s_)] = ast.copy_location(ast.Assign(targets=[tg], value=vl), st)
                if s_ in b_slots:
                    b_st[b_slots.index(s_)] = ast.copy_location(ast.Assign(targets=[tg], value=vl), st)
        if not a_st and not b_st:
            continue
        nblocks += 1
        line = (list(a_st.values()) + list(b_st.values()))[0]
        where = f"{tag}[{A_lbl}/{B_lbl} update {label}]"
        if set(a_st) != set(b_st):
            ctx.bad(rule, where, f"the block stores position end(s) {sorted(a_st)} but function-value end(s) {sorted(b_st)}: position and "
                    "function value of a bracket end are no longer updated together, so the sign test on the bracket uses a value that "
                    "belongs to the other end",
                    f.loc(line), derived="; ".join(ast.unparse(s) for s in list(a_st.values()) + list(b_st.values())))
            continue
        ok = True
        detail = []
        for i in sorted(a_st):
            updated.add(i)
            sa, sb = _slot(a_st[i].value), _slot(b_st[i].value)
            detail.append(f"{ast.unparse(a_st[i])}; {ast.unparse(b_st[i])}")
            if sa is None or sb is None or _slot_base(sa) != X or _slot_base(sb) != Y:
                ok = None if ok else ok
            elif (sa, sb) in {(x, y) for x, y, _ in evals}:
                pass
            elif _slot_index(sa) is not None and _slot_index(sa) == _slot_index(sb):
                pass        # parallel histories rolled together: same position in both
            else:
                ok = False
        want_slot = _slot_from_guard(blk, node, a_slots, b_slots, X, Y)
        if want_slot is not None and ok:
            ctx.expect(set(a_st) == {want_slot}, rule, where + "[slot]",
                       f"an iterate beyond end i replaces end i; a sign change between end i and the iterate replaces the other end",
                       f.loc(line), derived="; ".join(detail), required=f"slot {want_slot}")
        if ok is None:
            ctx.unsure(rule, where, f"stores are not of the form <end position> = {X}[k]; <end value> = {Y}[k]", f.loc(line),
                       derived="; ".join(detail))
        else:
            ctx.expect(ok, rule, where, f"position and function value of a bracket end are stored together from {X} and {Y} at the same k",
                       f.loc(line), derived="; ".join(detail))
    # evaluation statement establishing Y = fn(X)
    cfg = CFG(node, exceptions=False)
    okev = len(evals) == 1 and (_slot_index(evals[0][0]) == _slot_index(evals[0][1]))
    ctx.expect(okev, rule, f"{tag}[{Y} evaluation]", f"one statement in the iteration sets {Y}[k] = {fn_param}({X}[k], ...) with the same k",
               f.loc(evals[0][2]) if evals else f.loc(), derived="; ".join(ast.unparse(e[2]) for e in evals) or "missing")
    if okev:
        xs, ys, ev = evals[0]
        ev = next((st for st in cfg.stmts if st is ev), ev)

        def writes_X(st):
            if isinstance(st, (ast.Assign, ast.AugAssign)):
                tg = [t for t, _ in _simple_assigns(st)] if isinstance(st, ast.Assign) else [st.target]
                for t in tg:
                    if isinstance(t, ast.Subscript) and isinstance(t.value, ast.Name) and t.value.id == X:
                        return True
                    if isinstance(t, ast.Name) and t.id == X:
                        return True
            if isinstance(st, ast.Expr) and isinstance(st.value, ast.Call) and isinstance(st.value.func, ast.Attribute) \
                    and isinstance(st.value.func.value, ast.Name) and st.value.func.value.id == X:
                return True
            return False
        muts = [st for st in cfg.stmts if writes_X(st)]
        users = [st for st in cfg.stmts if any(_slot(tg) in b_slots and _slot(vl) == ys for tg, vl in _simple_assigns(st))]
        stale = []
        for u in users:
            if not cfg.dominates(ev, u):
                stale.append(f"line {u.lineno}: not dominated by the evaluation")
            for m in muts:
                if cfg.reaches(ev, m) and cfg.path_avoiding(m, u, {ev}) and cfg.dominates(ev, m) and not (m is u):
                    # a write to X after the evaluation can reach the use without a fresh evaluation
                    if cfg.path_avoiding(ev, m, set()) and _loop_local_path(cfg, ev, m, u):
                        stale.append(f"line {u.lineno}: {X} is written at line {m.lineno} between the evaluation and this use")
        ctx.expect(not stale and bool(users), rule, f"{tag}[{ys} is current when stored]",
                   f"every store of {ys} into a bracket end's function value is dominated by its evaluation at {xs} with no write to {X} "
                   "in between",
                   f.loc(ev), derived="; ".join(stale) or f"{len(users)} stores, {len(muts)} writes to {X}")
    ctx.expect(updated == {0, 1}, rule, f"{tag}[both ends move]", "each bracket end is updated somewhere in the iteration", f.loc(),
               derived=f"ends updated: {sorted(updated)}")
    # difference quotients
    nq = 0
    for n in ast.walk(node):
        if isinstance(n, ast.BinOp) and isinstance(n.op, ast.Div) and isinstance(n.left, ast.BinOp) and isinstance(n.right, ast.BinOp) \
                and isinstance(n.left.op, ast.Sub) and isinstance(n.right.op, ast.Sub):
            ya, yb = _elem(n.left.left, Y), _elem(n.left.right, Y)
            xa, xb = _elem(n.right.left, X), _elem(n.right.right, X)
            if None in (ya, yb, xa, xb):
                continue
            nq += 1
            ctx.expect((ya, yb) == (xa, xb), rule, f"{tag}[difference quotient {ast.unparse(n)[:60]}]",
                       f"({Y}[a]-{Y}[b])/({X}[a]-{X}[b]) uses the same two slots above and below", f.loc(n), derived=ast.unparse(n))
    return nblocks, nq


def _loop_local_path(cfg: CFG, ev, m, u) -> bool:
    """m lies on a path ev -> m -> u that does not pass ev again (i.e. within one loop iteration)"""
    return cfg.path_avoiding(ev, m, set()) and cfg.path_avoiding(m, u, {ev})


def _slot_from_guard(blk, func_node, a_slots, b_slots, X, Y) -> Optional[int]:
    """end the guard of this block implies: X[k] < A_i or X[k] > A_i -> i;  B_i * Y[k] < 0 -> 1 - i"""
    owner = None
    for n in ast.walk(func_node):
        if isinstance(n, ast.If) and n.body is blk:
            owner = n
    if owner is None or not isinstance(owner.test, ast.Compare) or len(owner.test.ops) != 1:
        return None
    t = owner.test
    l, r = t.left, t.comparators[0]
    sx = lambda e: _slot(e) is not None and _slot_base(_slot(e)) == X  # noqa: E731
    sy = lambda e: _slot(e) is not None and _slot_base(_slot(e)) == Y  # noqa: E731
    if isinstance(t.ops[0], (ast.Lt, ast.Gt, ast.LtE, ast.GtE)):
        if sx(l) and _slot(r) in a_slots:
            return a_slots.index(_slot(r))
        if isinstance(l, ast.BinOp) and isinstance(l.op, ast.Mult) and isinstance(r, ast.Constant) and r.value == 0 \
                and isinstance(t.ops[0], ast.Lt):
            for a, b in ((l.left, l.right), (l.right, l.left)):
                if _slot(a) in b_slots and sy(b):
                    return 1 - b_slots.index(_slot(a))
    return None
