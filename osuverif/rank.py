"""Rank polymorphism (engine E3b): operations that need at least one axis on arrays shaped like an input that may be 0-d.

For a function whose inputs may be scalars (Python floats, numpy scalars, 0-d arrays) as well as arrays, an "input-shaped"
value is the input itself, anything allocated with its shape (`np.zeros(x.shape)`, `zeros_like(x)`), and element-wise
results of such values.  On a 0-d value the following raise or change meaning: indexing or assigning with a plain slice or
an integer (`a[:]`, `a[0]`), `len(a)`, `a.shape[k]`, iterating over it.  Boolean-mask indexing, `a[...]`, reductions and
element-wise arithmetic are rank-polymorphic.  The rule reports the former on input-shaped names.
"""
from __future__ import annotations

import ast
from typing import Dict, List, Set, Tuple

ALLOC = {"zeros", "ones", "empty", "full"}
LIKE = {"zeros_like", "ones_like", "empty_like", "full_like", "isfinite", "isnan", "abs", "maximum", "minimum", "where", "exp", "log",
        "sqrt", "copy", "asarray", "array"}


def input_shaped_names(func_node, seeds: Set[str]) -> Set[str]:
    shaped = set(seeds)
    changed = True

    def is_shaped(e) -> bool:
        if isinstance(e, ast.Name):
            return e.id in shaped
        if isinstance(e, ast.BinOp):
            return is_shaped(e.left) or is_shaped(e.right)
        if isinstance(e, ast.UnaryOp):
            return is_shaped(e.operand)
        if isinstance(e, ast.Compare):
            return is_shaped(e.left) or any(is_shaped(c) for c in e.comparators)
        if isinstance(e, ast.Call):
            fn = ast.unparse(e.func).split(".")[-1]
            if fn in ALLOC and e.args:
                a0 = e.args[0]
                return isinstance(a0, ast.Attribute) and a0.attr == "shape" and is_shaped(a0.value)
            if fn in LIKE:
                return any(is_shaped(a) for a in e.args)
        if isinstance(e, ast.Subscript) and isinstance(e.value, ast.Name) and e.value.id in lists:
            return True
        return False

    lists: Set[str] = set()
    while changed:
        changed = False
        for n in ast.walk(func_node):
            if isinstance(n, ast.Assign) and len(n.targets) == 1 and isinstance(n.targets[0], ast.Name):
                nm = n.targets[0].id
                if isinstance(n.value, (ast.List, ast.Tuple)) and n.value.elts and all(is_shaped(x) for x in n.value.elts):
                    if nm not in lists:
                        lists.add(nm)
                        changed = True
                elif is_shaped(n.value) and nm not in shaped:
                    shaped.add(nm)
                    changed = True
    return shaped


def rank_rule(ctx, rule: str, f, seeds: Set[str], what: str):
    shaped = input_shaped_names(f.node, seeds)
    bad: List[Tuple[ast.AST, str]] = []

    def reachable_0d(node) -> bool:
        """can `node` execute when the shaped values are 0-d?  Enclosing tests that compare `<shaped>.ndim` with a constant are
        evaluated at ndim == 0; anything else is assumed possible"""
        def holds_at_zero(test):
            if isinstance(test, ast.Compare) and len(test.ops) == 1 and isinstance(test.left, ast.Attribute) and test.left.attr == "ndim" \
                    and isinstance(test.left.value, ast.Name) and test.left.value.id in shaped \
                    and isinstance(test.comparators[0], ast.Constant) and isinstance(test.comparators[0].value, int):
                k = test.comparators[0].value
                o = test.ops[0]
                return {ast.Eq: 0 == k, ast.NotEq: 0 != k, ast.Lt: 0 < k, ast.LtE: 0 <= k, ast.Gt: 0 > k, ast.GtE: 0 >= k}.get(type(o))
            return None
        def named(test):
            # a test kept in a single-assigned local (`single = a.ndim <= 1`) is that test
            if isinstance(test, ast.Name):
                defs = [st.value for st in ast.walk(f.node) if isinstance(st, ast.Assign) and len(st.targets) == 1
                        and isinstance(st.targets[0], ast.Name) and st.targets[0].id == test.id]
                if len(defs) == 1:
                    return defs[0]
            if isinstance(test, ast.UnaryOp) and isinstance(test.op, ast.Not):
                inner = holds_at_zero(named(test.operand))
                return ast.Constant(value=(not inner)) if inner is not None else test
            return test

        def verdict(test):
            t_ = named(test)
            if isinstance(t_, ast.Constant) and isinstance(t_.value, bool):
                return t_.value
            return holds_at_zero(t_)
        for a in ast.walk(f.node):
            if isinstance(a, ast.If):
                inb = any(node is x for b_ in a.body for x in ast.walk(b_))
                ino = any(node is x for b_ in a.orelse for x in ast.walk(b_))
            elif isinstance(a, ast.IfExp):
                inb = any(node is x for x in ast.walk(a.body))
                ino = any(node is x for x in ast.walk(a.orelse))
            else:
                continue
            h = verdict(a.test)
            if h is not None and ((inb and h is False) or (ino and h is True)):
                return False
        return True

    # a name rebound at the top level of the function to something of a fixed rank (`a = a.reshape([n, m])`) is no longer shaped
    # like the input from that statement on
    rebound_at: Dict[str, int] = {}

    def fixed_rank(v) -> bool:
        # a reshape to an explicit shape, or the result of a call that is not an element-wise function of its arguments
        if isinstance(v, ast.Call):
            fn = ast.unparse(v.func).split(".")[-1]
            return fn not in LIKE and fn not in ALLOC
        if isinstance(v, (ast.GeneratorExp, ast.ListComp)):
            return fixed_rank(v.elt)
        if isinstance(v, (ast.Tuple, ast.List)) and v.elts:
            return all(fixed_rank(x) for x in v.elts)
        return False
    for st in f.node.body:
        if isinstance(st, ast.Assign) and len(st.targets) == 1 and fixed_rank(st.value):
            tg = st.targets[0]
            for nm_ in ([tg] if isinstance(tg, ast.Name) else list(tg.elts) if isinstance(tg, (ast.Tuple, ast.List)) else []):
                if isinstance(nm_, ast.Name) and nm_.id in shaped:
                    rebound_at.setdefault(nm_.id, st.end_lineno or st.lineno)

    def still_shaped(name: str, node) -> bool:
        return not (name in rebound_at and getattr(node, "lineno", 0) > rebound_at[name])

    for n in ast.walk(f.node):
        if isinstance(n, ast.Subscript) and isinstance(n.value, ast.Attribute) and n.value.attr == "shape" \
                and isinstance(n.value.value, ast.Name) and not still_shaped(n.value.value.id, n):
            continue
        if isinstance(n, ast.Subscript) and isinstance(n.value, ast.Attribute) and n.value.attr == "shape" \
                and isinstance(n.value.value, ast.Name) and n.value.value.id in shaped:
            ix = n.slice
            neg = isinstance(ix, ast.UnaryOp) and isinstance(ix.op, ast.USub) and isinstance(ix.operand, ast.Constant)
            if (neg or (isinstance(ix, ast.Constant) and isinstance(ix.value, int))) and reachable_0d(n):
                bad.append((n, f"`{ast.unparse(n)}` reads the length of an axis"))
        if isinstance(n, ast.Subscript) and isinstance(n.value, ast.Name) and n.value.id in shaped:
            sl = n.slice
            parts = list(sl.elts) if isinstance(sl, ast.Tuple) else [sl]
            if any(isinstance(x, ast.Slice) or (isinstance(x, ast.Constant) and isinstance(x.value, int) and not isinstance(x.value, bool))
                   for x in parts) and not any(isinstance(x, ast.Constant) and x.value is Ellipsis for x in parts):
                bad.append((n, f"`{ast.unparse(n)}` indexes an axis"))
        elif isinstance(n, ast.Call) and isinstance(n.func, ast.Name) and n.func.id == "len" and n.args and isinstance(n.args[0], ast.Name) \
                and n.args[0].id in shaped:
            bad.append((n, f"`{ast.unparse(n)}` needs a first axis"))
        elif isinstance(n, ast.For) and isinstance(n.iter, ast.Name) and n.iter.id in shaped:
            bad.append((n.iter, f"iteration over `{n.iter.id}`"))
    if bad:
        for node, txt in bad:
            ctx.bad(rule, f"{f.name}[{ast.unparse(node)[:40]}]",
                    f"{txt} of a value shaped like {what}, which may be 0-dimensional (scalar input): numpy raises IndexError/TypeError there",
                    f.loc(node), derived=ast.unparse(node), required="a rank-polymorphic form ([...], boolean mask, reduction)")
    else:
        ctx.ok(rule, f"{f.name}[rank-polymorphic]",
               f"no slice/integer indexing, len() or iteration on the {len(shaped)} values shaped like {what}", f.loc())
    return shaped
