"""Randomised identity testing of two *array-valued terms* (fallback of terms.equivalent).

TermFlow terms contain array-structure operators (item/slice, store, roll, diff, where, reductions, loop summaries).  Two
spellings of the same array - a closed `np.diff(x, append=x[0])`, `np.roll(x, -1) - x`, or an `empty_like` filled by two slice
stores - are different terms although they denote the same array.  When the algebraic comparison fails, both terms are
evaluated with numpy semantics of those operators on a fixed pseudo-random sequence of small concrete arrays for their atoms
(the *terms* are evaluated; repository code is not run).  Equal results on every trial, with non-trivial values, count as
EQUAL; a differing trial is a witness of DIFFERENT; an operator without a numpy reading, or atoms whose shapes cannot be
guessed consistently, leave the verdict to the caller.  Rational-function identities over random reals hold with probability
one only if they hold identically (Schwartz-Zippel), so EQUAL here is sound up to that negligible probability.
"""
from __future__ import annotations

import itertools
from typing import Dict, List, Optional

import numpy as np
import sympy as sp

from . import terms as T
from .terms import fname


class Unsupported(Exception):
    pass


FULL = ("slc", (T.NONE_T, T.NONE_T, T.NONE_T))
ELEMENTWISE = {sp.exp: np.exp, sp.log: np.log, sp.cos: np.cos, sp.sin: np.sin, sp.tan: np.tan, sp.tanh: np.tanh, sp.sinh: np.sinh,
               sp.cosh: np.cosh, sp.Abs: np.abs, sp.atan: np.arctan, sp.sign: np.sign, sp.floor: np.floor, sp.ceiling: np.ceil}
STRUCT = {"item", "store", "roll", "diff", "where", "ite", "lt", "ge", "eq", "ne", "and_", "or_", "not_", "slc", "empty", "zeros",
          "ones", "full", "shape", "len", "sum", "nansum", "mean", "nanmean", "max", "min", "maximum", "minimum", "isfinite",
          "isnan", "isnull", "pymod", "wrapdiff", "arange", "linspace", "clip", "cumsum", "array", "expand_dims", "reshape",
          "tabulate", "loopsum", "range", "abs", "argmax", "argmin", "prod", "all", "any", "never", "floordiv", "list", "seqcat", "concatenate"}


class Eval:
    def __init__(self, env: Dict):
        self.env = env

    def idx(self, i):
        if i == T.NONE_T:
            return None
        if i == sp.Symbol("Ellipsis"):
            return Ellipsis
        if fname(i) == "slc":
            a, b, c = (None if x == T.NONE_T else int(self.ev(x)) for x in i.args)
            return slice(a, b, c)
        if isinstance(i, sp.Tuple):
            return tuple(self.idx(x) for x in i.args)
        v = self.ev(i)
        if isinstance(v, np.ndarray) and v.dtype != bool and v.dtype.kind == "f" and np.all(v == np.round(v)):
            v = v.astype(int)
        if isinstance(v, float) and v == int(v):
            v = int(v)
        return v

    def ev(self, t):
        if t in self.env:
            return self.env[t]
        if isinstance(t, sp.Basic) and t.is_number:
            if t in (sp.nan, sp.zoo):
                return np.nan
            if t == sp.oo:
                return np.inf
            if t == -sp.oo:
                return -np.inf
            return float(t) if not t.is_Integer else int(t)
        if t == T.TRUE_T:
            return True
        if t == T.FALSE_T:
            return False
        if isinstance(t, sp.Tuple):
            return tuple(self.ev(a) for a in t.args)
        if isinstance(t, sp.Add):
            out = 0
            for a in t.args:
                out = out + self.ev(a)
            return out
        if isinstance(t, sp.Mul):
            out = 1
            for a in t.args:
                out = out * self.ev(a)
            return out
        if isinstance(t, sp.Pow):
            b, e = self.ev(t.args[0]), self.ev(t.args[1])
            with np.errstate(all="ignore"):
                return np.power(np.asarray(b, dtype=float), e)
        for k, fn in ELEMENTWISE.items():
            if isinstance(t, k):
                with np.errstate(all="ignore"):
                    return fn(self.ev(t.args[0]))
        if isinstance(t, sp.atan2):
            return np.arctan2(self.ev(t.args[0]), self.ev(t.args[1]))
        f = fname(t)
        a = t.args
        if f == "item":
            base = self.ev(a[0])
            if not isinstance(base, (np.ndarray, tuple, list)):
                raise Unsupported("item of scalar")
            ix = self.idx(a[1])
            if isinstance(base, (tuple, list)):
                return base[ix]
            return base[ix]
        if f == "store":
            base = np.array(self.ev(a[0]), dtype=float, copy=True)
            base[self.idx(a[1])] = self.ev(a[2])
            return base
        if f in ("empty", "zeros", "ones", "full"):
            shp = self.ev(a[0])
            shp = tuple(int(x) for x in shp) if isinstance(shp, (tuple, list, np.ndarray)) else (int(shp),)
            if f == "full":
                return np.full(shp, self.ev(a[1]), dtype=float)
            return {"empty": lambda s: np.full(s, 12345.678), "zeros": np.zeros, "ones": np.ones}[f](shp)
        if f == "shape":
            return tuple(np.shape(self.ev(a[0])))
        if f == "len":
            return len(self.ev(a[0]))
        if f == "roll":
            return np.roll(self.ev(a[0]), int(self.ev(a[1])))
        if f == "concatenate":
            pieces = a[0].args if isinstance(a[0], sp.Tuple) else [a[0]]
            vals = []
            for pc in pieces:
                v = np.atleast_1d(np.asarray([self.ev(x) for x in pc.args], dtype=float)) if isinstance(pc, sp.Tuple) \
                    else np.asarray(self.ev(pc), dtype=float)
                if v.ndim == 0:
                    raise Unsupported("concatenate of a scalar")
                vals.append(v)
            ax = int(self.ev(a[1])) if len(a) > 1 and a[1] != T.NONE_T else 0
            return np.concatenate(vals, axis=ax)
        if f == "diff":
            kw = {}
            if a[1] != T.NONE_T:
                kw["append"] = self.ev(a[1])
            if a[2] != T.NONE_T:
                kw["prepend"] = self.ev(a[2])
            return np.diff(self.ev(a[0]), **kw)
        if f in ("where", "ite") and len(a) == 3:
            return np.where(self.ev(a[0]), self.ev(a[1]), self.ev(a[2]))
        if f in ("lt", "ge", "eq", "ne"):
            x, y = self.ev(a[0]), self.ev(a[1])
            return {"lt": np.less, "ge": np.greater_equal, "eq": np.equal, "ne": np.not_equal}[f](x, y)
        if f == "and_":
            out = True
            for x in a:
                out = np.logical_and(out, self.ev(x))
            return out
        if f == "or_":
            out = False
            for x in a:
                out = np.logical_or(out, self.ev(x))
            return out
        if f == "not_":
            return np.logical_not(self.ev(a[0]))
        if f in ("sum", "nansum", "mean", "nanmean", "max", "min", "prod", "all", "any", "argmax", "argmin", "cumsum") and len(a) == 2:
            ax = None if a[1] == T.NONE_T else self.ev(a[1])
            if isinstance(ax, str) or T.is_str_symbol(a[1]):
                raise Unsupported("named dimension")
            fn = getattr(np, f)
            return fn(self.ev(a[0]), axis=None if ax is None else int(ax))
        if f in ("maximum", "minimum") and len(a) == 2:
            return getattr(np, f)(self.ev(a[0]), self.ev(a[1]))
        if f == "isfinite":
            return np.isfinite(self.ev(a[0]))
        if f in ("isnan", "isnull"):
            return np.isnan(self.ev(a[0]))
        if f == "pymod":
            return np.mod(self.ev(a[0]), self.ev(a[1]))
        if f == "floordiv":
            return np.floor_divide(self.ev(a[0]), self.ev(a[1]))
        if f == "wrapdiff":
            d = np.asarray(self.ev(a[0]), dtype=float)
            if a[1] == T.NONE_T:
                return d
            per = self.ev(a[1])
            dc = per / 2 if a[2] == T.NONE_T else self.ev(a[2])
            out = np.full_like(d, np.nan)
            m = np.isfinite(d)
            out[m] = (d[m] + per - dc) % per - per + dc
            return out
        if f == "arange":
            return np.arange(*[self.ev(x) for x in a]).astype(float)
        if f == "linspace" and len(a) == 4:
            return np.linspace(self.ev(a[0]), self.ev(a[1]), int(self.ev(a[2])), endpoint=bool(self.ev(a[3])))
        if f == "clip" and len(a) == 3:
            return np.clip(self.ev(a[0]), self.ev(a[1]), self.ev(a[2]))
        if f == "array":
            return np.array([self.ev(x) for x in a], dtype=float)
        if f == "expand_dims":
            return np.expand_dims(self.ev(a[0]), int(self.ev(a[1])))
        if f == "reshape":
            return np.reshape(self.ev(a[0]), [int(x) for x in self.ev(a[1])])
        if f == "abs":
            return np.abs(self.ev(a[0]))
        if f in ("list",):
            return list(self.ev(a[0]))
        if f == "loopsum" and len(a) >= 3:
            rng = a[2]
            if fname(rng) != "range":
                raise Unsupported("loop range")
            bounds = [int(self.ev(x)) for x in rng.args]
            tot = 0
            for i in range(*bounds):
                tot = tot + Eval({**self.env, a[1]: i}).ev(a[0])
            return tot
        if f == "tabulate" and len(a) >= 5:
            rng = a[4]
            if fname(rng) not in ("range",):
                raise Unsupported("loop range")
            base = np.array(self.ev(a[0]), dtype=float, copy=True)
            bounds = [int(self.ev(x)) for x in rng.args]
            pat = a[1]
            if isinstance(pat, sp.Tuple) and pat.args and pat.args[0] == T.Str("inner"):
                raise Unsupported("nested tabulate")
            for i in range(*bounds):
                sub = Eval({**self.env, a[3]: i})
                base[sub.idx(pat)] = sub.ev(a[2])
            return base
        raise Unsupported(f or type(t).__name__)


def _atoms(t, out: List):
    if not isinstance(t, sp.Basic) or t.is_number or t in (T.NONE_T, T.TRUE_T, T.FALSE_T):
        return
    f = fname(t)
    if f == "item" and len(t.args) == 2 and T.is_str_symbol(t.args[1]):
        if t not in out:            # a named variable of a dataset / mapping: an input array
            out.append(t)
        return
    if isinstance(t, sp.Symbol):
        if t not in out and t != sp.Symbol("Ellipsis") and not T.is_str_symbol(t):
            out.append(t)
        return
    if f is not None and f not in STRUCT:
        if t not in out:
            out.append(t)
        return
    if f == "loopsum":
        inner: List = []
        _atoms(t.args[0], inner)
        for x in inner:
            if t.args[1] not in getattr(x, "free_symbols", set()) and x != t.args[1] and x not in out:
                out.append(x)
        _atoms(t.args[2], out)
        return
    if f == "tabulate":
        inner = []
        for x in (t.args[1], t.args[2]):
            _atoms(x, inner)
        for x in inner:
            if t.args[3] not in getattr(x, "free_symbols", set()) and x != t.args[3] and x not in out:
                out.append(x)
        _atoms(t.args[0], out)
        _atoms(t.args[4] if len(t.args) > 4 else T.NONE_T, out)
        return
    for x in t.args:
        _atoms(x, out)


# rank of atoms known to the rules (direction and frequency coordinates are 1-d, ...): 0 scalar, 1 vector, 2 matrix.
# Atoms without a hint must agree under every shape reading that both terms can be evaluated in.
HINTS: Dict = {}
_RANK_TO_MAKER = {1: 0, 0: 1, 2: 2}


def same_array(a, b, trials: int = 4, seed: int = 20260929) -> Optional[bool]:
    """True: equal on every trial for at least one consistent shape assignment; False: a trial shows different values;
    None: not evaluable."""
    a, b = T.to_term(a), T.to_term(b)
    atoms: List = []
    _atoms(a, atoms)
    _atoms(b, atoms)
    if not atoms or len(atoms) > 7:
        return None
    rng = np.random.default_rng(seed)
    n = 6
    # candidate ranks per atom: try 1-d first (grids, series), then scalars, then 2-d
    # arrays are drawn at several magnitudes so that periodic operators (wrap at 360, modulo) are exercised on both
    # sides of their period, not only where they act as the identity
    scale = [1.0]
    makers = [lambda: np.sort(rng.uniform(0.2, 3.0, n)) * scale[0], lambda: float(rng.uniform(0.3, 2.5)),
              lambda: rng.uniform(0.2, 3.0, (4, n)) * scale[0]]
    n_equal = n_diff = 0
    nontrivial_any = False
    choices = [[_RANK_TO_MAKER[HINTS[at]]] if at in HINTS else [0, 1, 2] for at in atoms]
    for ranks in itertools.islice(itertools.product(*choices), 81):
        ok_all = True
        witness = False
        nontrivial = False
        for trial in range(trials):
            scale[0] = (1.0, 47.0, 173.0, 1.0)[trial % 4]
            env = {at: makers[r]() for at, r in zip(atoms, ranks)}
            try:
                with np.errstate(all="ignore"):
                    va = np.asarray(Eval(dict(env)).ev(a), dtype=float)
                    vb = np.asarray(Eval(dict(env)).ev(b), dtype=float)
            except Exception:
                ok_all = False
                break
            if va.shape != vb.shape:
                witness = True
                break
            if not np.allclose(va, vb, rtol=1e-9, atol=1e-12, equal_nan=True):
                witness = True
                break
            fin = va[np.isfinite(va)]
            if (fin.size > 1 and np.ptp(fin) > 0) or (fin.size == 1 and fin[0] != 0):
                nontrivial = True
        if not ok_all:
            continue
        if witness:
            n_diff += 1
        else:
            n_equal += 1
            nontrivial_any = nontrivial_any or nontrivial
    # the two terms denote the same array function iff they agree under every shape reading both can be evaluated in
    if n_equal and not n_diff and nontrivial_any:
        return True
    if n_diff and not n_equal:
        return False
    return None
