"""Resolved call graph over the program model (names, module attributes, self-methods through the
MRO and overriding subclasses, constructors, first-class functions stored on instances).  Calls on
values of unknown type fall back to *may* edges to every repository method of that name, so that
reachability is over-approximated, never under-approximated."""
from __future__ import annotations

import ast
from typing import Dict, List, Optional, Set, Tuple

from .model import Program, Function, Class, Module


class CallGraph:
    def __init__(self, program: Program):
        self.p = program
        self.edges: Dict[Function, List[Tuple[Function, ast.Call, str]]] = {}
        self.unresolved: Dict[Function, List[ast.Call]] = {}
        self.by_method_name: Dict[str, List[Function]] = {}
        for f in program.all_functions:
            if f.cls is not None:
                self.by_method_name.setdefault(f.name, []).append(f)
        self.subclasses: Dict[Class, List[Class]] = {}
        for c in program.classes.values():
            for b in c.mro()[1:]:
                self.subclasses.setdefault(b, []).append(c)
        self.fn_attrs = self._function_valued_attributes()
        for f in program.all_functions:
            self._scan(f)

    def _function_valued_attributes(self) -> Dict[str, Set[Function]]:
        """self.<attr> = <repository function> assignments anywhere (points-to table for first-class functions)."""
        out: Dict[str, Set[Function]] = {}
        for f in self.p.all_functions:
            if f.cls is None:
                continue
            for n in ast.walk(f.node):
                if isinstance(n, ast.Assign):
                    for t in n.targets:
                        if isinstance(t, ast.Attribute) and isinstance(t.value, ast.Name) and t.value.id == "self":
                            r = self.p.resolve_expr(f.module, n.value) if isinstance(
                                n.value, (ast.Name, ast.Attribute)) else None
                            if isinstance(r, Function):
                                out.setdefault(t.attr, set()).add(r)
        return out

    def own_nodes(self, f: Function):
        """AST nodes of f excluding nested function bodies."""
        stack = list(ast.iter_child_nodes(f.node))
        while stack:
            n = stack.pop()
            if isinstance(n, (ast.FunctionDef, ast.AsyncFunctionDef, ast.Lambda)) and n is not f.node:
                if isinstance(n, ast.Lambda):
                    stack.extend(ast.iter_child_nodes(n))
                continue
            yield n
            stack.extend(ast.iter_child_nodes(n))

    def _scan(self, f: Function):
        self.edges[f] = []
        self.unresolved[f] = []
        local_funcs = {g.name: g for g in self.p.all_functions if g.parent is f}
        for g in local_funcs.values():
            self.edges[f].append((g, None, "nested"))
        for n in self.own_nodes(f):
            if not isinstance(n, ast.Call):
                continue
            targets = self.resolve_call(f, n, local_funcs)
            if targets:
                for t, kind in targets:
                    self.edges[f].append((t, n, kind))
            else:
                self.unresolved[f].append(n)
        # property reads: self.<property>
        if f.cls is not None:
            for n in self.own_nodes(f):
                if isinstance(n, ast.Attribute) and isinstance(n.value, ast.Name) and n.value.id == "self":
                    for c in [f.cls] + self.subclasses.get(f.cls, []):
                        m = c.find_method(n.attr)
                        if m is not None and m.is_property:
                            self.edges[f].append((m, None, "property"))

    def resolve_call(self, f: Function, call: ast.Call, local_funcs) -> List[Tuple[Function, str]]:
        fn = call.func
        out: List[Tuple[Function, str]] = []
        if isinstance(fn, ast.Name):
            if fn.id in local_funcs:
                return [(local_funcs[fn.id], "local")]
            r = self.p.resolve_name(f.module, fn.id)
            if isinstance(r, Function):
                return [(r, "direct")]
            if isinstance(r, Class):
                init = r.find_method("__init__")
                return [(init, "constructor")] if init else []
            # function-typed parameter: bound from first-class attributes (0-CFA over attribute table)
            if fn.id in f.params:
                cands = set()
                for attr, fs in self.fn_attrs.items():
                    if attr.strip("_").endswith(fn.id.strip("_")) or fn.id.strip("_").endswith(attr.strip("_")):
                        cands |= fs
                return [(c, "function-parameter") for c in sorted(cands, key=lambda x: x.qualname)]
            return []
        if isinstance(fn, ast.Attribute):
            base = fn.value
            if isinstance(base, ast.Name) and base.id in ("self", "cls") and f.cls is not None:
                seen = set()
                for c in [f.cls] + self.subclasses.get(f.cls, []):
                    m = c.find_method(fn.attr)
                    if m is not None and m not in seen:
                        seen.add(m)
                        out.append((m, "self"))
                if not out and fn.attr in self.fn_attrs:
                    out = [(g, "self-attribute-function") for g in sorted(self.fn_attrs[fn.attr], key=lambda x: x.qualname)]
                return out
            if isinstance(base, ast.Call) and isinstance(base.func, ast.Name) and base.func.id == "super" and f.cls:
                for c in f.cls.mro()[1:]:
                    if fn.attr in c.methods:
                        return [(c.methods[fn.attr], "super")]
                return []
            r = self.p.resolve_expr(f.module, fn)
            if isinstance(r, Function):
                return [(r, "module-attribute")]
            if isinstance(r, Class):
                init = r.find_method("__init__")
                return [(init, "constructor")] if init else []
            if isinstance(r, tuple) and r[0] == "ext":
                return []
            rb = self.p.resolve_expr(f.module, base) if isinstance(base, (ast.Name, ast.Attribute)) else None
            if isinstance(rb, tuple) and rb[0] == "ext":
                return []
            # unknown receiver: may-edges by method name
            return [(m, "may:by-name") for m in self.by_method_name.get(fn.attr, [])]
        return []

    def reachable(self, roots: List[Function], include_may: bool = True) -> List[Function]:
        seen: List[Function] = []
        seen_set = set()
        stack = list(roots)
        while stack:
            f = stack.pop()
            if f in seen_set:
                continue
            seen_set.add(f)
            seen.append(f)
            for t, _, kind in self.edges.get(f, []):
                if not include_may and kind.startswith("may"):
                    continue
                if t not in seen_set:
                    stack.append(t)
        return seen

    def callers_of(self, target: Function) -> List[Tuple[Function, ast.Call, str]]:
        out = []
        for f, es in self.edges.items():
            for t, call, kind in es:
                if t is target and call is not None:
                    out.append((f, call, kind))
        return out

    def stats(self):
        n_res = sum(1 for es in self.edges.values() for e in es if e[1] is not None)
        n_unres = sum(len(v) for v in self.unresolved.values())
        return {"call_sites_resolved": n_res, "call_sites_unresolved": n_unres}


def annotation_is_dataset(p: Program, f: Function) -> bool:
    r = f.node.returns
    if r is None:
        return False
    s = ast.unparse(r)
    return "xarray.Dataset" in s or s.endswith("Dataset") or "Dataset]" in s
