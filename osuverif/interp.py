"""Engine E1 -- TermFlow: forward abstract interpretation of repository functions over the term
domain of ``terms.py`` with inlining of resolved callees.

This is value numbering, not execution: inputs are symbols, arithmetic builds terms, control
flow on symbolic conditions merges with ``ite``; loops over symbolic ranges are summarised
(``loopsum`` for accumulations, ``tabulate`` for element stores, ``loopfix`` otherwise).  No
repository code is imported or run.
"""
from __future__ import annotations

import ast
import copy
from dataclasses import dataclass, field
from typing import Any, Callable, Dict, List, Optional, Tuple

import sympy as sp

from .model import Program, Module, Function, Class, AnalysisError
from . import terms as T
from .terms import (
    Unknown,
    Str,
    op,
    to_term,
    AND,
    OR,
    NOT,
    CMP,
    ITE,
    num,
    fname,
    NONE_T,
    TRUE_T,
    FALSE_T,
)

MAX_DEPTH = 14
MAX_UNROLL = 64


# ============================================================================ values
class Value:
    pass


@dataclass(eq=False)
class FuncVal(Value):
    func: Function
    closure: Optional["Env"] = None

    def as_term(self):
        return sp.Symbol(f"<fn {self.func.qualname}>")


@dataclass(eq=False)
class PartialVal(Value):
    """functools.partial(fn, *args, **kwargs): a callable with leading positionals and keywords already supplied"""
    fn: Any
    args: tuple
    kwargs: dict

    def as_term(self):
        return op("partial", to_term(self.fn), *[to_term(a) for a in self.args],
                  *[sp.Tuple(Str(k), to_term(v)) for k, v in sorted(self.kwargs.items())])


@dataclass(eq=False)
class LambdaVal(Value):
    node: ast.Lambda
    env: "Env"

    def as_term(self):
        return Unknown("lambda")


@dataclass(eq=False)
class ClassVal(Value):
    cls: Class

    def as_term(self):
        return sp.Symbol(f"<class {self.cls.qualname}>")


@dataclass(eq=False)
class ModVal(Value):
    module: Module


@dataclass(eq=False)
class Ext(Value):
    chain: str  # e.g. "numpy.cos"

    def as_term(self):
        return sp.Symbol(f"<ext {self.chain}>")


@dataclass(eq=False)
class Obj(Value):
    cls: Class
    fields: Dict[str, Any] = field(default_factory=dict)
    label: str = ""

    def as_term(self):
        return sp.Symbol(f"<obj {self.label or self.cls.name}>")


@dataclass(eq=False)
class BoundMethod(Value):
    self_val: Any
    func: Function


@dataclass(eq=False)
class TermMethod(Value):
    recv: Any  # sympy term
    name: str


@dataclass(eq=False)
class PyMethod(Value):
    recv: Any  # python container / str
    name: str


@dataclass(eq=False)
class Builtin(Value):
    name: str


class GuardedYield(Value):
    """a value yielded under a path condition (a generator that skips some elements): the consumer's loop body runs for it
    only where the condition holds"""

    def __init__(self, cond, value):
        self.cond = cond
        self.value = value

    def as_term(self):
        return op("guarded", to_term(self.cond), to_term(self.value))


@dataclass(eq=False)
class SuperVal(Value):
    cls: Class
    self_val: Any


@dataclass(eq=False)
class DatasetVal(Value):
    """A concrete xarray.Dataset built in the analysed code: name -> value."""
    items: Dict[Any, Any] = field(default_factory=dict)

    def as_term(self):
        return op("dataset", *[sp.Tuple(to_term(k), to_term(v)) for k, v in self.items.items()])

    def copy(self):
        return DatasetVal(dict(self.items))


class _Missing:
    def __repr__(self):
        return "<MISSING>"


MISSING = _Missing()

BUILTINS = {
    "len", "range", "int", "float", "str", "list", "tuple", "dict", "zip", "enumerate",
    "isinstance", "abs", "min", "max", "sum", "type", "getattr", "hasattr", "print", "super",
    "bool", "sorted", "filter", "map", "set", "any", "all", "setattr", "open", "complex",
    "ValueError", "Exception", "KeyError", "TypeError", "IOError", "FileNotFoundError",
    "DeprecationWarning", "NotImplementedError", "reversed", "round", "slice", "iter", "next",
    "id", "repr", "callable", "issubclass", "object", "staticmethod", "property", "divmod",
}


def is_term(v) -> bool:
    return isinstance(v, sp.Basic)


def is_concrete_int(v) -> bool:
    return isinstance(v, sp.Integer) or (isinstance(v, sp.Basic) and v.is_Integer is True and v.is_number)


def as_int(v) -> Optional[int]:
    if isinstance(v, bool):
        return int(v)
    if isinstance(v, int):
        return v
    if isinstance(v, sp.Basic) and v.is_number and v.is_Integer:
        return int(v)
    return None


def truth(v) -> Optional[bool]:
    """Concrete truth value of an analysis value, or None when symbolic."""
    if v is None:
        return False
    if isinstance(v, bool):
        return v
    if isinstance(v, (str, tuple, list, dict, set)):
        return len(v) > 0
    if isinstance(v, sp.Basic):
        if v == TRUE_T:
            return True
        if v == FALSE_T:
            return False
        if v == NONE_T:
            return False
        if v.is_number:
            try:
                return bool(v != 0)
            except Exception:
                return None
        return None
    if isinstance(v, Value):
        return True
    return None


# ============================================================================ environment
class Env:
    def __init__(self, interp, func: Optional[Function], module: Module, parent: Optional["Env"] = None):
        self.interp = interp
        self.func = func
        self.module = module
        self.parent = parent
        self.vars: Dict[str, Any] = {}
        self.pathcond: sp.Basic = TRUE_T
        self.loopvars: List[sp.Symbol] = []

    def fork(self) -> "Env":
        e = Env(self.interp, self.func, self.module, self.parent)
        e.vars = dict(self.vars)
        for k, v in e.vars.items():
            if isinstance(v, list):
                e.vars[k] = list(v)
            elif isinstance(v, dict):
                e.vars[k] = dict(v)
            elif isinstance(v, DatasetVal):
                e.vars[k] = v.copy()
        e.pathcond = self.pathcond
        e.loopvars = list(self.loopvars)
        if hasattr(self, "yields"):
            e.yields = self.yields      # the generator frame's sink is shared by every branch and loop body of the frame
        return e

    def lookup(self, name: str):
        e: Optional[Env] = self
        while e is not None:
            if name in e.vars:
                return e.vars[name]
            e = e.parent
        return MISSING


@dataclass
class Flow:
    env: Optional[Env]
    returns: List[Tuple[sp.Basic, Any]] = field(default_factory=list)
    breaks: List[Tuple[sp.Basic, Env]] = field(default_factory=list)
    conts: List[Tuple[sp.Basic, Env]] = field(default_factory=list)


@dataclass
class RaiseRecord:
    func: str
    loc: str
    cond: sp.Basic
    exc: str
    caught: bool = False


@dataclass
class LoopRecord:
    func: str
    loc: str
    lv: Any
    iter: Any
    carried: Dict[str, Tuple[Any, Any, Any]]  # name -> (value before loop, carried symbol, value after one body)
    break_conds: List[Any]
    return_conds: List[Any]
    has_else: bool
    body_env: Any = None


@dataclass
class StoreRecord:
    func: str
    loc: str
    target: str
    index: Any
    value: Any
    cond: sp.Basic
    loopvars: Tuple


# ============================================================================ interpreter
class Interp:
    def __init__(self, program: Program, opaque: Optional[Dict[str, str]] = None, lib=None,
                 max_depth: int = MAX_DEPTH):
        from . import libmodel

        self.p = program
        self.opaque = dict(opaque or {})
        self.lib = lib or libmodel
        self.max_depth = max_depth
        self.max_recursion = 2
        self.stack: List[Function] = []
        self.raises: List[RaiseRecord] = []
        self.stores: List[StoreRecord] = []
        self.calls: List[Tuple[str, str, str]] = []  # (caller, callee, loc)
        self.loops: List[LoopRecord] = []
        self.ext_used: Dict[str, str] = {}  # chain -> first loc
        self.unknown_notes: List[str] = []
        self.functions_visited: Dict[str, int] = {}
        self._global_cache: Dict[Tuple[str, str], Any] = {}
        self._loop_counter = 0
        self.try_depth = 0
        self.hooks: Dict[str, Callable] = {}
        self.unmodelled: set = set()
        self.shape_hints: Dict[Any, Tuple] = {}  # term -> known shape (rule-level precondition)
        self.nonnull: set = set()  # terms known not to be None (rule-level precondition)
        self.assume_true: List[Callable] = []  # conditions taken as true (stated assumptions of a rule)
        self.dataset_wraps: List[Tuple[str, str]] = []
        self.type_hints: Dict[Any, str] = {}

    # ------------------------------------------------------------------ helpers
    def note_unknown(self, desc: str, node=None, env: Optional[Env] = None) -> sp.Symbol:
        loc = ""
        if env is not None and env.func is not None and node is not None:
            loc = env.func.loc(node)
        elif env is not None and node is not None:
            loc = f"{env.module.relpath}:{getattr(node, 'lineno', '?')}"
        msg = f"{desc} @ {loc}" if loc else desc
        self.unknown_notes.append(msg)
        return Unknown(msg)

    def loc(self, env: Env, node) -> str:
        return f"{env.module.relpath}:{getattr(node, 'lineno', '?')}"

    # ------------------------------------------------------------------ globals
    def global_value(self, module: Module, name: str):
        key = (module.name, name)
        if key in self._global_cache:
            return self._global_cache[key]
        r = self.p.resolve_name(module, name)
        val: Any = MISSING
        if isinstance(r, Function):
            val = FuncVal(r)
        elif isinstance(r, Class):
            val = ClassVal(r)
        elif isinstance(r, Module):
            val = ModVal(r)
        elif isinstance(r, tuple) and r[0] == "ext":
            val = Ext(r[1])
        elif isinstance(r, tuple) and r[0] == "const":
            home: Module = r[2]
            hn = self.p._home_name(home, r[1])
            pyval = MISSING
            if hn is not None:
                try:
                    pyval = self.p.const_global(home, hn)
                except Exception:
                    pyval = MISSING
            if pyval is not MISSING:
                val = self.from_python(pyval)
            else:
                genv = Env(self, None, home)
                self._global_cache[key] = Unknown(f"global:{name}")
                try:
                    val = self.eval(r[1], genv)
                except Exception as e:  # pragma: no cover - defensive
                    val = self.note_unknown(f"global {name}: {e}")
        elif name in BUILTINS:
            val = Builtin(name)
        self._global_cache[key] = val
        return val

    def from_python(self, v):
        if v is None or isinstance(v, (str, bool)):
            return v
        if isinstance(v, (int, float, complex)):
            return num(v)
        if isinstance(v, tuple):
            return tuple(self.from_python(x) for x in v)
        if isinstance(v, list):
            return [self.from_python(x) for x in v]
        if isinstance(v, dict):
            return {k: self.from_python(x) for k, x in v.items()}
        return Unknown("pyconst")

    # ------------------------------------------------------------------ calls
    def call(self, fv, args: List[Any], kwargs: Dict[str, Any], env: Env, node=None):
        if isinstance(fv, FuncVal):
            return self.call_function(fv.func, args, kwargs, env, node, closure=fv.closure)
        if isinstance(fv, BoundMethod):
            return self.call_function(fv.func, [fv.self_val] + list(args), kwargs, env, node)
        if isinstance(fv, ClassVal):
            return self.instantiate(fv.cls, args, kwargs, env, node)
        if isinstance(fv, LambdaVal):
            return self.call_lambda(fv, args, kwargs)
        if isinstance(fv, PartialVal):
            return self.call(fv.fn, list(fv.args) + list(args), {**fv.kwargs, **kwargs}, env, node)
        if isinstance(fv, Ext):
            self.ext_used.setdefault(fv.chain, self.loc(env, node) if node is not None else "")
            return self.lib.call_ext(self, fv.chain, args, kwargs, env, node)
        if isinstance(fv, TermMethod):
            return self.lib.call_term_method(self, fv.recv, fv.name, args, kwargs, env, node)
        if isinstance(fv, PyMethod):
            return self.lib.call_py_method(self, fv.recv, fv.name, args, kwargs, env, node)
        if isinstance(fv, Builtin):
            return self.lib.call_builtin(self, fv.name, args, kwargs, env, node)
        if is_term(fv):
            # calling a symbolic function value (function-typed parameter)
            return op("apply", fv, *[to_term(a) for a in args],
                      *[sp.Tuple(Str(k), to_term(v)) for k, v in sorted(kwargs.items())])
        return self.note_unknown(f"call of {type(fv).__name__}", node, env)

    def call_lambda(self, lv: LambdaVal, args, kwargs):
        e = Env(self, lv.env.func, lv.env.module, lv.env)
        a = lv.node.args
        names = [x.arg for x in a.args]
        for n, v in zip(names, args):
            e.vars[n] = v
        for k, v in kwargs.items():
            e.vars[k] = v
        return self.eval(lv.node.body, e)

    def bind(self, func: Function, args: List[Any], kwargs: Dict[str, Any], def_env: Env,
             node=None, env=None) -> Dict[str, Any]:
        a = func.node.args
        pos = [x.arg for x in a.posonlyargs + a.args]
        bound: Dict[str, Any] = {}
        args = list(args)
        for name, v in zip(pos, args):
            bound[name] = v
        extra = args[len(pos):]
        if a.vararg is not None:
            bound[a.vararg.arg] = tuple(extra)
        elif extra:
            self.note_unknown(f"too many positional arguments for {func.qualname}", node, env)
        kw_extra = {}
        kwonly = [x.arg for x in a.kwonlyargs]
        for k, v in kwargs.items():
            if k in pos or k in kwonly:
                if k in bound:
                    self.note_unknown(f"duplicate argument {k} for {func.qualname}", node, env)
                bound[k] = v
            else:
                kw_extra[k] = v
        if a.kwarg is not None:
            bound[a.kwarg.arg] = kw_extra
        elif kw_extra:
            self.note_unknown(
                f"unexpected keyword(s) {sorted(kw_extra)} for {func.qualname}", node, env)
        # defaults
        defaults = a.defaults
        for name, d in zip(pos[len(pos) - len(defaults):], defaults):
            if name not in bound:
                bound[name] = self.eval(d, def_env)
        for name, d in zip(kwonly, a.kw_defaults):
            if name not in bound and d is not None:
                bound[name] = self.eval(d, def_env)
        for name in pos + kwonly:
            if name not in bound:
                bound[name] = self.note_unknown(f"missing argument {name} for {func.qualname}", node, env)
        return bound

    def call_function(self, func: Function, args, kwargs, env: Optional[Env], node=None, closure=None):
        q = func.qualname
        if env is not None and env.func is not None:
            self.calls.append((env.func.qualname, q, self.loc(env, node) if node is not None else ""))
        if q in self.hooks:
            r = self.hooks[q](self, func, args, kwargs, env, node)
            if r is not MISSING:
                return r
        if q in self.opaque:
            def_env = Env(self, func, func.module, closure)
            b = self.bind(func, args, kwargs, def_env, node, env)
            names = func.params
            extra = []
            if func.node.args.vararg is not None:
                extra.append(to_term(b[func.node.args.vararg.arg]))
            if func.node.args.kwarg is not None:
                extra.append(to_term(b[func.node.args.kwarg.arg]))
            return op(self.opaque[q], *[to_term(b[n]) for n in names], *extra)
        if len(self.stack) >= self.max_depth or self.stack.count(func) >= self.max_recursion:
            return self.note_unknown(f"inlining bound at {q}", node, env)
        self.functions_visited[q] = self.functions_visited.get(q, 0) + 1
        def_env = Env(self, func, func.module, closure)
        b = self.bind(func, args, kwargs, def_env, node, env)
        fenv = Env(self, func, func.module, closure)
        fenv.vars.update(b)
        is_gen = any(isinstance(n, (ast.Yield, ast.YieldFrom)) for n in ast.walk(func.node)
                     if not isinstance(n, (ast.Lambda,)))
        if is_gen:
            fenv.yields = []
        base_pc = TRUE_T
        if env is not None:
            fenv.loopvars = list(env.loopvars)
            fenv.pathcond = env.pathcond
            base_pc = env.pathcond
        self.stack.append(func)
        try:
            flow = self.exec_block(func.node.body, fenv)
        finally:
            self.stack.pop()
        if is_gen:
            return list(fenv.yields)  # a generator evaluates to the sequence of its yielded values
        rets = [(self.relative_cond(c, base_pc), v) for c, v in flow.returns]
        # each return is reached only if the earlier ones were not taken: simplify its condition accordingly
        simp = []
        falsified = {}
        for c, v in rets:
            c2 = T.assume(c, falsified) if falsified and is_term(c) else c
            simp.append((c2, v))
            if is_term(c2) and c2 != TRUE_T:
                falsified[c2] = False
                falsified[c] = False
                falsified[NOT(c2)] = True
        rets = simp
        if flow.env is not None:
            rets.append((TRUE_T, None))
        elif rets and rets[-1][0] != TRUE_T:
            rets.append((TRUE_T, op("never")))  # the remaining paths raise
        return self.combine_returns(rets)

    def combine_returns(self, rets: List[Tuple[sp.Basic, Any]]):
        if not rets:
            return op("never")
        val = rets[-1][1]
        for c, v in reversed(rets[:-1]):
            val = self.merge_values(c, v, val)
        return val

    def merge_values(self, c, a, b):
        if a is b:
            return a
        if is_term(a) and is_term(b):
            return ITE(c, a, b)
        if isinstance(a, tuple) and isinstance(b, tuple) and len(a) == len(b):
            return tuple(self.merge_values(c, x, y) for x, y in zip(a, b))
        if isinstance(a, list) and isinstance(b, list) and len(a) == len(b):
            return [self.merge_values(c, x, y) for x, y in zip(a, b)]
        if isinstance(a, dict) and isinstance(b, dict):
            out = {}
            for k in list(a.keys()) + [k for k in b.keys() if k not in a]:
                if k in a and k in b:
                    out[k] = self.merge_values(c, a[k], b[k])
                elif k in a:
                    out[k] = op("guarded", to_term(c), to_term(a[k]))
                else:
                    out[k] = op("guarded", NOT(c), to_term(b[k]))
            return out
        if isinstance(a, DatasetVal) and isinstance(b, DatasetVal):
            return DatasetVal(self.merge_values(c, a.items, b.items))
        try:
            if type(a) is type(b) and a == b:
                return a
        except Exception:
            pass
        if isinstance(a, Obj) and isinstance(b, Obj) and a.cls is b.cls and a.fields.keys() == b.fields.keys():
            o = Obj(a.cls, {}, a.label)
            for k in a.fields:
                o.fields[k] = self.merge_values(c, a.fields[k], b.fields[k])
            return o
        ta, tb = to_term(a), to_term(b)
        return ITE(c, ta, tb)

    def instantiate(self, cls: Class, args, kwargs, env, node=None):
        obj = Obj(cls, {})
        init = cls.find_method("__init__")
        if init is not None:
            self.call_function(init, [obj] + list(args), kwargs, env, node)
        elif cls.is_dataclass or any(c.is_dataclass for c in cls.mro()):
            fields = cls.all_dataclass_fields()
            names = [f[0] for f in fields]
            for n, v in zip(names, args):
                obj.fields[n] = v
            for k, v in kwargs.items():
                obj.fields[k] = v
            for n, d in fields:
                if n not in obj.fields and d is not None:
                    obj.fields[n] = self.eval(d, Env(self, None, cls.module))
        return obj

    # ------------------------------------------------------------------ attribute access
    def get_attr(self, base, attr: str, env: Env, node=None):
        if isinstance(base, Obj):
            if attr in base.fields:
                return base.fields[attr]
            if attr == "__class__":
                return ClassVal(base.cls)
            m = base.cls.find_method(attr)
            if m is not None:
                if m.is_property:
                    return self.call_function(m, [base], {}, env, node)
                if m.is_static:
                    return FuncVal(m)
                if m.is_classmethod:
                    return BoundMethod(ClassVal(base.cls), m)
                return BoundMethod(base, m)
            ca = base.cls.find_attr(attr)
            if ca is not None:
                return self.eval(ca[1], Env(self, None, ca[0].module))
            return self.note_unknown(f"attribute {attr} of {base.cls.name}", node, env)
        if isinstance(base, ClassVal):
            if attr == "__name__":
                return base.cls.name
            m = base.cls.find_method(attr)
            if m is not None:
                if m.is_classmethod:
                    return BoundMethod(base, m)
                return FuncVal(m)
            ca = base.cls.find_attr(attr)
            if ca is not None:
                return self.eval(ca[1], Env(self, None, ca[0].module))
            return self.note_unknown(f"class attribute {attr}", node, env)
        if isinstance(base, SuperVal):
            mro = base.self_val.cls.mro() if isinstance(base.self_val, Obj) else base.cls.mro()
            idx = mro.index(base.cls) if base.cls in mro else -1
            for c in mro[idx + 1:]:
                if attr in c.methods:
                    return BoundMethod(base.self_val, c.methods[attr])
            return Builtin("<object." + attr + ">")
        if isinstance(base, DatasetVal):
            if attr in ("assign", "copy", "keys", "update", "to_netcdf", "reset_coords", "drop_vars", "items"):
                return PyMethod(base, attr)
            if attr in ("coords", "data_vars", "dims"):
                return base
            if attr in base.items:
                return base.items[attr]
            return self.get_attr(base.as_term(), attr, env, node)
        if isinstance(base, ModVal):
            v = self.global_value(base.module, attr)
            if v is MISSING:
                return self.note_unknown(f"module attribute {attr}", node, env)
            return v
        if isinstance(base, Ext):
            return self.lib.ext_attr(self, base.chain, attr, env, node)
        if is_term(base):
            return self.lib.term_attr(self, base, attr, env, node)
        if isinstance(base, (str, tuple, list, dict, set)):
            return PyMethod(base, attr)
        if base is None:
            return self.note_unknown(f"attribute {attr} of None", node, env)
        if isinstance(base, FuncVal):
            if attr == "py_func":
                return base
            return self.note_unknown(f"function attribute {attr}", node, env)
        return self.note_unknown(f"attribute {attr} of {type(base).__name__}", node, env)

    def set_attr(self, base, attr: str, value, env: Env, node=None):
        if isinstance(base, Obj):
            setter = base.cls.find_setter(attr)
            if setter is not None:
                self.call_function(setter, [base, value], {}, env, node)
                return
            base.fields[attr] = value
            return
        if is_term(base) and attr in ("name", "attrs", "index", "encoding"):
            return  # metadata only; not part of the term language
        self.note_unknown(f"attribute store {attr} on {type(base).__name__}", node, env)

    # ------------------------------------------------------------------ subscripts
    def index_term(self, idx) -> sp.Basic:
        return to_term(idx)

    def get_item(self, base, idx, env: Env, node=None):
        if isinstance(base, (tuple, list, str)):
            i = as_int(idx)
            if i is not None:
                try:
                    return base[i]
                except IndexError:
                    return self.note_unknown("index out of range", node, env)
            if isinstance(idx, slice):
                lo, hi, st = (as_int(x) if x is not None else None for x in (idx.start, idx.stop, idx.step))
                if all(x is None or isinstance(x, int) for x in (lo, hi, st)) and \
                        (idx.start is None or lo is not None) and (idx.stop is None or hi is not None):
                    return base[slice(lo, hi, st)]
            if isinstance(base, str):
                return op("item", Str(base), to_term(idx))
            return op("item", to_term(base), to_term(idx))
        if isinstance(base, dict):
            key = idx if isinstance(idx, (str, int, bool)) or idx is None else (
                T.str_of(idx) if T.is_str_symbol(idx) else idx)
            try:
                if key in base:
                    return base[key]
            except TypeError:
                pass
            if is_term(key) and not key.is_number and not T.is_str_symbol(key):
                # a table built with one entry per element of X ({name: .. for name in X}) read with an element of X: that entry
                if fname(key) == "elem" and len(key.args) == 2:
                    fam = [k_ for k_ in base if is_term(k_) and k_ == op("elem", key.args[0])]
                    if len(fam) == 1:
                        return base[fam[0]]
                # symbolic key into a concrete dict
                return op("item", to_term(base), key)
            return self.note_unknown(f"missing dict key {key!r}", node, env)
        if isinstance(base, Obj):
            m = base.cls.find_method("__getitem__")
            if m is not None:
                return self.call_function(m, [base, idx], {}, env, node)
        if isinstance(base, DatasetVal):
            key = T.str_of(idx) if (isinstance(idx, str) or T.is_str_symbol(idx)) else idx
            try:
                if key in base.items:
                    return base.items[key]
            except TypeError:
                pass
            for k, v in base.items.items():
                if is_term(k) and is_term(key) and k == key:
                    return v
            if isinstance(key, str):
                for k, v in base.items.items():
                    r = self.instantiate_family(k, v, key)
                    if r is not MISSING:
                        return r
            return op("item", base.as_term(), to_term(idx))
        if is_term(base):
            return self.lib.term_getitem(self, base, idx, env, node)
        if isinstance(base, Ext):
            return base  # typing generics etc.
        return self.note_unknown(f"subscript of {type(base).__name__}", node, env)

    def instantiate_family(self, k, v, key: str):
        """A mapping entry added per iteration of a symbolic loop (key = a term over the iterated name)
        instantiated for one concrete name."""
        if not (is_term(k) and fname(k) == "elem" and is_term(v)):
            return MISSING
        inst = v.xreplace({k: Str(key)})
        while fname(inst) == "guarded":
            c = inst.args[0]
            neg = False
            if fname(c) == "not_":
                neg, c = True, c.args[0]
            if fname(c) == "contains" and isinstance(c.args[0], sp.Tuple) and T.is_str_symbol(c.args[1]):
                val = c.args[1] in c.args[0].args
                if neg:
                    val = not val
                if not val:
                    return MISSING
                inst = inst.args[1]
            else:
                return MISSING
        return inst

    # ------------------------------------------------------------------ expressions
    def eval(self, node: ast.expr, env: Env):
        meth = getattr(self, "ev_" + type(node).__name__, None)
        if meth is None:
            return self.note_unknown(f"expr {type(node).__name__}", node, env)
        return meth(node, env)

    def ev_Constant(self, node, env):
        v = node.value
        if v is None or isinstance(v, (str, bool)):
            return v
        if isinstance(v, (int, float, complex)):
            return num(v)
        if v is Ellipsis:
            return T.ELLIPSIS_T
        if isinstance(v, bytes):
            return v.decode("latin1")
        return self.note_unknown("constant", node, env)

    def ev_Name(self, node, env):
        v = env.lookup(node.id)
        if v is not MISSING:
            return v
        v = self.global_value(env.module, node.id)
        if v is not MISSING:
            return v
        return self.note_unknown(f"unresolved name {node.id}", node, env)

    def ev_Attribute(self, node, env):
        base = self.eval(node.value, env)
        return self.get_attr(base, node.attr, env, node)

    def ev_Subscript(self, node, env):
        base = self.eval(node.value, env)
        idx = self.eval_index(node.slice, env)
        return self.get_item(base, idx, env, node)

    def eval_index(self, s, env):
        if isinstance(s, ast.Slice):
            return slice(
                self.eval(s.lower, env) if s.lower else None,
                self.eval(s.upper, env) if s.upper else None,
                self.eval(s.step, env) if s.step else None,
            )
        if isinstance(s, ast.Tuple):
            return tuple(self.eval_index(e, env) for e in s.elts)
        return self.eval(s, env)

    def ev_Tuple(self, node, env):
        out = []
        for e in node.elts:
            if isinstance(e, ast.Starred):
                v = self.eval(e.value, env)
                if isinstance(v, (tuple, list)):
                    out.extend(v)
                else:
                    out.append(op("star", to_term(v)))
            else:
                out.append(self.eval(e, env))
        return tuple(out)

    def ev_List(self, node, env):
        return list(self.ev_Tuple(node, env))

    def ev_Set(self, node, env):
        return list(self.ev_Tuple(node, env))

    def ev_Dict(self, node, env):
        d = {}
        for k, v in zip(node.keys, node.values):
            if k is None:
                sub = self.eval(v, env)
                if isinstance(sub, dict):
                    d.update(sub)
                else:
                    d[Unknown("**")] = sub
                continue
            kv = self.eval(k, env)
            if T.is_str_symbol(kv):
                kv = T.str_of(kv)
            d[kv] = self.eval(v, env)
        return d

    def ev_JoinedStr(self, node, env):
        parts = []
        concrete = True
        for v in node.values:
            if isinstance(v, ast.Constant):
                parts.append(str(v.value))
            else:
                x = self.eval(v.value, env)
                if T.is_str_symbol(x):
                    x = T.str_of(x)
                if isinstance(x, (int, sp.Integer)) and not isinstance(x, bool) and v.format_spec is None and v.conversion == -1:
                    x = str(int(x))         # a concrete integer formats to its digits
                if isinstance(x, str):
                    parts.append(x)
                else:
                    concrete = False
                    parts.append(to_term(x))
        if concrete:
            return "".join(parts)
        return op("fstr", *[Str(p) if isinstance(p, str) else p for p in parts])

    def ev_Lambda(self, node, env):
        return LambdaVal(node, env)

    def _yield_sink(self, env):
        e = env
        while e is not None:
            if hasattr(e, "yields"):
                return e.yields
            e = e.parent if e.parent is not None and e.parent.func is env.func else None
        return None

    def ev_Yield(self, node, env):
        sink = self._yield_sink(env)
        v = self.eval(node.value, env) if node.value is not None else None
        if sink is None:
            return self.note_unknown("yield outside a generator frame", node, env)
        if env.pathcond != TRUE_T:
            sink.append(GuardedYield(env.pathcond, v))
        else:
            sink.append(v)
        return None

    def ev_YieldFrom(self, node, env):
        sink = self._yield_sink(env)
        v = self.eval(node.value, env)
        if sink is None:
            return self.note_unknown("yield from outside a generator frame", node, env)
        if isinstance(v, (list, tuple)):
            sink.extend(v)
        else:
            sink.append(op("yield_from", to_term(v)))
        return None

    def ev_Starred(self, node, env):
        return op("star", to_term(self.eval(node.value, env)))

    def ev_NamedExpr(self, node, env):
        v = self.eval(node.value, env)
        env.vars[node.target.id] = v
        return v

    def ev_IfExp(self, node, env):
        c = self.eval(node.test, env)
        t = self.known(c, env)
        if t is True:
            return self.eval(node.body, env)
        if t is False:
            return self.eval(node.orelse, env)
        a = self.eval(node.body, env)
        b = self.eval(node.orelse, env)
        return self.merge_values(to_term(c), a, b)

    def ev_UnaryOp(self, node, env):
        v = self.eval(node.operand, env)
        if isinstance(node.op, ast.Not):
            t = truth(v)
            if t is not None:
                return not t
            return NOT(v)
        if isinstance(node.op, ast.USub):
            if is_term(v):
                return -v
        if isinstance(node.op, ast.UAdd):
            return v
        if isinstance(node.op, ast.Invert):
            if isinstance(v, bool):
                return not v
            return NOT(v)
        return self.note_unknown("unary op", node, env)

    def ev_BoolOp(self, node, env):
        is_and = isinstance(node.op, ast.And)
        acc = []
        for e in node.values:
            v = self.eval(e, env)
            t = truth(v)
            if t is None:
                acc.append(v)
                continue
            if is_and and t is False:
                return v if not acc else FALSE_T
            if (not is_and) and t is True:
                return v if not acc else TRUE_T
            last = v
        if not acc:
            return last
        return AND(*acc) if is_and else OR(*acc)

    def ev_Compare(self, node, env):
        left = self.eval(node.left, env)
        results = []
        for o, rnode in zip(node.ops, node.comparators):
            right = self.eval(rnode, env)
            results.append(self.compare(o, left, right, env, node))
            left = right
        if len(results) == 1:
            return results[0]
        ts = [truth(r) for r in results]
        if all(t is not None for t in ts):
            return all(ts)
        return AND(*[to_term(r) for r in results])

    def compare(self, o, a, b, env, node):
        if isinstance(o, (ast.Is, ast.IsNot)):
            neg = isinstance(o, ast.IsNot)
            if b is None:
                if a is None:
                    return not neg
                if is_term(a) and (a.free_symbols - {s for s in a.free_symbols if False}) and not a.is_number:
                    known = self.nonnull_hint(a)
                    if known:
                        return neg
                    r = self.isnone_term(a)
                    if r is True or r is False:
                        return (not r) if neg else r
                    return NOT(r) if neg else r
                return neg  # concrete non-None value
            if a is None:
                return neg if not (is_term(b)) else (NOT(op("isnone", b)) if neg else op("isnone", b))
            same = a is b or (is_term(a) and is_term(b) and a == b)
            return (not same) if neg else same
        if isinstance(o, (ast.In, ast.NotIn)):
            neg = isinstance(o, ast.NotIn)
            r = self.contains(b, a, env, node)
            t = truth(r)
            if t is not None:
                return (not t) if neg else t
            return NOT(r) if neg else r
        kind = {ast.Eq: "eq", ast.NotEq: "ne", ast.Lt: "lt", ast.LtE: "le", ast.Gt: "gt", ast.GtE: "ge"}[type(o)]
        # concrete comparisons
        if isinstance(a, (str, bool, tuple, list, dict)) or a is None or isinstance(b, (str, bool, tuple, list, dict)) or b is None:
            if not is_term(a) and not is_term(b):
                try:
                    return {"eq": a == b, "ne": a != b}[kind] if kind in ("eq", "ne") else \
                        {"lt": a < b, "le": a <= b, "gt": a > b, "ge": a >= b}[kind]
                except Exception:
                    return self.note_unknown("comparison", node, env)
            # one symbolic, one python value (e.g. method == "spline")
            ta, tb = to_term(a), to_term(b)
            if kind in ("eq", "ne") and (ta.is_number or tb.is_number) and (isinstance(a, str) or isinstance(b, str)):
                return kind == "ne"
            return CMP(kind, ta, tb)
        if isinstance(a, Value) or isinstance(b, Value):
            if kind in ("eq", "ne"):
                same = a is b
                if isinstance(a, ClassVal) and isinstance(b, ClassVal):
                    same = a.cls is b.cls
                return same if kind == "eq" else not same
            return self.note_unknown("comparison of objects", node, env)
        ta, tb = to_term(a), to_term(b)
        if ta.is_number and tb.is_number and ta.is_comparable and tb.is_comparable:
            try:
                res = {"eq": sp.Eq(ta, tb), "ne": sp.Ne(ta, tb), "lt": ta < tb, "le": ta <= tb,
                       "gt": ta > tb, "ge": ta >= tb}[kind]
                if res == sp.true:
                    return True
                if res == sp.false:
                    return False
            except Exception:
                pass
        if kind in ("eq", "ne") and ta == tb and not T.has_unknown(ta):
            return kind == "eq"
        return CMP(kind, ta, tb)

    def nonnull_hint(self, a) -> bool:
        return a in self.nonnull

    # results of these library calls are objects, never None
    NONNULL_RESULTS = ("m_astimezone", "m_replace", "dt_datetime_fromtimestamp", "dt_datetime_fromisoformat", "dt_datetime_strptime",
                       "dt_datetime", "datetime64", "m_strftime", "comp_list")

    def isnone_term(self, a):
        """`a is None` for a term: decided on each leaf of a selection, left symbolic on inputs"""
        a = to_term(a)
        if a == NONE_T:
            return True
        if fname(a) in self.NONNULL_RESULTS or a in self.nonnull or a.is_number:
            return False
        if fname(a) == "ite":
            x, y = self.isnone_term(a.args[1]), self.isnone_term(a.args[2])
            if x is y and isinstance(x, bool):
                return x
            if x is True and y is False:
                return a.args[0]
            if x is False and y is True:
                return NOT(a.args[0])
            tx = TRUE_T if x is True else (FALSE_T if x is False else x)
            ty = TRUE_T if y is True else (FALSE_T if y is False else y)
            return ITE(a.args[0], tx, ty)
        return op("isnone", a)

    def contains(self, container, item, env, node):
        if is_term(container) and fname(container) == "ite":
            container = T.strip_never(container)    # the other paths raised
        if isinstance(container, sp.Tuple):
            container = list(container.args)        # a literal sequence that travelled through a term
        if isinstance(container, dict):
            key = T.str_of(item) if (isinstance(item, str) or T.is_str_symbol(item)) else item
            if isinstance(key, (str, int, bool)) or key is None:
                return key in container
            return op("contains", to_term(container), to_term(item))
        if isinstance(container, (tuple, list)):
            # string symbols and python strings are the same constants
            if T.is_str_symbol(item):
                item = T.str_of(item)
            if any(T.is_str_symbol(x) for x in container if is_term(x)):
                container = [T.str_of(x) if (is_term(x) and T.is_str_symbol(x)) else x for x in container]
            if isinstance(item, str) or item is None or isinstance(item, bool):
                if all(isinstance(x, (str, bool)) or x is None or (is_term(x) and x.is_number) for x in container):
                    return item in container
            if is_term(item) and item.is_number and all(is_term(x) and x.is_number for x in container):
                return any(item == x for x in container)
            return op("contains", to_term(container), to_term(item))
        if isinstance(container, str):
            if isinstance(item, str):
                return item in container
            return op("contains", Str(container), to_term(item))
        if isinstance(container, DatasetVal):
            key = T.str_of(item) if (isinstance(item, str) or T.is_str_symbol(item)) else item
            if isinstance(key, str):
                if key in container.items:
                    return True
                if all(isinstance(k, str) for k in container.items):
                    return False
            return op("contains", container.as_term(), to_term(item))
        if isinstance(container, Obj):
            m = container.cls.find_method("__contains__")
            if m is not None:
                return self.call_function(m, [container, item], {}, env, node)
        return op("contains", to_term(container), to_term(item))

    def ev_BinOp(self, node, env):
        a = self.eval(node.left, env)
        b = self.eval(node.right, env)
        return self.binop(node.op, a, b, env, node)

    def binop(self, o, a, b, env, node):
        # python-level containers / strings
        if isinstance(o, ast.Add):
            if isinstance(a, str) and isinstance(b, str):
                return a + b
            if isinstance(a, str) or isinstance(b, str) or fname(a) == "concat" or fname(b) == "concat":
                # string concatenation is ordered: keep it out of the commutative algebra
                parts = []
                for x in (a, b):
                    tx = to_term(x)
                    parts.extend(tx.args if fname(tx) == "concat" else [tx])
                return op("concat", *parts)
            if isinstance(a, list) and isinstance(b, list):
                return a + b
            if isinstance(a, tuple) and isinstance(b, tuple):
                return a + b
        if isinstance(o, ast.Add) and (isinstance(a, (list, tuple)) or isinstance(b, (list, tuple))):
            return op("seqcat", to_term(a), to_term(b))
        if isinstance(o, ast.Mult):
            if isinstance(a, (list, tuple, str)) and as_int(b) is not None:
                return a * as_int(b)
            if isinstance(b, (list, tuple, str)) and as_int(a) is not None:
                return b * as_int(a)
        if isinstance(o, ast.BitOr) and isinstance(a, dict) and isinstance(b, dict):
            d = dict(a)
            d.update(b)
            return d
        if isinstance(o, ast.Mod) and isinstance(a, str):
            return op("fstr", Str(a), to_term(b))
        if isinstance(a, bool) and isinstance(b, bool):
            if isinstance(o, ast.BitAnd):
                return a and b
            if isinstance(o, ast.BitOr):
                return a or b
        ta, tb = to_term(a), to_term(b)
        if isinstance(a, Obj):
            dn = {ast.Add: "__add__", ast.Sub: "__sub__", ast.Mult: "__mul__"}.get(type(o))
            m = a.cls.find_method(dn) if dn else None
            if m is not None:
                return self.call_function(m, [a, b], {}, env, node)
        try:
            if isinstance(o, ast.Add):
                return ta + tb
            if isinstance(o, ast.Sub):
                return ta - tb
            if isinstance(o, ast.Mult):
                return ta * tb
            if isinstance(o, ast.Div):
                return ta / tb
            if isinstance(o, ast.Pow):
                return ta ** tb
            if isinstance(o, ast.Mod):
                if ta.is_number and tb.is_number and ta.is_Rational and tb.is_Rational and tb != 0:
                    return sp.Mod(ta, tb)
                return op("pymod", ta, tb)
            if isinstance(o, ast.FloorDiv):
                if ta.is_number and tb.is_number and ta.is_Rational and tb.is_Rational and tb != 0:
                    return sp.floor(ta / tb)
                return op("floordiv", ta, tb)
            if isinstance(o, ast.BitAnd):
                return AND(ta, tb)
            if isinstance(o, ast.BitOr):
                return OR(ta, tb)
            if isinstance(o, ast.MatMult):
                return op("matmul", ta, tb)
            if isinstance(o, ast.BitXor):
                return op("xor", ta, tb)
        except Exception as e:
            return self.note_unknown(f"binop failure {e}", node, env)
        return self.note_unknown("binop", node, env)

    def ev_Call(self, node, env):
        # super() special form
        if isinstance(node.func, ast.Name) and node.func.id == "super":
            selfv = env.lookup("self")
            cls = env.func.cls if env.func is not None else None
            if cls is not None and selfv is not MISSING:
                return SuperVal(cls, selfv)
        fv = self.eval(node.func, env)
        args: List[Any] = []
        for a in node.args:
            if isinstance(a, ast.Starred):
                v = self.eval(a.value, env)
                if isinstance(v, (tuple, list)):
                    args.extend(v)
                else:
                    args.append(op("star", to_term(v)))
            else:
                args.append(self.eval(a, env))
        kwargs: Dict[str, Any] = {}
        for kw in node.keywords:
            v = self.eval(kw.value, env)
            if kw.arg is None:
                if isinstance(v, dict):
                    for k, x in v.items():
                        ks = k if isinstance(k, str) else T.str_of(k)
                        if ks is None:
                            kwargs[f"**{len(kwargs)}"] = x
                        else:
                            kwargs[ks] = x
                else:
                    kwargs[f"**{len(kwargs)}"] = op("starstar", to_term(v))
            else:
                kwargs[kw.arg] = v
        out_kw = next((kw for kw in node.keywords if kw.arg == "out" and isinstance(kw.value, ast.Name)), None)
        if out_kw is not None and isinstance(fv, Ext) and is_term(kwargs.get("out")):
            # numpy `out=` / `where=`: the result is written into the named buffer (only where the mask holds)
            old = kwargs.pop("out")
            mask = kwargs.pop("where", None)
            r = self.call(fv, args, kwargs, env, node)
            if mask is not None and is_term(r):
                new = self.lib.term_setitem(self, to_term(old), to_term(mask), self.lib.term_getitem(self, to_term(r), to_term(mask), env, node),
                                            env, node)
            else:
                new = r
            self.assign_target(ast.Name(id=out_kw.value.id, ctx=ast.Store()), new, env, node)
            return new
        return self.call(fv, args, kwargs, env, node)

    def _comp(self, node, env, kind):
        # single or nested generators over concrete iterables are unrolled; symbolic -> map term
        def rec(gens, e, out):
            if not gens:
                if kind == "dict":
                    k = self.eval(node.key, e)
                    if T.is_str_symbol(k):
                        k = T.str_of(k)
                    out.append((k, self.eval(node.value, e)))
                else:
                    out.append(self.eval(node.elt, e))
                return True
            g = gens[0]
            it = self.eval(g.iter, e)
            seq = self.iterate(it, e, g.iter)
            if seq is None:
                return False
            for x in seq:
                e2 = Env(self, e.func, e.module, e)
                self.assign_target(g.target, x, e2, node)
                ok = True
                for cnd in g.ifs:
                    t = truth(self.eval(cnd, e2))
                    if t is None:
                        return False
                    if not t:
                        ok = False
                        break
                if ok:
                    if not rec(gens[1:], e2, out):
                        return False
            return True

        out: List[Any] = []
        if rec(node.generators, env, out):
            if kind == "dict":
                return dict(out)
            return out
        # symbolic: one abstract element
        g = node.generators[0]
        it = self.eval(g.iter, env)
        e2 = Env(self, env.func, env.module, env)
        elem = op("elem", to_term(it))
        self.assign_target(g.target, elem, e2, node)
        conds = [to_term(self.eval(c, e2)) for c in g.ifs]
        if kind == "dict":
            # same representation as a loop that stores one entry per element: a family entry keyed by a term over the element
            kt = to_term(self.eval(node.key, e2))
            v_raw = self.eval(node.value, e2)
            if isinstance(v_raw, list) and not conds:
                return {kt: v_raw}          # {x: [] for x in X}: one (growable) list per element
            vt = to_term(v_raw)
            return {kt: op("guarded", AND(*conds), vt) if conds else vt}
        else:
            body = to_term(self.eval(node.elt, e2))
        return op("comp_" + kind, body, to_term(it), AND(*conds) if conds else TRUE_T)

    def ev_ListComp(self, node, env):
        return self._comp(node, env, "list")

    def ev_GeneratorExp(self, node, env):
        return self._comp(node, env, "list")

    def ev_SetComp(self, node, env):
        return self._comp(node, env, "list")

    def ev_DictComp(self, node, env):
        return self._comp(node, env, "dict")

    def iterate(self, it, env, node=None) -> Optional[List[Any]]:
        """Concrete element list of an iterable value, or None when symbolic."""
        if isinstance(it, (tuple, list)):
            return list(it)
        if isinstance(it, dict):
            return list(it.keys())
        if isinstance(it, str):
            return list(it)
        if isinstance(it, DatasetVal):
            return list(it.items.keys())
        if is_term(it):
            f = fname(it)
            if f == "range":
                vals = [as_int(a) for a in it.args]
                if all(v is not None for v in vals):
                    r = range(*vals)
                    if len(r) <= MAX_UNROLL:
                        return [sp.Integer(i) for i in r]
                return None
            if isinstance(it, sp.Tuple):
                return list(it.args)
        return None

    # ------------------------------------------------------------------ assignment
    def assign_target(self, target, value, env: Env, node=None):
        if isinstance(target, ast.Name):
            env.vars[target.id] = value
        elif isinstance(target, (ast.Tuple, ast.List)):
            n = len(target.elts)
            if isinstance(value, (tuple, list)) and len(value) == n and not any(
                    isinstance(e, ast.Starred) for e in target.elts):
                for t, v in zip(target.elts, value):
                    self.assign_target(t, v, env, node)
            elif isinstance(value, sp.Tuple) and len(value.args) == n:
                for t, v in zip(target.elts, value.args):
                    self.assign_target(t, v, env, node)
            else:
                tv = to_term(value)
                for i, t in enumerate(target.elts):
                    if isinstance(t, ast.Starred):
                        self.assign_target(t.value, op("rest", tv, sp.Integer(i)), env, node)
                    else:
                        self.assign_target(t, self.lib.term_getitem(self, tv, sp.Integer(i), env, node), env, node)
        elif isinstance(target, ast.Attribute) and target.attr in ("real", "imag") and isinstance(target.value, ast.Name) \
                and is_term(env.lookup(target.value.id)):
            # z.real = a / z.imag = b on an array held in a local: the other part is kept (an uninitialised buffer has none yet)
            old = to_term(env.lookup(target.value.id))
            blank = fname(old) in ("empty", "zeros", "empty_like", "zeros_like")
            re_, im_ = (sp.Integer(0), sp.Integer(0)) if blank else (old, sp.Integer(0))
            if not blank and old.has(sp.I):
                eo = sp.expand(old)
                im_ = eo.coeff(sp.I)
                re_ = eo - sp.I * im_
            if target.attr == "real":
                re_ = to_term(value)
            else:
                im_ = to_term(value)
            self.assign_target(ast.Name(id=target.value.id, ctx=ast.Store()), re_ + sp.I * im_, env, node)
        elif isinstance(target, ast.Attribute):
            base = self.eval(target.value, env)
            self.set_attr(base, target.attr, value, env, target)
        elif isinstance(target, ast.Subscript):
            self.store_subscript(target, value, env)
        elif isinstance(target, ast.Starred):
            self.assign_target(target.value, value, env, node)
        else:
            self.note_unknown("assignment target", target, env)

    def store_subscript(self, target: ast.Subscript, value, env: Env):
        base = self.eval(target.value, env)
        idx = self.eval_index(target.slice, env)
        if isinstance(base, dict):
            key = T.str_of(idx) if T.is_str_symbol(idx) else idx
            try:
                base[key] = value
                return
            except TypeError:
                pass
        if isinstance(base, list):
            i = as_int(idx)
            if i is not None and -len(base) <= i < len(base):
                base[i] = value
                return
        if isinstance(base, Obj):
            m = base.cls.find_method("__setitem__")
            if m is not None:
                self.call_function(m, [base, idx, value], {}, env, target)
                return
        if isinstance(base, DatasetVal):
            key = T.str_of(idx) if (isinstance(idx, str) or T.is_str_symbol(idx)) else idx
            base.items[key] = value
            return
        if is_term(base):
            newv = self.lib.term_setitem(self, base, idx, value, env, target)
            self.stores.append(StoreRecord(
                func=env.func.qualname if env.func else "", loc=self.loc(env, target),
                target=ast.unparse(target.value), index=to_term(idx), value=to_term(value),
                cond=env.pathcond, loopvars=tuple(env.loopvars)))
            self.rebind(target.value, newv, env)
            return
        self.note_unknown("subscript store", target, env)

    def rebind(self, expr: ast.expr, newv, env: Env):
        """Write a new value back to the l-value expression (functional update of arrays)."""
        if isinstance(expr, ast.Name):
            # update where bound (local env chain)
            e: Optional[Env] = env
            while e is not None:
                if expr.id in e.vars:
                    e.vars[expr.id] = newv
                    return
                e = e.parent
            env.vars[expr.id] = newv
        elif isinstance(expr, ast.Attribute):
            base = self.eval(expr.value, env)
            if isinstance(base, Obj):
                base.fields[expr.attr] = newv
            elif is_term(base):
                # e.g. spectrum.dataset[...] = ... where spectrum is symbolic
                self.rebind(expr.value, op("setattr", base, Str(expr.attr), to_term(newv)), env)
        elif isinstance(expr, ast.Subscript):
            base = self.eval(expr.value, env)
            idx = self.eval_index(expr.slice, env)
            if isinstance(base, (dict, list)):
                try:
                    k = T.str_of(idx) if T.is_str_symbol(idx) else (as_int(idx) if isinstance(base, list) else idx)
                    base[k] = newv
                    return
                except Exception:
                    pass
            if is_term(base):
                self.rebind(expr.value, self.lib.term_setitem(self, base, idx, newv, env, expr), env)

    # ------------------------------------------------------------------ statements
    def exec_block(self, stmts: List[ast.stmt], env: Env) -> Flow:
        flow = Flow(env=env)
        for st in stmts:
            if flow.env is None:
                break
            f = self.exec_stmt(st, flow.env)
            flow.env = f.env
            flow.returns.extend(f.returns)
            flow.breaks.extend(f.breaks)
            flow.conts.extend(f.conts)
        return flow

    def exec_stmt(self, st: ast.stmt, env: Env) -> Flow:
        meth = getattr(self, "st_" + type(st).__name__, None)
        if meth is None:
            self.note_unknown(f"stmt {type(st).__name__}", st, env)
            return Flow(env=env)
        return meth(st, env)

    def st_Expr(self, st, env):
        if isinstance(st.value, ast.Constant):
            return Flow(env=env)
        self.eval(st.value, env)
        return Flow(env=env)

    def st_Pass(self, st, env):
        return Flow(env=env)

    def st_Global(self, st, env):
        return Flow(env=env)

    st_Nonlocal = st_Global
    st_Import = st_Global
    st_ImportFrom = st_Global

    def st_Assert(self, st, env):
        return Flow(env=env)

    def st_Delete(self, st, env):
        return Flow(env=env)

    def st_Assign(self, st, env):
        v = self.eval(st.value, env)
        for t in st.targets:
            self.assign_target(t, v, env, st)
        return Flow(env=env)

    def st_AnnAssign(self, st, env):
        if st.value is not None:
            v = self.eval(st.value, env)
            self.assign_target(st.target, v, env, st)
        return Flow(env=env)

    def st_AugAssign(self, st, env):
        cur = self.eval(st.target, env) if not isinstance(st.target, ast.Name) else self.ev_Name(st.target, env)
        rhs = self.eval(st.value, env)
        if isinstance(cur, list) and isinstance(st.op, ast.Add) and isinstance(rhs, list):
            cur.extend(rhs)
            return Flow(env=env)
        v = self.binop(st.op, cur, rhs, env, st)
        self.assign_target(st.target, v, env, st)
        return Flow(env=env)

    def st_Return(self, st, env):
        v = self.eval(st.value, env) if st.value is not None else None
        return Flow(env=None, returns=[(env.pathcond, v)])

    def st_Raise(self, st, env):
        desc = ast.unparse(st.exc) if st.exc is not None else "re-raise"
        self.raises.append(RaiseRecord(
            func=env.func.qualname if env.func else "", loc=self.loc(env, st), cond=env.pathcond,
            exc=desc[:120], caught=self.try_depth > 0))
        return Flow(env=None)

    def st_Break(self, st, env):
        return Flow(env=None, breaks=[(env.pathcond, env)])

    def st_Continue(self, st, env):
        return Flow(env=None, conts=[(env.pathcond, env)])

    def st_FunctionDef(self, st, env):
        f = None
        if env.func is not None:
            f = self.p.nested_function(env.func, st.name)
        if f is None:
            f = Function(name=st.name, qualname=(env.func.qualname if env.func else env.module.name) + ".<locals>." + st.name,
                         module=env.module, node=st, parent=env.func)
        env.vars[st.name] = FuncVal(f, closure=env)
        return Flow(env=env)

    def st_ClassDef(self, st, env):
        self.note_unknown("local class", st, env)
        return Flow(env=env)

    def known(self, c, env: Env):
        """truth of condition c under the facts of the current path, or None"""
        t = truth(c)
        if t is not None or not is_term(c):
            return t
        for pred in self.assume_true:
            try:
                if pred(c):
                    return True
                if pred(NOT(c)):
                    return False
            except Exception:
                pass
        facts = set(env.pathcond.args) if fname(env.pathcond) == "and_" else {env.pathcond}
        if c in facts:
            return True
        if NOT(c) in facts:
            return False
        if fname(c) == "and_":
            vals = [self.known(a, env) for a in c.args]
            if any(v is False for v in vals):
                return False
            if all(v is True for v in vals):
                return True
        if fname(c) == "or_":
            vals = [self.known(a, env) for a in c.args]
            if any(v is True for v in vals):
                return True
            if all(v is False for v in vals):
                return False
        return None

    def st_If(self, st, env):
        c = self.eval(st.test, env)
        t = self.known(c, env)
        if t is True:
            return self.exec_block(st.body, env)
        if t is False:
            return self.exec_block(st.orelse, env)
        ct = to_term(c)
        e1 = env.fork()
        e1.pathcond = AND(env.pathcond, ct)
        e2 = env.fork()
        e2.pathcond = AND(env.pathcond, NOT(ct))
        f1 = self.exec_block(st.body, e1)
        f2 = self.exec_block(st.orelse, e2)
        out = Flow(env=None)
        out.returns = f1.returns + f2.returns
        out.breaks = f1.breaks + f2.breaks
        out.conts = f1.conts + f2.conts
        if f1.env is not None and f2.env is not None:
            out.env = self.merge_envs(ct, f1.env, f2.env, env)
        elif f1.env is not None:
            out.env = f1.env
        elif f2.env is not None:
            out.env = f2.env
        if out.env is not None and (f1.env is None or f2.env is None):
            # one arm left: the path condition keeps the branch restriction
            pass
        elif out.env is not None:
            out.env.pathcond = env.pathcond
        return out

    def merge_envs(self, c, ea: Env, eb: Env, base: Env) -> Env:
        out = base.fork()
        names = list(dict.fromkeys(list(ea.vars.keys()) + list(eb.vars.keys())))
        for n in names:
            a = ea.vars.get(n, MISSING)
            b = eb.vars.get(n, MISSING)
            if a is MISSING or b is MISSING:
                have = a if b is MISSING else b
                out.vars[n] = op("maybe_unbound", to_term(have)) if is_term(have) or True else have
                if not is_term(have):
                    out.vars[n] = have  # objects: keep (definite-assignment is a separate CFG rule)
                continue
            out.vars[n] = self.merge_store(c, a, b)
        out.pathcond = base.pathcond
        return out

    def merge_store(self, c, a, b):
        """merge with normalisation ite(c, store(x,i,A), store(x,i,B)) -> store(x,i,ite(c,A,B))"""
        if is_term(a) and is_term(b):
            if fname(a) == "store" and fname(b) == "store" and a.args[0] == b.args[0] and a.args[1] == b.args[1]:
                return op("store", a.args[0], a.args[1], ITE(c, a.args[2], b.args[2]))
        return self.merge_values(c, a, b)

    def st_With(self, st, env):
        for item in st.items:
            v = self.eval(item.context_expr, env)
            if item.optional_vars is not None:
                self.assign_target(item.optional_vars, v, env, st)
        return self.exec_block(st.body, env)

    def st_Try(self, st, env):
        pre = env.fork()
        self.try_depth += 1
        n_raises_before = len(self.raises)
        try:
            fb = self.exec_block(st.body, env)
        finally:
            self.try_depth -= 1
        # returns of the protected body happen only if no exception was raised before them
        body_returns = list(fb.returns)
        if st.handlers and body_returns:
            noexc = NOT(sp.Symbol(f"exc@{self.loc(env, st.handlers[0])}"))
            body_returns = [(AND(c, noexc), v) for c, v in body_returns]
        out = Flow(env=fb.env, returns=body_returns, breaks=list(fb.breaks), conts=list(fb.conts))
        if fb.env is not None and st.orelse:
            fo = self.exec_block(st.orelse, fb.env)
            out.env = fo.env
            out.returns += fo.returns
            out.breaks += fo.breaks
            out.conts += fo.conts
        for h in st.handlers:
            he = pre.fork()
            exc_sym = sp.Symbol(f"exc@{self.loc(env, h)}")
            he.pathcond = AND(pre.pathcond, exc_sym)
            if h.name:
                he.vars[h.name] = op("exception", exc_sym)
            fh = self.exec_block(h.body, he)
            out.returns += fh.returns
            out.breaks += fh.breaks
            out.conts += fh.conts
            if fh.env is not None:
                if out.env is not None:
                    out.env = self.merge_envs(exc_sym, fh.env, out.env, pre)
                else:
                    out.env = fh.env
        if st.finalbody and out.env is not None:
            ff = self.exec_block(st.finalbody, out.env)
            out.env = ff.env
            out.returns += ff.returns
        return out

    # -- loops ---------------------------------------------------------------
    def assigned_names(self, stmts: List[ast.stmt]) -> List[str]:
        names: List[str] = []

        def add(n):
            if n not in names:
                names.append(n)

        def base_name(e):
            while isinstance(e, (ast.Subscript, ast.Attribute)):
                e = e.value
            return e.id if isinstance(e, ast.Name) else None

        def tgt(t):
            if isinstance(t, ast.Name):
                add(t.id)
            elif isinstance(t, (ast.Tuple, ast.List)):
                for x in t.elts:
                    tgt(x)
            elif isinstance(t, ast.Starred):
                tgt(t.value)
            elif isinstance(t, (ast.Subscript, ast.Attribute)):
                b = base_name(t)
                if b:
                    add(b)

        for st in stmts:
            for n in ast.walk(st):
                if isinstance(n, ast.Assign):
                    for t in n.targets:
                        tgt(t)
                elif isinstance(n, (ast.AugAssign, ast.AnnAssign)):
                    tgt(n.target)
                elif isinstance(n, (ast.For, ast.comprehension)):
                    tgt(n.target)
                elif isinstance(n, ast.NamedExpr):
                    tgt(n.target)
                elif isinstance(n, ast.withitem) and n.optional_vars is not None:
                    tgt(n.optional_vars)
        return names

    def st_For(self, st, env):
        it = self.eval(st.iter, env)
        seq = self.iterate(it, env, st.iter)
        if seq is not None:
            r = self.unrolled_for(st, seq, env)
            if r is not None:
                return r
        return self.symbolic_for(st, it, env)

    def unrolled_for(self, st, seq, env) -> Optional[Flow]:
        snapshot = env.fork()
        n_unknown = len(self.unknown_notes)
        out = Flow(env=env)
        broke = False
        for x in seq:
            if isinstance(x, GuardedYield):
                # `for v in gen(): body` where gen yields v only under a condition is `if cond: body` for that element
                e_then = out.env.fork()
                e_then.pathcond = AND(out.env.pathcond, to_term(x.cond))
                self.assign_target(st.target, x.value, e_then, st)
                f = self.exec_block(st.body, e_then)
                out.returns += f.returns
                if f.breaks or f.conts or f.env is None:
                    env.vars = snapshot.vars
                    del self.unknown_notes[n_unknown:]
                    return None
                out.env = self.merge_envs(to_term(x.cond), f.env, out.env, out.env)
                continue
            self.assign_target(st.target, x, out.env, st)
            f = self.exec_block(st.body, out.env)
            out.returns += f.returns
            if f.breaks or f.conts:
                # only concrete (unconditional relative to the iteration) break/continue supported
                conds = [c for c, _ in f.breaks + f.conts]
                if any(c != out.env.pathcond and c != env.pathcond for c in conds) and (
                        f.env is not None or len(f.breaks) + len(f.conts) > 1):
                    # symbolic break/continue: fall back to symbolic treatment
                    env.vars = snapshot.vars
                    del self.unknown_notes[n_unknown:]
                    return None
                if f.breaks and f.env is None and not f.conts:
                    out.env = f.breaks[0][1]
                    broke = True
                    break
                if f.conts and f.env is None and not f.breaks:
                    out.env = f.conts[0][1]
                    continue
            if f.env is None:
                if f.returns:
                    out.env = None
                    return out
                out.env = None
                return out
            out.env = f.env
        if not broke and st.orelse and out.env is not None:
            fo = self.exec_block(st.orelse, out.env)
            out.env = fo.env
            out.returns += fo.returns
        return out

    def loop_symbol(self, env: Env, st, name: str) -> sp.Symbol:
        fn = env.func.qualname if env.func else env.module.name
        return sp.Symbol(f"~i:{name}@{fn.split('.')[-1]}:{st.lineno}", integer=True)

    def symbolic_for(self, st, it, env: Env) -> Flow:
        carried_names = [n for n in self.assigned_names(st.body) if env.lookup(n) is not MISSING]
        # lists grown by `xs.append(e)` as a statement of the loop body are loop state too
        appended = [s_.value.func.value.id for s_ in st.body if isinstance(s_, ast.Expr) and isinstance(s_.value, ast.Call)
                    and isinstance(s_.value.func, ast.Attribute) and s_.value.func.attr == "append"
                    and isinstance(s_.value.func.value, ast.Name)]
        for n in appended:
            if n not in carried_names and isinstance(env.lookup(n), list):
                carried_names.append(n)
        pre = {n: env.lookup(n) for n in carried_names}
        benv = env.fork()
        carried_syms: Dict[str, sp.Symbol] = {}
        for n in carried_names:
            v = pre[n]
            if is_term(v) or isinstance(v, (bool, str)) or v is None:
                # scalars of any kind that the body reassigns are loop-carried state
                s = sp.Symbol(f"~c:{n}@{st.lineno}" + (f".{st._osuverif_depth}" if getattr(st, "_osuverif_depth", 0) else ""))
                carried_syms[n] = s
                benv.vars[n] = s
                pre[n] = to_term(v)
            elif isinstance(v, (list, dict)):
                benv.vars[n] = copy.copy(v)
            elif isinstance(v, DatasetVal):
                benv.vars[n] = v.copy()
        # loop variable(s)
        itt = to_term(it)
        tnames = [x.id for x in ast.walk(st.target) if isinstance(x, ast.Name)]
        lv = self.loop_symbol(env, st, tnames[0] if tnames else "it")
        f_it = fname(itt)
        if f_it in ("range", "prange"):
            elem: Any = lv
        elif f_it == "enumerate" and fname(itt.args[0]) == "range" and len(itt.args) == 1 and len(itt.args[0].args) in (1, 2):
            # enumerate(range(a, b)): the loop symbol is the value, the counter is value - a
            inner = itt.args[0]
            a0 = inner.args[0] if len(inner.args) == 2 else sp.Integer(0)
            elem = (lv - a0, lv)
            itt = inner
        elif f_it == "enumerate":
            elem = (lv, self.lib.term_getitem(self, itt.args[0], lv, env, st))
        elif f_it == "zip":
            elem = tuple(self.lib.term_getitem(self, a, lv, env, st) for a in itt.args)
            # equally long operands walked in step: the index runs over the leading axis of the first one
            a0 = itt.args[0]
            if fname(a0) == "item" and isinstance(a0.args[1], sp.Symbol) and str(a0.args[1]).startswith("~i:"):
                itt = op("range", op("item", op("shape", a0.args[0]), sp.Integer(1)))     # len(B[i]) == B.shape[1]
            else:
                itt = op("range", op("len", a0))
        elif f_it == "dict_items":
            elem = (op("key", itt.args[0], lv), op("val", itt.args[0], lv))
        else:
            elem = op("elem", itt, lv)
        self.assign_target(st.target, elem, benv, st)
        benv.loopvars = env.loopvars + [lv]
        fb = self.exec_block(st.body, benv)
        # merge fall-through with continue paths
        ends: List[Tuple[sp.Basic, Env]] = list(fb.conts)
        final_env: Optional[Env] = fb.env
        for c, e in reversed(ends):
            if final_env is None:
                final_env = e
            else:
                final_env = self.merge_envs(self.relative_cond(c, benv.pathcond), e, final_env, benv)
        has_break = bool(fb.breaks)
        out = Flow(env=env)
        out.returns = list(fb.returns)
        if final_env is None and not fb.breaks:
            # body always returns/raises: loop runs at most once
            out.env = env
            return out
        if final_env is None:
            final_env = fb.breaks[0][1]
        self.loops.append(LoopRecord(
            func=env.func.qualname if env.func else "", loc=self.loc(env, st), lv=lv, iter=itt,
            carried={n: (pre[n], carried_syms.get(n), final_env.vars.get(n, MISSING)) for n in carried_names},
            break_conds=[self.relative_cond(c, benv.pathcond) for c, _ in fb.breaks],
            return_conds=[self.relative_cond(c, benv.pathcond) for c, _ in fb.returns],
            has_else=bool(st.orelse), body_env=final_env))
        # lists kept in a per-element table ({x: [] for x in X}) that this loop over X appended to: the appended values are values
        # of the family entry, written over the family's own element elem(X)
        for n_, v_ in list(env.vars.items()):
            if isinstance(v_, dict):
                for k_, lst in v_.items():
                    if is_term(k_) and k_ == op("elem", itt) and isinstance(lst, list):
                        for j_, x_ in enumerate(lst):
                            if is_term(x_) and x_.has(op("elem", itt, lv)):
                                lst[j_] = x_.xreplace({op("elem", itt, lv): op("elem", itt)})
        for n in carried_names:
            orig = pre[n]
            fin = final_env.vars.get(n, MISSING)
            if n not in carried_syms:
                if isinstance(orig, dict) and isinstance(fin, dict) and all(
                        (k in fin and (fin[k] is orig[k] or fin[k] == orig[k])) for k in orig):
                    # entries added per iteration stay as a family keyed by a term over the loop variable
                    orig.update({k: v for k, v in fin.items() if k not in orig})
                    env.vars[n] = orig
                elif isinstance(orig, list) and isinstance(fin, list) and n in appended and appended.count(n) == 1 and not orig \
                        and len(fin) == 1 and not fb.breaks and not fb.conts and not fb.returns:
                    # xs = []; for x in it: xs.append(e(x))   is   [e(x) for x in it]
                    e_ = to_term(fin[0])
                    e_ = e_.xreplace({op("elem", itt, lv): op("elem", itt)})
                    if lv in e_.free_symbols or any(sy in e_.free_symbols for sy in carried_syms.values()):
                        env.vars[n] = self.note_unknown(f"list {n} appended with a loop-dependent element", st, env)
                    else:
                        env.vars[n] = op("comp_list", e_, itt, TRUE_T)
                elif isinstance(orig, (list, dict)):
                    env.vars[n] = self.note_unknown(f"python container {n} mutated in symbolic loop", st, env) \
                        if fin != orig else orig
                elif isinstance(orig, DatasetVal) and isinstance(fin, DatasetVal):
                    env.vars[n] = fin
                else:
                    env.vars[n] = fin if fin is not MISSING else orig
                continue
            s = carried_syms[n]
            if not is_term(fin):
                env.vars[n] = self.note_unknown(f"loop variable {n} not a term", st, env)
                continue
            env.vars[n] = self.summarise_loop(orig, s, fin, lv, itt, has_break)
        # new names first assigned inside the loop escape with their last-iteration value
        for n, v in final_env.vars.items():
            if n not in carried_names and n not in env.vars and n not in tnames:
                env.vars[n] = op("lastiter", to_term(v), lv) if is_term(v) else v
        for n in tnames:
            env.vars[n] = benv.vars.get(n)
        # substitute carried symbols of sibling variables by prefix terms
        subs = {}
        for n, s in carried_syms.items():
            newv = env.vars.get(n)
            ls = [x for x in (T.find_ops(newv, "loopsum") + T.find_ops(newv, "loopsum_brk"))
                  if len(x.args) == 3 and x.args[1] == lv] if is_term(newv) else []
            if is_term(newv) and len(ls) == 1 and is_term(pre[n]) and sp.expand(newv - pre[n] - ls[0]) == 0:
                inc_ = ls[0].args[0]
                loop_dep = {lv} | set(carried_syms.values())
                if not (inc_.free_symbols & loop_dep) and not has_break and fname(itt) in ("range", "prange") and len(itt.args) in (1, 2):
                    # a constant step: the value at the start of pass lv is start + step * (number of passes before it)
                    first_ = itt.args[0] if len(itt.args) == 2 else sp.Integer(0)
                    subs[s] = pre[n] + inc_ * (lv - first_)
                elif not (inc_.free_symbols & loop_dep) and not has_break and fname(itt) not in ("range", "prange", "zip", "enumerate", "dict_items"):
                    subs[s] = pre[n] + inc_ * lv        # iteration over a sequence: lv is the position
                else:
                    subs[s] = pre[n] + op("loopprefix", inc_, lv)
            elif is_term(newv):
                subs[s] = op("loopstate", to_term(pre[n]), lv, Str(n))
        if subs:
            for n in list(env.vars.keys()):
                v = env.vars[n]
                if is_term(v) and any(x in v.free_symbols for x in subs):
                    env.vars[n] = v.xreplace(subs)
        # A loop left through `break` skips its else clause; values assigned on the breaking path are
        # visible after the loop.  Exhausting the iterable runs the else clause.
        brk_env = None
        brk_cond = None
        if fb.breaks:
            brk_env = env.fork()
            conds = []
            for c, be in fb.breaks:
                rc = self.relative_cond(c, benv.pathcond)
                rc = to_term(rc).xreplace(subs) if subs else to_term(rc)
                conds.append(rc)
                this = op("brk", rc, lv)
                for n in carried_names:
                    if n not in carried_syms:
                        continue
                    vb = be.vars.get(n, MISSING)
                    if vb is MISSING or vb == carried_syms[n]:
                        continue
                    vb2 = to_term(vb)
                    vb2 = vb2.xreplace(subs) if subs else vb2
                    cur = brk_env.vars.get(n)
                    if len(fb.breaks) == 1:
                        brk_env.vars[n] = vb2
                    elif is_term(cur):
                        brk_env.vars[n] = ITE(this, vb2, cur)
            brk_cond = op("brk", OR(*conds), lv)
        if st.orelse:
            fo = self.exec_block(st.orelse, env)
            out.returns += fo.returns
            out.breaks += fo.breaks
            out.conts += fo.conts
            normal_env = fo.env
        else:
            normal_env = env
        if brk_env is None:
            out.env = normal_env
        elif normal_env is None:
            brk_env.pathcond = AND(env.pathcond, brk_cond)
            out.env = brk_env
        else:
            out.env = self.merge_envs(brk_cond, brk_env, normal_env, env)
        return out

    def relative_cond(self, c, base):
        """The part of path condition c that was added after base."""
        if c == base:
            return TRUE_T
        if fname(c) == "and_":
            base_args = set(base.args) if fname(base) == "and_" else {base}
            rest = [a for a in c.args if a not in base_args]
            return AND(*rest)
        return c

    def summarise_loop(self, orig, s, fin, lv, itt, has_break):
        if fin == s:
            return orig
        # accumulation: fin = s + E (possibly under ite)
        inc = self.as_increment(fin, s)
        if inc is not None:
            return orig + op("loopsum_brk" if has_break else "loopsum", inc, lv, itt)
        # several slots of a small accumulator updated in one pass: a[0] += e0; a[1] += e1  (each slot its own sum)
        chain = []
        cur_ = fin
        while fname(cur_) == "store" and len(cur_.args) == 3:
            chain.append((cur_.args[1], cur_.args[2]))
            cur_ = cur_.args[0]
        if cur_ == s and len(chain) >= 2 and all(getattr(i_, "is_Integer", False) for i_, _ in chain) \
                and len({i_ for i_, _ in chain}) == len(chain):
            out_ = orig
            ok_ = True

            def through(n):
                # a read of slot j from the accumulator after other (numbered) slots were written is a read of the old slot j
                if fname(n) == "item" and getattr(n.args[1], "is_Integer", False):
                    b_ = n.args[0]
                    while fname(b_) == "store" and len(b_.args) == 3 and getattr(b_.args[1], "is_Integer", False) and b_.args[1] != n.args[1]:
                        b_ = b_.args[0]
                    if b_ is not n.args[0]:
                        return op("item", b_, n.args[1])
                return None
            chain = [(i_, T.rewrite(v_, through)) for i_, v_ in chain]
            for i_, v_ in reversed(chain):
                e_ = sp.expand(v_ - op("item", s, i_))
                if s in e_.free_symbols:
                    ok_ = False
                    break
                acc_ = self.lib.term_getitem(self, out_, i_, None, None) + op("loopsum_brk" if has_break else "loopsum", v_ - op("item", s, i_), lv, itt)
                out_ = self.lib.term_setitem(self, out_, i_, acc_, None, None)
            if ok_:
                return out_
        st_ = self.as_store(fin, s)
        if st_ is not None:
            idx, val = st_
            # element accumulation: a[idx] += E with idx independent of this loop
            cur = op("item", s, idx)
            if lv not in idx.free_symbols and cur in val.atoms(sp.Function):
                e = sp.expand(val - cur)
                if s not in e.free_symbols:
                    acc = self.lib.term_getitem(self, orig, idx, None, None) + op(
                        "loopsum_brk" if has_break else "loopsum", val - cur, lv, itt)
                    return self.lib.term_setitem(self, orig, idx, acc, None, None)
            return op("tabulate", orig, idx, val, lv, itt)
        return op("loopfix", orig, fin, lv, s)

    def as_increment(self, fin, s) -> Optional[sp.Basic]:
        if fin == s:
            return sp.Integer(0)
        if fname(fin) == "ite":
            a = self.as_increment(fin.args[1], s)
            b = self.as_increment(fin.args[2], s)
            if a is not None and b is not None and s not in fin.args[0].free_symbols:
                return ITE(fin.args[0], a, b)
            return None
        d = sp.expand(fin - s) if s in fin.free_symbols else None
        if d is not None and s not in d.free_symbols:
            e = fin - s
            return e if s not in e.free_symbols else d
        return None

    def as_store(self, fin, s):
        """fin = store(s, idx, val) [possibly nested tabulate over inner loops]"""
        f = fname(fin)
        if f == "store" and fin.args[0] == s and s not in fin.args[1].free_symbols:
            return fin.args[1], fin.args[2]
        if f == "tabulate" and fin.args[0] == s:
            # inner loop already tabulated on top of the carried array
            return sp.Tuple(Str("inner"), fin.args[1], fin.args[3], fin.args[4] if len(fin.args) > 4 else Str("?")), fin.args[2]
        if f == "ite":
            a = self.as_store(fin.args[1], s)
            b = self.as_store(fin.args[2], s)
            if a is not None and b is not None and a[0] == b[0]:
                return a[0], ITE(fin.args[0], a[1], b[1])
            if a is not None and fin.args[2] == s:
                return a[0], ITE(fin.args[0], a[1], op("keep"))
            if b is not None and fin.args[1] == s:
                return b[0], ITE(fin.args[0], op("keep"), b[1])
        return None

    def st_While(self, st, env):
        """while loops: the same record as a symbolic for loop (carried state, one symbolic pass through the body, exits), with
        iter = while(<condition over the carried symbols>) and no loop variable; the values after the loop are summaries."""
        carried_names = [n for n in self.assigned_names(st.body) if env.lookup(n) is not MISSING]
        pre = {n: env.lookup(n) for n in carried_names}
        benv = env.fork()
        carried_syms: Dict[str, sp.Symbol] = {}
        for n in carried_names:
            v = pre[n]
            if is_term(v) or isinstance(v, (bool, str, int, float)) or v is None:
                sym = sp.Symbol(f"~c:{n}@{st.lineno}")
                carried_syms[n] = sym
                benv.vars[n] = sym
                pre[n] = to_term(v)
            elif isinstance(v, (list, dict)):
                benv.vars[n] = copy.copy(v)
            elif isinstance(v, DatasetVal):
                benv.vars[n] = v.copy()
        c = to_term(self.eval(st.test, benv))
        fb = self.exec_block(st.body, benv)
        ends = list(fb.conts)
        final_env = fb.env
        for cc, e in reversed(ends):
            final_env = e if final_env is None else self.merge_envs(self.relative_cond(cc, benv.pathcond), e, final_env, benv)
        out = Flow(env=env, returns=list(fb.returns))
        if final_env is None and fb.breaks:
            final_env = fb.breaks[0][1]
        if final_env is not None:
            self.loops.append(LoopRecord(
                func=env.func.qualname if env.func else "", loc=self.loc(env, st), lv=None, iter=op("while", c),
                carried={n: (pre[n], carried_syms.get(n), final_env.vars.get(n, MISSING)) for n in carried_names},
                break_conds=[self.relative_cond(cc, benv.pathcond) for cc, _ in fb.breaks],
                return_conds=[self.relative_cond(cc, benv.pathcond) for cc, _ in fb.returns],
                has_else=bool(st.orelse), body_env=final_env))
        for n in carried_names:
            cur = pre[n]
            fin = final_env.vars.get(n) if final_env is not None else None
            if n in carried_syms:
                env.vars[n] = op("whilefix", to_term(cur), to_term(fin) if fin is not None and fin is not MISSING else NONE_T, c,
                                 carried_syms[n])
            elif is_term(cur):
                env.vars[n] = op("whilefix", cur, to_term(fin) if fin is not None else NONE_T, c)
            else:
                env.vars[n] = self.note_unknown(f"{n} modified in while loop", st, env)
        return out


# ============================================================================ convenience
def make_self(program: Program, cls_qual: str, label: str = "self", fields: Optional[Dict[str, Any]] = None) -> Obj:
    cls = program.get_class(cls_qual)
    o = Obj(cls, dict(fields or {}), label)
    return o
