"""Engine 0 -- the resolved program model of /repo/src/ocean_science_utilities.

Parses every module with ``ast`` (never imports or runs repository code), builds symbol
tables, import resolution, class hierarchy with C3 MRO, decorator facts (property / static /
class method / numba-jitted with resolved options) and module-level constants.
"""
from __future__ import annotations

import ast
import os
from dataclasses import dataclass, field
from typing import Dict, List, Optional, Tuple, Any

PKG = "ocean_science_utilities"


class AnalysisError(Exception):
    """Raised when the model cannot be built or an anchor vanished (exit code 2)."""


@dataclass
class Function:
    name: str
    qualname: str  # module.Class.name or module.name (module relative to package)
    module: "Module"
    node: ast.AST
    cls: Optional["Class"] = None
    is_property: bool = False
    is_cached_property: bool = False
    is_setter: bool = False
    is_static: bool = False
    is_classmethod: bool = False
    jitted: bool = False
    jit_opts: Dict[str, Any] = field(default_factory=dict)
    parent: Optional["Function"] = None  # lexically enclosing function (closures)

    @property
    def params(self) -> List[str]:
        a = self.node.args
        return [x.arg for x in a.posonlyargs + a.args]

    @property
    def file(self) -> str:
        return self.module.relpath

    @property
    def lineno(self) -> int:
        return self.node.lineno

    def loc(self, node: Optional[ast.AST] = None) -> str:
        n = node if node is not None else self.node
        return f"{self.module.relpath}:{getattr(n, 'lineno', '?')}"

    def __hash__(self):
        return id(self)

    def __repr__(self):
        return f"<Function {self.qualname}>"


@dataclass
class Class:
    name: str
    qualname: str
    module: "Module"
    node: ast.ClassDef
    base_exprs: List[ast.expr] = field(default_factory=list)
    bases: List["Class"] = field(default_factory=list)
    methods: Dict[str, Function] = field(default_factory=dict)
    setters: Dict[str, Function] = field(default_factory=dict)
    attrs: Dict[str, ast.expr] = field(default_factory=dict)
    is_dataclass: bool = False
    dataclass_fields: List[Tuple[str, Optional[ast.expr]]] = field(default_factory=list)
    _mro: Optional[List["Class"]] = None

    def mro(self) -> List["Class"]:
        if self._mro is None:
            seqs = [b.mro() for b in self.bases] + [list(self.bases)]
            res = [self]
            seqs = [list(s) for s in seqs if s]
            while seqs:
                for s in seqs:
                    cand = s[0]
                    if not any(cand in t[1:] for t in seqs):
                        break
                else:
                    raise AnalysisError(f"inconsistent MRO for {self.qualname}")
                res.append(cand)
                seqs = [[c for c in s if c is not cand] for s in seqs]
                seqs = [s for s in seqs if s]
            self._mro = res
        return self._mro

    def find_method(self, name: str) -> Optional[Function]:
        for c in self.mro():
            if name in c.methods:
                return c.methods[name]
        return None

    def find_setter(self, name: str) -> Optional[Function]:
        for c in self.mro():
            if name in c.setters:
                return c.setters[name]
        return None

    def find_attr(self, name: str) -> Optional[Tuple["Class", ast.expr]]:
        for c in self.mro():
            if name in c.attrs:
                return c, c.attrs[name]
        return None

    def all_dataclass_fields(self) -> List[Tuple[str, Optional[ast.expr]]]:
        out: List[Tuple[str, Optional[ast.expr]]] = []
        for c in reversed(self.mro()):
            for f in c.dataclass_fields:
                out = [x for x in out if x[0] != f[0]]
                out.append(f)
        return out

    def is_subclass_of(self, other: "Class") -> bool:
        return other in self.mro()

    def __hash__(self):
        return id(self)

    def __repr__(self):
        return f"<Class {self.qualname}>"


@dataclass
class Module:
    name: str  # dotted, relative to package: "wavespectra.spectrum"
    path: str
    relpath: str
    tree: ast.Module
    source: str
    imports: Dict[str, Tuple] = field(default_factory=dict)
    functions: Dict[str, Function] = field(default_factory=dict)
    classes: Dict[str, Class] = field(default_factory=dict)
    assigns: Dict[str, ast.expr] = field(default_factory=dict)  # last module-level assignment
    all_assigns: Dict[str, List[ast.stmt]] = field(default_factory=dict)

    def __hash__(self):
        return id(self)

    def __repr__(self):
        return f"<Module {self.name}>"


def _dotted(node: ast.expr) -> Optional[str]:
    if isinstance(node, ast.Name):
        return node.id
    if isinstance(node, ast.Attribute):
        b = _dotted(node.value)
        return None if b is None else b + "." + node.attr
    return None


class _Desugar(ast.NodeTransformer):
    """Source-level normal forms applied to every module before any analysis sees it (positions are kept):

    * ``for i in np.flatnonzero(M): body``  ->  ``for i in range(len(M)): if not M[i]: continue; body``
      (same iterations in the same order for a 1-d mask M; the loop then has the whole-axis shape every loop rule knows)
    * ``for i, j in np.ndindex(A, B): body``  ->  ``for i in range(A): for j in range(B): body``
    * ``for i, x in enumerate(X): body``  ->  ``for i in range(len(X)): x = X[i]; body``
    * ``i = 0; while i < N: i += 1; body``  ->  ``for i in range(1, N + 1): body``  (see _counting_while)"""

    def generic_visit(self, node):
        node = super().generic_visit(node)
        for fld in ("body", "orelse", "finalbody"):
            b = getattr(node, fld, None)
            if isinstance(b, list) and b and isinstance(b[0], ast.stmt):
                setattr(node, fld, _counting_while(b))
        return node

    def visit_Match(self, node):
        """`match subject:` over literal / None / class / mapping-key / wildcard patterns (with guards) is the if/elif chain that tests
        the same things in the same order; anything else (sequence patterns, captures inside class patterns) is left alone and the
        analyses treat it as an unknown statement."""
        node = self.generic_visit(node)
        subj = node.subject
        if not isinstance(subj, (ast.Name, ast.Attribute)):
            return node

        def S():
            import copy
            return copy.deepcopy(subj)

        def test_of(pat):
            """(test expression or None for 'always', bindings) or raise ValueError"""
            if isinstance(pat, ast.MatchValue):
                return ast.Compare(left=S(), ops=[ast.Eq()], comparators=[pat.value]), []
            if isinstance(pat, ast.MatchSingleton):
                return ast.Compare(left=S(), ops=[ast.Is()], comparators=[ast.Constant(pat.value)]), []
            if isinstance(pat, ast.MatchClass) and not pat.patterns and not pat.kwd_patterns:
                return ast.Call(func=ast.Name(id="isinstance", ctx=ast.Load()), args=[S(), pat.cls], keywords=[]), []
            if isinstance(pat, ast.MatchOr):
                parts = [test_of(q) for q in pat.patterns]
                if any(b for _, b in parts) or any(t is None for t, _ in parts):
                    raise ValueError
                clss = [t.args[1] for t, _ in parts if isinstance(t, ast.Call)]
                if len(clss) == len(parts):
                    return ast.Call(func=ast.Name(id="isinstance", ctx=ast.Load()),
                                    args=[S(), ast.Tuple(elts=clss, ctx=ast.Load())], keywords=[]), []
                return ast.BoolOp(op=ast.Or(), values=[t for t, _ in parts]), []
            if isinstance(pat, ast.MatchAs) and pat.pattern is None:
                if pat.name is None:
                    return None, []
                return None, [ast.Assign(targets=[ast.Name(id=pat.name, ctx=ast.Store())], value=S())]
            if isinstance(pat, ast.MatchMapping) and pat.rest is None and all(isinstance(k, ast.Constant) for k in pat.keys) and all(
                    isinstance(v, ast.MatchAs) and v.pattern is None for v in pat.patterns):
                tests = [ast.Compare(left=k, ops=[ast.In()], comparators=[S()]) for k in pat.keys]
                binds = [ast.Assign(targets=[ast.Name(id=v.name, ctx=ast.Store())], value=ast.Subscript(value=S(), slice=k, ctx=ast.Load()))
                         for k, v in zip(pat.keys, pat.patterns) if v.name is not None]
                return (tests[0] if len(tests) == 1 else ast.BoolOp(op=ast.And(), values=tests)), binds
            raise ValueError
        try:
            arms = []
            for c in node.cases:
                t, binds = test_of(c.pattern)
                if c.guard is not None:
                    if binds:
                        raise ValueError      # the guard may read the captured names
                    t = c.guard if t is None else ast.BoolOp(op=ast.And(), values=[t, c.guard])
                arms.append((t, binds + list(c.body)))
        except ValueError:
            return node
        chain = None
        for t, body in reversed(arms):
            if t is None:
                chain = list(body)
            else:
                chain = [ast.If(test=t, body=body, orelse=chain or [])]
        if not chain:
            return node
        out = [ast.copy_location(x, node) if not hasattr(x, "lineno") else x for x in chain]
        for x in out:
            ast.fix_missing_locations(ast.copy_location(x, node) if not hasattr(x, "lineno") else x)
        return out if len(out) > 1 else out[0]

    def visit_FunctionDef(self, node):
        # locals bound exactly once to np.flatnonzero(M) / np.nonzero(M)[0] / np.where(M)[0]: a loop over such a local is a loop over
        # the positions where M holds
        counts: Dict[str, int] = {}
        exprs: Dict[str, ast.AST] = {}
        for n in ast.walk(node):
            tg = []
            if isinstance(n, ast.Assign):
                tg = [t for t in n.targets]
            elif isinstance(n, (ast.AugAssign, ast.AnnAssign)):
                tg = [n.target]
            elif isinstance(n, (ast.For, ast.comprehension)):
                tg = [n.target]
            for t in tg:
                for x in ast.walk(t):
                    if isinstance(x, ast.Name):
                        counts[x.id] = counts.get(x.id, 0) + 1
            if isinstance(n, ast.Assign) and len(n.targets) == 1 and isinstance(n.targets[0], ast.Name):
                exprs[n.targets[0].id] = n.value
        saved = getattr(self, "_index_locals", {})
        saved_defs = getattr(self, "_single_defs", {})
        self._index_locals = {k: v for k, v in exprs.items() if counts.get(k) == 1 and self._positions_of(v) is not None}
        self._single_defs = {k: v for k, v in exprs.items() if counts.get(k) == 1}
        try:
            return self.generic_visit(node)
        finally:
            self._index_locals = saved
            self._single_defs = saved_defs

    @staticmethod
    def _positions_of(it):
        """M when `it` spells the positions where the 1-d mask M holds"""
        if isinstance(it, ast.Subscript) and isinstance(it.slice, ast.Constant) and it.slice.value == 0 and isinstance(it.value, ast.Call) \
                and isinstance(it.value.func, ast.Attribute) and it.value.func.attr in ("nonzero", "where") \
                and isinstance(it.value.func.value, ast.Name) and it.value.func.value.id in ("np", "numpy") and len(it.value.args) == 1 \
                and not it.value.keywords:
            return it.value.args[0]
        if isinstance(it, ast.Call) and isinstance(it.func, ast.Attribute) and it.func.attr == "flatnonzero" \
                and isinstance(it.func.value, ast.Name) and it.func.value.id in ("np", "numpy") and len(it.args) == 1 and not it.keywords:
            return it.args[0]
        return None

    def visit_For(self, node: ast.For):
        self.generic_visit(node)
        it = node.iter
        # for i, j in np.ndindex(A, B): body  ->  for i in range(A): for j in range(B): body      (row-major, the same order)
        if isinstance(it, ast.Call) and isinstance(it.func, ast.Attribute) and it.func.attr == "ndindex" and isinstance(it.func.value, ast.Name) \
                and it.func.value.id in ("np", "numpy") and not it.keywords and isinstance(node.target, ast.Tuple) and not node.orelse \
                and all(isinstance(e, ast.Name) for e in node.target.elts):
            arg0 = it.args[0] if len(it.args) == 1 else None
            if isinstance(arg0, ast.Name) and isinstance(getattr(self, "_single_defs", {}).get(arg0.id), (ast.Tuple, ast.List)):
                arg0 = self._single_defs[arg0.id]       # shape = (n, m); np.ndindex(shape)
            extents = list(arg0.elts) if isinstance(arg0, (ast.Tuple, ast.List)) else list(it.args)
            if len(extents) == len(node.target.elts) and len(extents) >= 1:
                body = node.body
                depth_ = len(extents)
                for tgt, ext in reversed(list(zip(node.target.elts, extents))):
                    depth_ -= 1
                    rng = ast.Call(func=ast.Name(id="range", ctx=ast.Load()), args=[ext], keywords=[])
                    loop = ast.For(target=ast.Name(id=tgt.id, ctx=ast.Store()), iter=rng, body=body, orelse=[], type_comment=None)
                    ast.copy_location(loop, node)
                    loop._osuverif_depth = depth_      # loops made from one statement share its line: tell their state symbols apart
                    ast.copy_location(rng, it)
                    for sub in (rng.func, loop.target):
                        ast.copy_location(sub, it)
                    body = [loop]
                return body[0]
        if isinstance(it, ast.Name) and it.id in getattr(self, "_index_locals", {}):
            import copy as _copy
            it = ast.copy_location(_copy.deepcopy(self._index_locals[it.id]), it)
            for sub in ast.walk(it):
                ast.copy_location(sub, node.iter)
        # for i, x in enumerate(X): body  ->  for i in range(len(X)): x = X[i]; body      (X a sequence or array expression)
        if isinstance(it, ast.Call) and isinstance(it.func, ast.Name) and it.func.id == "enumerate" and len(it.args) == 1 and not it.keywords \
                and isinstance(node.target, ast.Tuple) and len(node.target.elts) == 2 and all(isinstance(e, ast.Name) for e in node.target.elts) \
                and not node.orelse and isinstance(it.args[0], (ast.Name, ast.Subscript, ast.Attribute)):
            i_, x_ = node.target.elts
            src = it.args[0]
            bind = ast.Assign(targets=[ast.Name(id=x_.id, ctx=ast.Store())],
                              value=ast.Subscript(value=src, slice=ast.Name(id=i_.id, ctx=ast.Load()), ctx=ast.Load()))
            ast.copy_location(bind, node.target)
            for sub in ast.walk(bind):
                if not hasattr(sub, "lineno"):
                    ast.copy_location(sub, node.target)
            new_iter = ast.Call(func=ast.Name(id="range", ctx=ast.Load()),
                                args=[ast.Call(func=ast.Name(id="len", ctx=ast.Load()), args=[src], keywords=[])], keywords=[])
            ast.copy_location(new_iter, it)
            for sub in ast.walk(new_iter):
                if not hasattr(sub, "lineno"):
                    ast.copy_location(sub, it)
            node.target = ast.copy_location(ast.Name(id=i_.id, ctx=ast.Store()), node.target)
            node.iter = new_iter
            node.body = [bind] + node.body
            return node
        # np.nonzero(M)[0] and np.where(M)[0] are np.flatnonzero(M) for a 1-d mask
        if isinstance(it, ast.Subscript) and isinstance(it.slice, ast.Constant) and it.slice.value == 0 and isinstance(it.value, ast.Call) \
                and isinstance(it.value.func, ast.Attribute) and it.value.func.attr in ("nonzero", "where") \
                and isinstance(it.value.func.value, ast.Name) and it.value.func.value.id in ("np", "numpy") and len(it.value.args) == 1 \
                and not it.value.keywords:
            it = ast.copy_location(ast.Call(func=ast.Attribute(value=ast.Name(id="np", ctx=ast.Load()), attr="flatnonzero", ctx=ast.Load()),
                                            args=[it.value.args[0]], keywords=[]), it)
            ast.fix_missing_locations(it)
        if isinstance(it, ast.Call) and isinstance(it.func, ast.Attribute) and it.func.attr == "flatnonzero" \
                and isinstance(it.func.value, ast.Name) and it.func.value.id in ("np", "numpy") and len(it.args) == 1 \
                and not it.keywords and isinstance(node.target, ast.Name) and not node.orelse:
            m = it.args[0]
            new_iter = ast.Call(func=ast.Name(id="range", ctx=ast.Load()),
                                args=[ast.Call(func=ast.Name(id="len", ctx=ast.Load()), args=[m], keywords=[])], keywords=[])
            guard = ast.If(test=ast.UnaryOp(op=ast.Not(), operand=ast.Subscript(value=m, slice=ast.Name(id=node.target.id, ctx=ast.Load()),
                                                                                ctx=ast.Load())),
                           body=[ast.Continue()], orelse=[])
            ast.copy_location(new_iter, it)
            ast.copy_location(guard, node.body[0] if node.body else node)
            for sub in ast.walk(guard):
                ast.copy_location(sub, guard)
            for sub in ast.walk(new_iter):
                if not hasattr(sub, "lineno"):
                    ast.copy_location(sub, it)
            node.iter = new_iter
            node.body = [guard] + node.body
        return node


def _assigned_names(stmts) -> set:
    out = set()
    for st in stmts:
        for n in ast.walk(st):
            if isinstance(n, (ast.Assign, ast.AugAssign, ast.AnnAssign, ast.For, ast.NamedExpr)):
                tgs = n.targets if isinstance(n, ast.Assign) else [n.target]
                for t in tgs:
                    for x in ast.walk(t):
                        if isinstance(x, ast.Name):
                            out.add(x.id)
    return out


def _counting_while(block: list) -> list:
    """``i = 0; while i < N: i += 1; body``  ->  ``for i in range(1, N + 1): body``  (same passes, same value of i in each pass
    and after the loop) when neither i nor the names in N are assigned elsewhere in the body."""
    out = []
    k = 0
    while k < len(block):
        st = block[k]
        nxt = block[k + 1] if k + 1 < len(block) else None
        if isinstance(st, ast.Assign) and len(st.targets) == 1 and isinstance(st.targets[0], ast.Name) \
                and isinstance(st.value, ast.Constant) and st.value.value == 0 and type(st.value.value) is int \
                and isinstance(nxt, ast.While) and not nxt.orelse and isinstance(nxt.test, ast.Compare) and len(nxt.test.ops) == 1 \
                and isinstance(nxt.test.ops[0], ast.Lt) and isinstance(nxt.test.left, ast.Name) and nxt.test.left.id == st.targets[0].id \
                and nxt.body and isinstance(nxt.body[0], ast.AugAssign) and isinstance(nxt.body[0].op, ast.Add) \
                and isinstance(nxt.body[0].target, ast.Name) and nxt.body[0].target.id == st.targets[0].id \
                and isinstance(nxt.body[0].value, ast.Constant) and nxt.body[0].value.value == 1 and len(nxt.body) > 1:
            i = st.targets[0].id
            bound = nxt.test.comparators[0]
            rest = nxt.body[1:]
            touched = _assigned_names(rest)
            bound_names = {x.id for x in ast.walk(bound) if isinstance(x, ast.Name)}
            pure_bound = all(isinstance(x, (ast.Name, ast.Attribute, ast.Constant, ast.Load)) for x in ast.walk(bound))
            if i not in touched and not (bound_names & touched) and pure_bound:
                rng = ast.Call(func=ast.Name(id="range", ctx=ast.Load()),
                               args=[ast.Constant(value=1), ast.BinOp(left=bound, op=ast.Add(), right=ast.Constant(value=1))], keywords=[])
                loop = ast.For(target=ast.Name(id=i, ctx=ast.Store()), iter=rng, body=rest, orelse=[], type_comment=None)
                ast.copy_location(loop, nxt)
                for sub in ast.walk(rng):
                    if not hasattr(sub, "lineno"):
                        ast.copy_location(sub, nxt.test)
                ast.copy_location(loop.target, nxt.test)
                out.append(st)
                out.append(loop)
                k += 2
                continue
        out.append(st)
        k += 1
    return out


class _ReExportDict(dict):
    def __init__(self, program, kind):
        super().__init__()
        self._program = program
        self._kind = kind

    def _via_import(self, key):
        if not isinstance(key, str) or "." not in key:
            return None
        mod, name = key.rsplit(".", 1)
        p = self._program
        m = p.modules.get(mod)
        if m is None:
            # Class.method through a re-exported class
            if "." in mod:
                c = p.classes.get(mod) if self._kind is Function else None
                if c is not None:
                    return c.find_method(name)
            return None
        if name in getattr(m, "functions", {}) or name in getattr(m, "classes", {}):
            return None
        try:
            r = p.resolve_name(m, name)
        except Exception:
            return None
        return r if isinstance(r, self._kind) else None

    def __missing__(self, key):
        r = self._via_import(key)
        if r is None:
            raise KeyError(key)
        return r

    def get(self, key, default=None):
        if dict.__contains__(self, key):
            return dict.__getitem__(self, key)
        r = self._via_import(key)
        return default if r is None else r

    def __contains__(self, key):
        return dict.__contains__(self, key) or self._via_import(key) is not None


class Program:
    def __init__(self, root: str = "/repo"):
        self.root = root
        self.pkgdir = os.path.join(root, "src", PKG)
        if not os.path.isdir(self.pkgdir):
            raise AnalysisError(f"package directory not found: {self.pkgdir}")
        self.modules: Dict[str, Module] = {}
        # lookups by qualified name follow re-exports: `tools.time.time_from_timeint` is found when tools/time.py only imports the
        # function from a sibling module (a helper moved to another file stays the same anchor)
        self.functions: Dict[str, Function] = _ReExportDict(self, Function)
        self.classes: Dict[str, Class] = _ReExportDict(self, Class)
        self.all_functions: List[Function] = []
        self._parse_all()
        self._link()

    # ------------------------------------------------------------------ parsing
    def _parse_all(self):
        for dirpath, dirnames, filenames in os.walk(self.pkgdir):
            dirnames.sort()
            for fn in sorted(filenames):
                if not fn.endswith(".py"):
                    continue
                path = os.path.join(dirpath, fn)
                rel = os.path.relpath(path, self.pkgdir)
                modname = rel[:-3].replace(os.sep, ".")
                if modname.endswith("__init__"):
                    modname = modname[: -len("__init__")].rstrip(".")
                with open(path, "r", encoding="utf-8") as fh:
                    src = fh.read()
                try:
                    tree = ast.parse(src, filename=path)
                except SyntaxError as e:
                    raise AnalysisError(f"syntax error in {path}: {e}")
                tree = _Desugar().visit(tree)
                ast.fix_missing_locations(tree)
                m = Module(
                    name=modname,
                    path=path,
                    relpath=os.path.join("src", PKG, rel),
                    tree=tree,
                    source=src,
                )
                self.modules[modname] = m
                self._index_module(m)

    def _index_module(self, m: Module):
        for st in m.tree.body:
            self._index_stmt(m, st)

    def _index_stmt(self, m: Module, st: ast.stmt):
        if isinstance(st, ast.Import):
            for a in st.names:
                local = a.asname or a.name.split(".")[0]
                target = a.name if a.asname else a.name.split(".")[0]
                m.imports[local] = ("module", target)
        elif isinstance(st, ast.ImportFrom):
            mod = st.module or ""
            if st.level:
                base = m.name.split(".")
                base = base[: len(base) - st.level + (0 if m.path.endswith("__init__.py") else 0)]
                # relative imports: resolve against package-relative name
                parts = m.name.split(".")
                parts = parts[: max(0, len(parts) - st.level)]
                mod = ".".join([PKG] + parts + ([mod] if mod else []))
            for a in st.names:
                m.imports[a.asname or a.name] = ("from", mod, a.name)
        elif isinstance(st, (ast.FunctionDef, ast.AsyncFunctionDef)):
            f = self._make_function(m, st, None, None)
            m.functions[st.name] = f
        elif isinstance(st, ast.ClassDef):
            c = Class(name=st.name, qualname=f"{m.name}.{st.name}", module=m, node=st)
            c.base_exprs = list(st.bases)
            for d in st.decorator_list:
                dn = _dotted(d.func if isinstance(d, ast.Call) else d)
                if dn and dn.split(".")[-1] == "dataclass":
                    c.is_dataclass = True
            for s in st.body:
                if isinstance(s, (ast.FunctionDef, ast.AsyncFunctionDef)):
                    f = self._make_function(m, s, c, None)
                    if f.is_setter:
                        c.setters[s.name] = f
                    else:
                        c.methods[s.name] = f
                elif isinstance(s, ast.Assign):
                    for t in s.targets:
                        if isinstance(t, ast.Name):
                            c.attrs[t.id] = s.value
                elif isinstance(s, ast.AnnAssign) and isinstance(s.target, ast.Name):
                    if s.value is not None:
                        c.attrs[s.target.id] = s.value
                    c.dataclass_fields.append((s.target.id, s.value))
            m.classes[st.name] = c
            self.classes[c.qualname] = c
        elif isinstance(st, ast.Assign):
            for t in st.targets:
                if isinstance(t, ast.Name):
                    m.assigns[t.id] = st.value
                    m.all_assigns.setdefault(t.id, []).append(st)
                elif isinstance(t, ast.Subscript) and isinstance(t.value, ast.Name):
                    m.all_assigns.setdefault(t.value.id, []).append(st)
        elif isinstance(st, ast.AnnAssign) and isinstance(st.target, ast.Name):
            if st.value is not None:
                m.assigns[st.target.id] = st.value
                m.all_assigns.setdefault(st.target.id, []).append(st)
        elif isinstance(st, (ast.If, ast.Try)):
            # module-level conditional definitions: index both arms conservatively
            for sub in ast.iter_child_nodes(st):
                if isinstance(sub, ast.stmt):
                    self._index_stmt(m, sub)

    def _make_function(self, m: Module, node, cls: Optional[Class], parent: Optional[Function]):
        qn = f"{m.name}." + (f"{cls.name}." if cls else "") + (
            f"{parent.name}.<locals>." if parent else ""
        ) + node.name
        f = Function(name=node.name, qualname=qn, module=m, node=node, cls=cls, parent=parent)
        for d in node.decorator_list:
            dn = _dotted(d.func if isinstance(d, ast.Call) else d)
            if dn is None:
                continue
            last = dn.split(".")[-1]
            if dn == "property":
                f.is_property = True
            elif last == "cached_property":
                # functools.cached_property: read like a property, computed once per instance and kept in the instance dict
                f.is_property = True
                f.is_cached_property = True
            elif last == "setter" and "." in dn:
                f.is_setter = True
            elif dn == "staticmethod":
                f.is_static = True
            elif dn == "classmethod":
                f.is_classmethod = True
            elif last in ("jit", "njit"):
                f.jitted = True
                f.jit_opts = {"__decorator__": d, "__kind__": last}
        self.all_functions.append(f)
        if not cls and not parent:
            self.functions[qn] = f
        elif cls and not parent:
            self.functions[qn] = f if not f.is_setter else self.functions.get(qn, f)
        # nested functions
        for sub in ast.walk(node):
            if sub is node:
                continue
        for s in node.body:
            self._index_nested(m, s, cls, f)
        return f

    def _index_nested(self, m, st, cls, parent: Function):
        for sub in ast.iter_child_nodes(st) if not isinstance(st, (ast.FunctionDef, ast.AsyncFunctionDef)) else []:
            if isinstance(sub, (ast.FunctionDef, ast.AsyncFunctionDef)):
                self._make_function(m, sub, cls, parent)
            elif isinstance(sub, ast.stmt):
                self._index_nested(m, sub, cls, parent)
        if isinstance(st, (ast.FunctionDef, ast.AsyncFunctionDef)):
            self._make_function(m, st, cls, parent)

    # ------------------------------------------------------------------ linking
    def _link(self):
        for c in self.classes.values():
            for be in c.base_exprs:
                ent = self.resolve_expr(c.module, be)
                if isinstance(ent, Class):
                    c.bases.append(ent)
        for f in self.all_functions:
            if f.jitted:
                f.jit_opts = self._resolve_jit_opts(f)

    def module_of(self, dotted: str) -> Optional[Module]:
        if dotted == PKG:
            return self.modules.get("")
        if dotted.startswith(PKG + "."):
            return self.modules.get(dotted[len(PKG) + 1 :])
        return None

    def resolve_name(self, m: Module, name: str, _seen=None):
        """Resolve a global name in module m to Function | Class | Module | ('ext', chain) |
        ('const', ast.expr, Module) | None."""
        _seen = _seen or set()
        key = (m.name, name)
        if key in _seen:
            return None
        _seen.add(key)
        if name in m.functions:
            return m.functions[name]
        if name in m.classes:
            return m.classes[name]
        if name in m.assigns:
            val = m.assigns[name]
            # module-level alias: k = inverse_intrinsic_dispersion_relation
            if isinstance(val, ast.Name):
                r = self.resolve_name(m, val.id, _seen)
                if r is not None:
                    return r
            return ("const", val, m)
        if name in m.imports:
            imp = m.imports[name]
            if imp[0] == "module":
                tm = self.module_of(imp[1])
                if tm is not None:
                    return tm
                return ("ext", imp[1])
            else:
                _, mod, sym = imp
                tm = self.module_of(mod)
                if tm is not None:
                    r = self.resolve_name(tm, sym, _seen)
                    if r is not None:
                        return r
                    sub = self.module_of(mod + "." + sym)
                    if sub is not None:
                        return sub
                    return None
                # `from <namespace package> import <module>`: the package itself has no module object (no __init__.py)
                sub = self.module_of(mod + "." + sym)
                if sub is not None:
                    return sub
                return ("ext", mod + "." + sym)
        return None

    def resolve_expr(self, m: Module, e: ast.expr):
        if isinstance(e, ast.Name):
            return self.resolve_name(m, e.id)
        if isinstance(e, ast.Attribute):
            base = self.resolve_expr(m, e.value)
            if isinstance(base, Module):
                return self.resolve_name(base, e.attr)
            if isinstance(base, tuple) and base[0] == "ext":
                return ("ext", base[1] + "." + e.attr)
            if isinstance(base, Class):
                f = base.find_method(e.attr)
                if f:
                    return f
        return None

    # -- constants -----------------------------------------------------------
    def const_value(self, m: Module, e: ast.expr, depth=0):
        """Fold a module-level constant expression to a python value, or raise KeyError."""
        if depth > 20:
            raise KeyError("depth")
        if isinstance(e, ast.Constant):
            return e.value
        if isinstance(e, ast.Name):
            r = self.resolve_name(m, e.id)
            if isinstance(r, tuple) and r[0] == "const":
                return self.const_value(r[2], r[1], depth + 1)
            raise KeyError(e.id)
        if isinstance(e, (ast.Tuple, ast.List)):
            vals = [self.const_value(m, x, depth + 1) for x in e.elts]
            return tuple(vals) if isinstance(e, ast.Tuple) else vals
        if isinstance(e, ast.Dict):
            return {
                self.const_value(m, k, depth + 1): self.const_value(m, v, depth + 1)
                for k, v in zip(e.keys, e.values)
            }
        if isinstance(e, ast.UnaryOp):
            v = self.const_value(m, e.operand, depth + 1)
            if isinstance(e.op, ast.Not):
                return not v
            if isinstance(e.op, ast.USub):
                return -v
            if isinstance(e.op, ast.UAdd):
                return +v
        if isinstance(e, ast.BinOp):
            a = self.const_value(m, e.left, depth + 1)
            b = self.const_value(m, e.right, depth + 1)
            ops = {
                ast.Add: lambda x, y: x + y,
                ast.Sub: lambda x, y: x - y,
                ast.Mult: lambda x, y: x * y,
                ast.Div: lambda x, y: x / y,
                ast.Pow: lambda x, y: x**y,
                ast.FloorDiv: lambda x, y: x // y,
                ast.Mod: lambda x, y: x % y,
                ast.BitOr: lambda x, y: x | y,
            }
            fn = ops.get(type(e.op))
            if fn:
                return fn(a, b)
        if isinstance(e, ast.Call):
            # X.copy() of a constant dict
            if (
                isinstance(e.func, ast.Attribute)
                and e.func.attr == "copy"
                and not e.args
                and not e.keywords
            ):
                v = self.const_value(m, e.func.value, depth + 1)
                if isinstance(v, dict):
                    return self._const_dict_with_updates(m, v, None)
        raise KeyError(ast.dump(e)[:60])

    def const_global(self, m: Module, name: str):
        """Value of a module-level name including later ``name[key] = const`` updates."""
        if name not in m.all_assigns and name not in m.assigns:
            r = self.resolve_name(m, name)
            if isinstance(r, tuple) and r[0] == "const":
                # imported constant: find its home module
                return self.const_global(r[2], self._home_name(r[2], r[1]) or name)
            raise KeyError(name)
        val = None
        have = False
        for st in m.all_assigns.get(name, []):
            if isinstance(st, ast.AnnAssign):
                val = self._fold_global(m, st.value)
                have = True
                continue
            for t in st.targets:
                if isinstance(t, ast.Name) and t.id == name:
                    val = self._fold_global(m, st.value)
                    have = True
                elif (
                    isinstance(t, ast.Subscript)
                    and isinstance(t.value, ast.Name)
                    and t.value.id == name
                    and have
                    and isinstance(val, dict)
                ):
                    k = self.const_value(m, t.slice)
                    val = dict(val)
                    val[k] = self._fold_global(m, st.value)
        if not have:
            raise KeyError(name)
        return val

    def _home_name(self, m: Module, valnode: ast.expr) -> Optional[str]:
        for k, v in m.assigns.items():
            if v is valnode:
                return k
        return None

    def _fold_global(self, m: Module, e: ast.expr):
        if (
            isinstance(e, ast.Call)
            and isinstance(e.func, ast.Attribute)
            and e.func.attr == "copy"
            and isinstance(e.func.value, ast.Name)
        ):
            return dict(self.const_global(m, e.func.value.id))
        if isinstance(e, ast.Name):
            try:
                return self.const_global(m, e.id)
            except KeyError:
                pass
        return self.const_value(m, e)

    def _const_dict_with_updates(self, m, v, name):
        return dict(v)

    # -- numba options -------------------------------------------------------
    def _resolve_jit_opts(self, f: Function) -> Dict[str, Any]:
        d = f.jit_opts.get("__decorator__")
        kind = f.jit_opts.get("__kind__")
        opts: Dict[str, Any] = {"kind": kind, "resolved": True}
        if kind == "njit":
            opts["nopython"] = True
        if isinstance(d, ast.Call):
            for kw in d.keywords:
                if kw.arg is None:
                    # **dict
                    try:
                        if isinstance(kw.value, ast.Name):
                            r = self.resolve_name(f.module, kw.value.id)
                            if isinstance(r, tuple) and r[0] == "const":
                                home = r[2]
                                hn = self._home_name(home, r[1]) or kw.value.id
                                dv = self.const_global(home, hn)
                            else:
                                dv = self.const_global(f.module, kw.value.id)
                        else:
                            dv = self.const_value(f.module, kw.value)
                        if isinstance(dv, dict):
                            opts.update(dv)
                        else:
                            opts["resolved"] = False
                    except KeyError:
                        opts["resolved"] = False
                else:
                    try:
                        opts[kw.arg] = self.const_value(f.module, kw.value)
                    except KeyError:
                        opts["resolved"] = False
        if kind == "njit":
            opts["nopython"] = True
        return opts

    # -- lookup helpers --------------------------------------------------------
    def get_function(self, qualname: str) -> Function:
        f = self.functions.get(qualname)
        if f is None:
            raise AnalysisError(f"anchor vanished: function {qualname} not found")
        return f

    def get_class(self, qualname: str) -> Class:
        c = self.classes.get(qualname)
        if c is None:
            raise AnalysisError(f"anchor vanished: class {qualname} not found")
        return c

    def get_method(self, clsq: str, name: str) -> Function:
        c = self.get_class(clsq)
        f = c.find_method(name)
        if f is None:
            raise AnalysisError(f"anchor vanished: method {clsq}.{name} not found")
        return f

    def nested_function(self, parent: Function, name: str) -> Optional[Function]:
        for f in self.all_functions:
            if f.parent is parent and f.name == name:
                return f
        return None

    def stats(self) -> Dict[str, int]:
        return {
            "modules": len(self.modules),
            "functions": len(self.all_functions),
            "classes": len(self.classes),
            "jitted_functions": sum(1 for f in self.all_functions if f.jitted),
        }
