"""Engine E3 on terms: angle units (deg/rad) and rotation frame types.

Units: every angle-valued sub-term is typed deg or rad from a small seed table; conversions are
recognised by exact value (pi/180, 180/pi); trigonometric functions need radians, ``% 360`` needs
degrees, ``% (2*pi)`` radians, sums need agreeing units.

Frames (necessary conditions of joint-rotation covariance): INV (unchanged when grid and wind rotate
together), ANG(k) (invariant + k*phi), COS(k)/SIN(k) (components of a vector that rotates by k*phi).
A covariant pair is a cos-component X and a sin-component Y with Y == X[cos->sin]; X^2+Y^2 is INV and
atan2(Y, X) is ANG(k).
"""
from __future__ import annotations

from typing import Callable, Dict, List, Optional, Tuple

import sympy as sp

from . import terms as T
from .terms import fname

DEG, RAD, NOUNIT, UTOP = "deg", "rad", "-", "?"


def pi_coefficient(c: sp.Basic):
    """c == q * pi**n with q rational -> (q, n); else None"""
    if not c.is_number:
        return None
    if c == 0:
        return (sp.Integer(0), 0)
    for n in (0, 1, -1):
        q = sp.nsimplify(c / sp.pi**n) if False else sp.simplify(c / sp.pi**n)
        if q.is_Rational:
            return (q, n)
    return None


class UnitAnalysis:
    def __init__(self, seeds: List[Tuple[Callable, str, str]]):
        self.seeds = seeds
        self.problems: List[Tuple[str, sp.Basic]] = []
        self.used: List[str] = []
        self.checked = 0

    def seed(self, t):
        for pred, u, desc in self.seeds:
            try:
                if pred(t):
                    if desc not in self.used:
                        self.used.append(desc)
                    return u
            except Exception:
                pass
        return None

    def problem(self, msg, t):
        if not any(m == msg and x == t for m, x in self.problems):
            self.problems.append((msg, t))

    def unit(self, t) -> str:
        t = T.to_term(t)
        s = self.seed(t)
        if s is not None:
            return s
        if t.is_number or isinstance(t, sp.Symbol):
            return NOUNIT
        if isinstance(t, sp.Mul):
            coeff, rest = t.as_coeff_Mul()
            # pi may hide among the symbolic factors as a bare sp.pi atom
            numeric = [a for a in t.args if a.is_number]
            others = [a for a in t.args if not a.is_number]
            c = sp.Mul(*numeric) if numeric else sp.Integer(1)
            units = [(a, self.unit(a)) for a in others]
            angles = [(a, u) for a, u in units if u in (DEG, RAD)]
            if not angles:
                return UTOP if any(u == UTOP for _, u in units) else NOUNIT
            if len(angles) > 1 or len(others) > 1:
                return NOUNIT  # an angle used as a weight inside a larger product is not a unit conversion
            u = angles[0][1]
            pc = pi_coefficient(c)
            if pc is None:
                return UTOP
            q, n = pc
            if n == 0:
                return u
            if n == 1 and u == DEG and sp.simplify(q * 180).is_Integer and abs(q * 180) in (1,):
                return RAD
            if n == 1 and u == DEG and sp.simplify(q * 180).is_Rational:
                # k*pi/180 with a rational rescale: still a radian measure of a (scaled) angle
                return RAD
            if n == -1 and u == RAD and sp.simplify(q / 180).is_Rational:
                return DEG
            self.checked += 1
            self.problem(f"angle in {u} multiplied by {c}: not a valid unit conversion", t)
            return UTOP
        if isinstance(t, sp.Add):
            units = []
            consts = []
            for a in t.args:
                if a.is_number:
                    consts.append(a)
                else:
                    units.append((a, self.unit(a)))
            au = {u for _, u in units if u in (DEG, RAD)}
            self.checked += 1 if au else 0
            if len(au) > 1:
                self.problem("sum mixes an angle in degrees with an angle in radians", t)
                return UTOP
            if not au:
                return UTOP if any(u == UTOP for _, u in units) else NOUNIT
            u = au.pop()
            for c in consts:
                pc = pi_coefficient(c)
                if pc is None:
                    continue
                q, n = pc
                if u == DEG and n == 1:
                    self.problem(f"radian constant {c} added to an angle in degrees", t)
                if u == RAD and n == 0 and abs(q) in (90, 180, 270, 360):
                    self.problem(f"degree constant {c} added to an angle in radians", t)
            return u
        if isinstance(t, (sp.cos, sp.sin, sp.tan)):
            u = self.unit(t.args[0])
            self.checked += 1
            if u == DEG:
                self.problem(f"{t.func.__name__} applied to an angle in degrees", t)
            return NOUNIT
        if isinstance(t, sp.exp):
            a = t.args[0]
            if a.has(sp.I):
                u = self.unit(sp.simplify(a / sp.I))
                self.checked += 1
                if u == DEG:
                    self.problem("exp(i*x) applied to an angle in degrees", t)
            return NOUNIT
        if isinstance(t, (sp.atan2, sp.atan, sp.asin, sp.acos)):
            for a in t.args:
                self.unit(a)
            return RAD
        if isinstance(t, sp.Abs):
            return self.unit(t.args[0])
        if isinstance(t, sp.Pow):
            self.unit(t.args[0])
            self.unit(t.args[1])
            return NOUNIT
        f = fname(t)
        if f == "pymod":
            u = self.unit(t.args[0])
            m = t.args[1]
            pc = pi_coefficient(m) if m.is_number else None
            self.checked += 1
            if pc is not None and u in (DEG, RAD):
                q, n = pc
                if n == 1 and u == DEG:
                    self.problem(f"degrees wrapped with the radian period {m}", t)
                if n == 0 and q in (360, 180) and u == RAD:
                    self.problem(f"radians wrapped with the degree period {m}", t)
            if u in (DEG, RAD):
                return u
            if pc is not None:
                q, n = pc
                return RAD if n == 1 else (DEG if q in (360, 180) else u)
            return u
        if f == "angle":
            self.unit(t.args[0])
            return RAD
        if f in ("ite", "where"):
            self.unit(t.args[0])
            ua, ub = self.unit(t.args[1]), self.unit(t.args[2])
            if {ua, ub} == {DEG, RAD}:
                self.problem("branches of a selection carry different angle units", t)
                return UTOP
            return ua if ua in (DEG, RAD) else ub
        if f in ("item", "sel", "isel", "lastiter", "tabrow", "loopprefix"):
            u = self.unit(t.args[0])
            for a in t.args[1:]:
                self.unit(a)
            return u
        if f in ("loopsum", "loopsum_brk", "sum", "nansum"):
            return self.unit(t.args[0])
        if f in ("tabulate",):
            self.unit(t.args[0])
            return self.unit(t.args[2])
        if f in ("store",):
            self.unit(t.args[0])
            return self.unit(t.args[2])
        if f in ("lt", "ge", "eq", "ne"):
            ua, ub = self.unit(t.args[0]), self.unit(t.args[1])
            self.checked += 1 if DEG in (ua, ub) or RAD in (ua, ub) else 0
            if {ua, ub} == {DEG, RAD}:
                self.problem("comparison of an angle in degrees with an angle in radians", t)
            return NOUNIT
        for a in t.args:
            self.unit(a)
        return NOUNIT


# ============================================================================ frames
INV = ("inv",)
ZERO_T = ("zero",)


def ANG(k):
    return ("ang", k) if k != 0 else INV


# a difference of absolute angles: unchanged by a rotation of the frame only up to whole turns (a bin that crosses the seam of the
# direction grid jumps by a period).  Periodic functions and a wrap to a principal interval (Python's %, whose result has the sign
# of the divisor) make it invariant; magnitudes, comparisons and C-style remainders (sign of the dividend) do not.
INVMOD = ("invmod",)
WHOLE_TURNS = "a difference of directions is invariant only up to whole turns, and is used where whole turns matter without being " \
              "wrapped to a principal interval with % (floored modulo)"


def CS(kind, k):
    return ("cs", kind, k)


def MIXED(why):
    return ("mixed", why)


def swap_trig(t, to: str):
    """replace every cos of a non-invariant... simply: cos <-> target"""
    def fn(n):
        if to == "sin" and isinstance(n, sp.cos):
            return sp.sin(n.args[0])
        if to == "cos" and isinstance(n, sp.sin):
            return sp.cos(n.args[0])
        return None
    return T.rewrite(t, fn)


class FrameAnalysis:
    def __init__(self, seeds: List[Tuple[Callable, Tuple, str]]):
        self.seeds = seeds
        self.problems: List[Tuple[str, sp.Basic]] = []
        self.used: List[str] = []
        self.pairs_checked = 0
        self._memo: Dict = {}

    def problem(self, msg, t):
        if not any(m == msg and x == t for m, x in self.problems):
            self.problems.append((msg, t))

    def seed(self, t):
        for pred, ty, desc in self.seeds:
            try:
                if pred(t):
                    if desc not in self.used:
                        self.used.append(desc)
                    return ty
            except Exception:
                pass
        return None

    def swap(self, t, to: str):
        """cos <-> sin, but only for trigonometric functions of frame-dependent (absolute) angles"""
        def rec(n):
            if not isinstance(n, sp.Basic) or not n.args:
                return n
            if self.ftype(n) in (INV, ZERO_T):
                return n  # invariant sub-terms (relative angles, norms) are amplitudes: untouched
            if isinstance(n, (sp.cos, sp.sin)):
                if to == "sin" and isinstance(n, sp.cos):
                    return sp.sin(n.args[0])
                if to == "cos" and isinstance(n, sp.sin):
                    return sp.cos(n.args[0])
                return n
            new = [rec(a) for a in n.args]
            if all(x is y for x, y in zip(new, n.args)):
                return n
            try:
                return n.func(*new)
            except Exception:
                return n
        return rec(T.to_term(t))

    def is_pair(self, X, Y) -> bool:
        """Y is X with the cos-components replaced by sin-components (same amplitudes, same angles)."""
        self.pairs_checked += 1
        try:
            a = self.swap(X, "sin")
            if a == Y or sp.expand(a - Y) == 0:
                b = self.swap(Y, "cos")
                return b == X or sp.expand(b - X) == 0
            return False
        except Exception:
            return False

    def ftype(self, t) -> Tuple:
        t = T.to_term(t)
        r = self._memo.get(t)
        if r is None:
            r = self._ftype(t)
            if r[0] == "mixed" and self.seed(t) is None:
                # a definite "not covariant" needs every ingredient to be understood: an operand of unknown type makes it unknown
                for a in t.args:
                    ta = self.ftype(a) if isinstance(a, sp.Basic) else INV
                    if ta[0] == "unknown":
                        r = ta
                        break
            self._memo[t] = r
        return r

    def _ftype(self, t) -> Tuple:
        s = self.seed(t)
        if s is not None:
            return s
        if t == T.NAN_T:
            return ZERO_T  # "no value" is compatible with every frame type
        if t.is_number:
            return ZERO_T if t == 0 else INV
        if isinstance(t, sp.Symbol):
            return INV
        if isinstance(t, sp.Mul):
            numeric = sp.Mul(*[a for a in t.args if a.is_number]) if any(a.is_number for a in t.args) else sp.Integer(1)
            types = [(a, self.ftype(a)) for a in t.args if not a.is_number]
            non_inv = [(a, ty) for a, ty in types if ty not in (INV, ZERO_T)]
            if any(ty == ZERO_T for _, ty in types):
                return ZERO_T
            if not non_inv:
                return INV
            if any(ty[0] == "mixed" for _, ty in non_inv):
                return [ty for _, ty in non_inv if ty[0] == "mixed"][0]
            if len(non_inv) == 1:
                a, ty = non_inv[0]
                others = [x for x, _ in types if x is not a]
                if ty[0] == "ang":
                    if others:
                        return MIXED("absolute angle multiplied by a non-constant")
                    pc = pi_coefficient(numeric)
                    if pc is None:
                        return MIXED("absolute angle scaled by an irrational factor")
                    q, n = pc
                    # unit conversions (pi/180, 180/pi) keep the rotation weight, including its sign
                    w = ty[1] * (q * 180 if n == 1 else (q / 180 if n == -1 else q))
                    w = sp.nsimplify(w)
                    if w.is_Integer:
                        return ANG(int(w))
                    return MIXED(f"absolute angle scaled by {numeric}")
                if ty[0] == "cs":
                    return ty
                if ty == INVMOD:
                    return INVMOD
            # product of two vector components or of angles is not covariant
            kinds = {ty[0] for _, ty in non_inv}
            if kinds == {"cs"}:
                return MIXED("product of two vector components")
            return MIXED("product of frame-dependent factors")
        if isinstance(t, sp.Add):
            args = list(t.args)
            # X**2 + Y**2 with (X, Y) a covariant pair
            squares = [a for a in args if isinstance(a, sp.Pow) and a.args[1] == 2]
            rest = [a for a in args if a not in squares]
            used = set()
            for i, a in enumerate(squares):
                if i in used:
                    continue
                ta = self.ftype(a.args[0])
                if ta[0] != "cs":
                    continue
                for j, b in enumerate(squares):
                    if j <= i or j in used:
                        continue
                    tb = self.ftype(b.args[0])
                    if tb[0] == "cs" and tb[2] == ta[2] and tb[1] != ta[1]:
                        X, Y = (a.args[0], b.args[0]) if ta[1] == "cos" else (b.args[0], a.args[0])
                        if self.is_pair(X, Y):
                            used |= {i, j}
                        else:
                            self.problem("sum of squares of an east and a north component that do not form a "
                                         "cos/sin pair of the same vector", t)
            remaining = [a for k, a in enumerate(squares) if k not in used] + rest
            types = [self.ftype(a) for a in remaining]
            if used:
                types.append(INV)
            types = [ty for ty in types if ty != ZERO_T]
            if not types:
                return ZERO_T
            for ty in types:
                if ty[0] == "mixed":
                    return ty
            heads = {ty[0] for ty in types}
            if heads == {"inv"}:
                return INV
            if heads <= {"ang", "inv", "invmod"}:
                # constants/invariant offsets keep the rotation weight; weights add; absolute angles that cancel leave a difference
                # of directions, which is invariant only up to whole turns
                k = sum(ty[1] for ty in types if ty[0] == "ang")
                if k == 0 and heads & {"ang", "invmod"}:
                    return INVMOD
                return ANG(k)
            if heads == {"cs"}:
                kinds = {(ty[1], ty[2]) for ty in types}
                if len(kinds) == 1:
                    return types[0]
                return MIXED("sum of a cos-component and a sin-component (or of different harmonics)")
            return MIXED("sum of an invariant and a vector component")
        if isinstance(t, sp.Pow):
            b, e = t.args
            tb = self.ftype(b)
            self.ftype(e)
            if tb in (INV, ZERO_T):
                return INV if tb == INV else ZERO_T
            if tb[0] == "mixed":
                return tb
            return MIXED("power of a frame-dependent quantity outside a sum of squares")
        if isinstance(t, (sp.cos, sp.sin)):
            ta = self.ftype(t.args[0])
            if ta in (INV, ZERO_T, INVMOD):
                return INV
            if ta[0] == "ang":
                return CS("cos" if isinstance(t, sp.cos) else "sin", ta[1])
            return ta if ta[0] == "mixed" else MIXED("trigonometric function of a vector component")
        if isinstance(t, sp.atan2):
            Y, X = t.args
            ty, tx = self.ftype(Y), self.ftype(X)
            if ty in (INV, ZERO_T) and tx in (INV, ZERO_T):
                return INV
            if ty[0] == "cs" and tx[0] == "cs" and ty[2] == tx[2]:
                if ty[1] == "sin" and tx[1] == "cos":
                    if self.is_pair(X, Y):
                        return ANG(ty[2])
                    self.problem("atan2 of an east and a north component that are not the cos/sin parts of one vector", t)
                    return MIXED("atan2 of unrelated components")
                self.problem("atan2(y, x) called with the cos-component first and the sin-component second "
                             "(east/north swapped)", t)
                return MIXED("atan2 argument roles")
            if "unknown" in (ty[0], tx[0]):
                return ty if ty[0] == "unknown" else tx
            if "mixed" in (ty[0], tx[0]):
                return ty if ty[0] == "mixed" else tx
            self.problem("atan2 of quantities that are not a covariant (cos, sin) pair", t)
            return MIXED("atan2 operands")
        if isinstance(t, (sp.Abs, sp.exp, sp.log, sp.tanh, sp.sinh, sp.cosh, sp.atan, sp.sign, sp.floor)):
            ta = self.ftype(t.args[0])
            if ta in (INV, ZERO_T):
                return INV
            if ta == INVMOD:
                self.problem(WHOLE_TURNS, t)
                return MIXED("unwrapped difference of directions")
            return ta if ta[0] == "mixed" else MIXED(f"{t.func.__name__} of a frame-dependent quantity")
        f = fname(t)
        if f == "pymod":
            ta = self.ftype(t.args[0])
            self.ftype(t.args[1])
            if ta == INVMOD:
                # wrapped to one principal interval: whole turns are gone (only a full period does that)
                m = t.args[1]
                pc = pi_coefficient(m) if m.is_number else None
                full = m == 360 or (pc is not None and pc == (2, 1))
                return INV if full else INVMOD
            return ta
        if f in ("fmod", "ext_numpy_fmod", "ext_math_fmod"):
            ta = self.ftype(t.args[0])
            if ta in (INV, ZERO_T):
                return INV
            return ta       # the remainder keeps the sign of the dividend: whole turns are not removed for negative differences
        if f in ("ite", "where"):
            tc = self.ftype(t.args[0])
            if tc not in (INV, ZERO_T):
                self.problem("a selection is decided by a frame-dependent condition", t)
            ta, tb = self.ftype(t.args[1]), self.ftype(t.args[2])
            if ta == ZERO_T:
                return tb
            if tb == ZERO_T:
                return ta
            if ta == tb:
                return ta
            if ta[0] == "mixed":
                return ta
            if tb[0] == "mixed":
                return tb
            return MIXED("branches of a selection have different frame types")
        if f in ("lt", "ge", "eq", "ne", "and_", "or_", "not_", "isnull", "isfinite"):
            ts = [self.ftype(a) for a in t.args]
            if all(x in (INV, ZERO_T) for x in ts):
                return INV
            if INVMOD in ts and all(x in (INV, ZERO_T, INVMOD) for x in ts):
                self.problem(WHOLE_TURNS, t)
            return MIXED("comparison of frame-dependent quantities")
        if f in ("item", "sel", "isel", "lastiter", "tabrow", "loopprefix", "loopsum", "loopsum_brk", "sum", "nansum",
                 "max", "nanmax", "min", "maximum", "minimum"):
            return self.ftype(t.args[0])
        if f == "tabulate":
            return self.ftype(t.args[2])
        if f == "store":
            return self.ftype(t.args[2])
        if f in ("never", "keep"):
            return ZERO_T
        if f in ("outer", "ext_numpy_outer") and len(t.args) == 2:
            return self.ftype(t.args[0] * t.args[1])
        ts = [self.ftype(a) for a in t.args]
        for x in ts:
            if x[0] == "mixed":
                return x
        if all(x in (INV, ZERO_T) for x in ts):
            return INV
        return ("unknown", f"unmodelled operator {f} applied to frame-dependent operands")
