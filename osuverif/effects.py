"""Engine E4 -- effects and aliasing: which operands (self, other parameters) a function may mutate.

Abstract aliases of a local name: ``same`` (the operand object itself), ``part`` (an xarray object stored in
the operand: its dataset or one of its DataArrays), ``view`` (a numpy buffer of the operand's data) or ``fresh``.
A write through same/part/view is a mutation of the operand.  Summaries are computed per function and closed
transitively over resolved calls (methods through the receiver class's MRO, module functions, jitted kernels).
"""
from __future__ import annotations

import ast
from dataclasses import dataclass, field
from typing import Dict, List, Optional, Set, Tuple

from .model import Program, Function, Class

SAME, PART, VIEW, FRESH = "same", "part", "view", "fresh"
# a shallow copy: a new container whose variables still hold the operand's buffers.  Rebinding a variable of the copy is not a write
# to the operand; an in-place update of one (`copy[name] *= x`, `copy[name].values[...] = x`) is.
SHALLOW = "shallow"

# xarray / numpy operations that return a new object holding *new* data
FRESH_METHODS = {"fillna", "where", "assign", "sum", "mean", "std", "integrate", "argmax", "argmin", "max", "min",
                 "astype", "differentiate", "cumsum", "concat", "interp", "reindex_like", "diff", "isnull", "notnull", "all",
                 "any", "to_dataframe", "to_array", "reset_coords", "drop", "drop_vars", "rename", "expand_dims", "squeeze",
                 "transpose", "dropna", "flatten"}
# operations that may return views on the receiver's buffer
VIEW_METHODS = {"isel", "sel", "reshape", "ravel", "__getitem__"}
VIEW_ATTRS = {"values", "data", "T", "real", "imag"}
PART_ATTRS = {"dataset", "coords", "dims", "attrs", "variance_density", "spectral_values"}


@dataclass
class Write:
    root: str          # operand (parameter) name
    kind: str          # item-store | buffer-store | rebind | mutator-call | kernel-arg
    node: ast.AST
    text: str
    guards: Tuple[str, ...]   # enclosing `if` tests
    alias_guards: Tuple[str, ...]  # guards under which the alias to the operand was created
    via: str = ""


@dataclass
class Summary:
    func: Function
    writes: List[Write] = field(default_factory=list)
    mutated_params: Set[str] = field(default_factory=set)


class Effects:
    def __init__(self, program: Program):
        self.p = program
        self.summaries: Dict[Tuple[Function, Optional[Class]], Summary] = {}
        self.in_progress: Set[Tuple[Function, Optional[Class]]] = set()

    # ------------------------------------------------------------------ helpers
    def enclosing_tests(self, func_node, target) -> Tuple[str, ...]:
        tests = []

        def rec(stmts, acc):
            for st in stmts:
                if st is target or any(n is target for n in ast.walk(st)) and not isinstance(st, (ast.If, ast.For, ast.While, ast.With, ast.Try)):
                    if any(n is target for n in ast.walk(st)):
                        tests.extend(acc)
                        return True
                if isinstance(st, ast.If):
                    if any(n is target for n in ast.walk(st.test)):
                        tests.extend(acc)
                        return True
                    if rec(st.body, acc + [ast.unparse(st.test)]):
                        return True
                    if rec(st.orelse, acc + ["not (" + ast.unparse(st.test) + ")"]):
                        return True
                elif isinstance(st, (ast.For, ast.While, ast.With, ast.AsyncWith, ast.AsyncFor)):
                    if rec(st.body, acc) or rec(getattr(st, "orelse", []), acc):
                        return True
                    hdr = [st.iter] if isinstance(st, (ast.For, ast.AsyncFor)) else ([st.test] if isinstance(st, ast.While) else
                                                                                       [i.context_expr for i in st.items])
                    if any(n is target for h in hdr for n in ast.walk(h)):
                        tests.extend(acc)
                        return True
                elif isinstance(st, ast.Try):
                    if rec(st.body, acc) or rec(st.orelse, acc) or rec(st.finalbody, acc):
                        return True
                    for h in st.handlers:
                        if rec(h.body, acc):
                            return True
            return False

        rec(func_node.body, [])
        return tuple(tests)

    def property_alias(self, cls: Optional[Class], attr: str) -> Optional[str]:
        """does property `attr` of cls return stored state (part) or a computed value (fresh)?"""
        if cls is None:
            return None
        m = cls.find_method(attr)
        if m is None or not m.is_property:
            return None
        rets = [n for n in ast.walk(m.node) if isinstance(n, ast.Return) and n.value is not None]
        kinds = set()
        for r in rets:
            kinds.add(self._expr_kind_simple(r.value))
        if kinds == {PART}:
            return PART
        return FRESH

    def _expr_kind_simple(self, e) -> str:
        # self.dataset[...] / self.dataset -> part ; anything else fresh
        if isinstance(e, ast.Subscript) and isinstance(e.value, ast.Attribute) and isinstance(e.value.value, ast.Name) \
                and e.value.value.id == "self" and e.value.attr == "dataset":
            return PART
        if isinstance(e, ast.Attribute) and isinstance(e.value, ast.Name) and e.value.id == "self" and e.attr == "dataset":
            return PART
        return FRESH

    # ------------------------------------------------------------------ alias of an expression
    def alias_of(self, e: ast.AST, aliases: Dict[str, List[Tuple[str, str, Tuple[str, ...]]]], f: Function,
                 recv_cls: Optional[Class]) -> List[Tuple[str, str]]:
        """list of (root, kind) the value of e may alias"""
        if isinstance(e, ast.Name):
            return [(r, k) for r, k, _ in aliases.get(e.id, [])]
        if isinstance(e, ast.Attribute):
            base = self.alias_of(e.value, aliases, f, recv_cls)
            out = []
            for root, kind in base:
                if kind == FRESH:
                    continue
                if e.attr in VIEW_ATTRS:
                    out.append((root, VIEW))
                elif kind == SAME:
                    cls = recv_cls if root == "self" else None
                    pa = self.property_alias(cls, e.attr) if cls is not None else None
                    if e.attr in PART_ATTRS and pa is None:
                        out.append((root, PART))
                    elif pa == PART:
                        out.append((root, PART))
                    elif pa == FRESH:
                        continue
                    elif cls is None and e.attr in ("e", "a1", "b1", "a2", "b2", "frequency", "direction", "depth",
                                                    "latitude", "longitude", "time"):
                        # unknown receiver class: a 1-D spectrum returns its stored arrays
                        out.append((root, PART))
                    else:
                        out.append((root, PART)) if e.attr in PART_ATTRS else None
                elif kind in (PART, VIEW):
                    out.append((root, kind))
                elif kind == SHALLOW:
                    out.append((root, SHALLOW))
            return out
        if isinstance(e, ast.Subscript):
            base = self.alias_of(e.value, aliases, f, recv_cls)
            return [(r, k if k != SAME else PART) for r, k in base if k != FRESH]
        if isinstance(e, ast.Call):
            fn = e.func
            if isinstance(fn, ast.Attribute):
                base = self.alias_of(fn.value, aliases, f, recv_cls)
                if fn.attr == "copy":
                    # numpy copies are deep; the wrapper's copy() is deep by default; xarray's Dataset/DataArray.copy() is shallow by
                    # default (new container, same buffers)
                    deep = None
                    for k_ in e.keywords:
                        if k_.arg == "deep" and isinstance(k_.value, ast.Constant):
                            deep = bool(k_.value.value)
                        elif k_.arg == "deep":
                            deep = False  # not a constant: may be shallow
                    if e.args and isinstance(e.args[0], ast.Constant):
                        deep = bool(e.args[0].value)
                    out_ = []
                    for r_, k_ in base:
                        if k_ in (FRESH, VIEW):
                            continue
                        d_ = deep if deep is not None else (k_ == SAME)
                        if not d_:
                            out_.append((r_, SHALLOW))
                    return out_
                if fn.attr in FRESH_METHODS:
                    return []
                if fn.attr in VIEW_METHODS:
                    return [(r, VIEW if k == VIEW else PART) for r, k in base if k != FRESH]
                # method on the operand returning itself (e.g. multiply(inplace=True)) is handled by summaries
                return []
            if isinstance(fn, ast.Name) and fn.id in ("np.asarray",):
                return []
            r = self.p.resolve_expr(f.module, fn) if isinstance(fn, (ast.Name, ast.Attribute)) else None
            if isinstance(r, tuple) and r[0] == "ext" and r[1] in ("numpy.asarray", "numpy.atleast_1d", "numpy.reshape",
                                                                    "numpy.ravel", "numpy.squeeze") and e.args:
                return [(x, VIEW) for x, k in self.alias_of(e.args[0], aliases, f, recv_cls) if k != FRESH]
            return []
        if isinstance(e, ast.IfExp):
            return self.alias_of(e.body, aliases, f, recv_cls) + self.alias_of(e.orelse, aliases, f, recv_cls)
        return []

    # ------------------------------------------------------------------ summary
    def summary(self, f: Function, recv_cls: Optional[Class] = None) -> Summary:
        key = (f, recv_cls)
        if key in self.summaries:
            return self.summaries[key]
        if key in self.in_progress:
            return Summary(f)
        self.in_progress.add(key)
        s = Summary(f)
        params = [a.arg for a in f.node.args.posonlyargs + f.node.args.args]
        aliases: Dict[str, List[Tuple[str, str, Tuple[str, ...]]]] = {pn: [(pn, SAME, ())] for pn in params}
        # two passes so that aliases defined later in loops are seen (flow-insensitive)
        assigns = []
        for n in self._own(f.node):
            if isinstance(n, ast.Assign):
                for t in n.targets:
                    assigns.append((t, n.value, n))
            elif isinstance(n, ast.AnnAssign) and n.value is not None:
                assigns.append((n.target, n.value, n))
            elif isinstance(n, ast.NamedExpr):
                assigns.append((n.target, n.value, n))
        for _ in range(3):
            for t, v, node in assigns:
                if isinstance(t, ast.Name):
                    al = self.alias_of(v, aliases, f, recv_cls)
                    guards = self.enclosing_tests(f.node, node)
                    cur = aliases.setdefault(t.id, [])
                    if t.id in params and not al:
                        # parameter rebound to a fresh value: later writes do not reach the operand (flow-insensitive: keep both)
                        pass
                    for root, kind in al:
                        ent = (root, kind, guards)
                        if ent not in cur:
                            cur.append(ent)
                elif isinstance(t, (ast.Tuple, ast.List)):
                    pass
        # writes
        for n in self._own(f.node):
            targets = []
            if isinstance(n, ast.Assign):
                targets = n.targets
            elif isinstance(n, (ast.AugAssign, ast.AnnAssign)):
                targets = [n.target]
            for t in targets:
                for el in (t.elts if isinstance(t, (ast.Tuple, ast.List)) else [t]):
                    if isinstance(el, ast.Subscript):
                        for root, kind, ag in self._alias_entries(el.value, self._aliases_at(f, recv_cls, n, el.value, aliases), f, recv_cls):
                            if kind == FRESH:
                                continue
                            if kind == SHALLOW and not isinstance(n, ast.AugAssign):
                                continue  # rebinding a variable of a shallow copy leaves the operand alone
                            # `x[name] op= v` on an xarray container updates the stored array in place: every object sharing the buffer
                            # (views from isel / slicing / flatten, shallow copies) changes with it
                            aug_inplace = isinstance(n, ast.AugAssign) and not self._scalar_slot(el)
                            k = "buffer-store" if (kind in (VIEW, SHALLOW) or aug_inplace) else "item-store"
                            s.writes.append(Write(root, k, n, ast.unparse(n if aug_inplace else el)[:80], self.enclosing_tests(f.node, n), ag))
                    elif isinstance(el, ast.Name) and isinstance(n, ast.AugAssign):
                        # `x = operand["key"]` / `x = operand[a:b]` / `x = operand.values` followed by `x op= ...`: for an array this is an
                        # in-place update of the operand's data, not a rebinding (element reads `operand[i]` are scalars and excluded)
                        for d in self._own(f.node):
                            if not (isinstance(d, ast.Assign) and any(isinstance(t_, ast.Name) and t_.id == el.id for t_ in d.targets)):
                                continue
                            v = d.value
                            sl = v.slice if isinstance(v, ast.Subscript) else None
                            arrayish = (isinstance(sl, ast.Slice) or (isinstance(sl, ast.Constant) and isinstance(sl.value, str))
                                        or (isinstance(sl, ast.Tuple) and any(isinstance(x, ast.Slice) for x in sl.elts))
                                        or (isinstance(v, ast.Attribute) and v.attr in ("values", "data")))
                            if not arrayish or getattr(d, "lineno", 0) > getattr(n, "lineno", 0):
                                continue
                            for root, kind, ag in self._alias_entries(v, aliases, f, recv_cls):
                                if kind != FRESH:
                                    s.writes.append(Write(root, "buffer-store", n, f"{ast.unparse(d)[:50]}; {ast.unparse(n)[:40]}",
                                                          self.enclosing_tests(f.node, n), ag))
                    elif isinstance(el, ast.Attribute):
                        for root, kind, ag in self._alias_entries(el.value, aliases, f, recv_cls):
                            if kind in (SAME, PART) and not (f.name == "__init__" and root == "self"):
                                if el.attr in ("name", "attrs"):
                                    continue
                                s.writes.append(Write(root, "rebind", n, ast.unparse(el)[:80], self.enclosing_tests(f.node, n), ag))
            if isinstance(n, ast.Call):
                self._call_effects(n, f, recv_cls, aliases, s)
        s.mutated_params = {w.root for w in s.writes}
        self.in_progress.discard(key)
        self.summaries[key] = s
        return s

    def _aliases_at(self, f, recv_cls, stmt, expr, aliases):
        """flow-sensitive refinement for the base name of `expr` at statement `stmt`: when an assignment `name = value` precedes the
        statement unconditionally in the same block or an enclosing one (no other assignment to the name in between), the name holds
        that value there - `if x is None: x = {}; x[k] = v` writes the fresh dict, not the caller's."""
        base = expr
        while isinstance(base, (ast.Attribute, ast.Subscript, ast.Call)):
            base = base.value if not isinstance(base, ast.Call) else base.func
        if not isinstance(base, ast.Name):
            return aliases
        name = base.id

        def assigns_name(node):
            for x in ast.walk(node):
                if isinstance(x, (ast.Assign, ast.AnnAssign, ast.AugAssign, ast.NamedExpr, ast.For)):
                    tg = x.targets if isinstance(x, ast.Assign) else [x.target]
                    for t in tg:
                        if any(isinstance(y, ast.Name) and y.id == name and isinstance(y.ctx, ast.Store) for y in ast.walk(t)):
                            return True
            return False

        def path_to(stmts):
            for i, st in enumerate(stmts):
                if st is stmt:
                    return [(stmts, i)]
                for fld in ("body", "orelse", "finalbody"):
                    sub = getattr(st, fld, None)
                    if isinstance(sub, list) and sub and isinstance(sub[0], ast.stmt):
                        r = path_to(sub)
                        if r is not None:
                            return [(stmts, i)] + r
                for h in getattr(st, "handlers", []) or []:
                    r = path_to(h.body)
                    if r is not None:
                        return [(stmts, i)] + r
            return None

        path = path_to(f.node.body)
        if path is None:
            return aliases
        for stmts, i in reversed(path):
            # a loop around the statement may carry a later assignment back to it
            for st in reversed(stmts[:i]):
                if isinstance(st, ast.Assign) and len(st.targets) == 1 and isinstance(st.targets[0], ast.Name) and st.targets[0].id == name:
                    al = self.alias_of(st.value, aliases, f, recv_cls)
                    out = dict(aliases)
                    out[name] = [(r, k, ()) for r, k in al]
                    return out
                if assigns_name(st):
                    return aliases
            owner = None
            # stop refining when leaving a loop body (the name may be reassigned later in the loop)
            idx = path.index((stmts, i))
            if idx > 0:
                owner = path[idx - 1][0][path[idx - 1][1]]
            if isinstance(owner, (ast.For, ast.While)) and assigns_name(owner):
                return aliases
        return aliases

    @staticmethod
    def _scalar_slot(el: ast.Subscript) -> bool:
        """a slot addressed by a literal number holds a number (`counts[0] += 1`); the slots of the operands' xarray containers are
        addressed by variable names and hold arrays"""
        sl = el.slice
        return isinstance(sl, ast.Constant) and not isinstance(sl.value, str)

    def _own(self, node):
        stack = list(ast.iter_child_nodes(node))
        while stack:
            n = stack.pop()
            if isinstance(n, (ast.FunctionDef, ast.AsyncFunctionDef, ast.Lambda)):
                continue
            yield n
            stack.extend(ast.iter_child_nodes(n))

    def _alias_entries(self, e, aliases, f, recv_cls):
        """(root, kind, alias_guards) for expression e"""
        if isinstance(e, ast.Name):
            return list(aliases.get(e.id, []))
        base = e
        while isinstance(base, (ast.Attribute, ast.Subscript, ast.Call)):
            base = base.value if not isinstance(base, ast.Call) else base.func
        bguards = {}
        if isinstance(base, ast.Name):
            for r, k, g in aliases.get(base.id, []):
                bguards.setdefault(r, set()).update(g if g else ("<unconditional>",))
        out = []
        for r, k in self.alias_of(e, aliases, f, recv_cls):
            g = bguards.get(r, set())
            out.append((r, k, () if "<unconditional>" in g or not g else tuple(sorted(g))))
        return out

    def _call_effects(self, call: ast.Call, f: Function, recv_cls, aliases, s: Summary):
        fn = call.func
        guards = self.enclosing_tests(f.node, call)
        # method call on an alias of an operand
        if isinstance(fn, ast.Attribute):
            for root, kind, ag in self._alias_entries(fn.value, aliases, f, recv_cls):
                if kind == SAME:
                    cls = recv_cls if root == "self" else None
                    if cls is None and not self._may_be_spectrum(f, root):
                        continue
                    classes = [cls] if cls is not None else self._spectrum_classes()
                    for c in classes:
                        m = c.find_method(fn.attr) if c is not None else None
                        if m is None or m.is_property:
                            continue
                        sub = self.summary(m, c)
                        for w in sub.writes:
                            if w.root == "self":
                                # opt-in flags passed explicitly are evaluated at this call site
                                if self._optin_disabled(w, m, call):
                                    continue
                                s.writes.append(Write(root, "mutator-call", call, f"{ast.unparse(fn)}() -> {w.text}", guards, ag,
                                                      via=m.qualname))
                                break
                elif kind in (PART, VIEW) and fn.attr in ("fill", "sort", "put", "itemset", "resize", "update", "pop", "clear",
                                                           "__setitem__", "load"):
                    if fn.attr == "load":
                        continue
                    s.writes.append(Write(root, "buffer-store", call, ast.unparse(call)[:80], guards, ag))
        # arguments handed to functions that mutate their parameters
        r = self.p.resolve_expr(f.module, fn) if isinstance(fn, (ast.Name, ast.Attribute)) else None
        if isinstance(r, Function):
            sub = self.summary(r, None)
            if sub.mutated_params:
                formals = [a.arg for a in r.node.args.posonlyargs + r.node.args.args]
                bound = dict(zip(formals, call.args))
                for k in call.keywords:
                    if k.arg:
                        bound[k.arg] = k.value
                for pn in sub.mutated_params:
                    if pn in bound:
                        for root, kind in self.alias_of(bound[pn], aliases, f, recv_cls):
                            if kind != FRESH:
                                s.writes.append(Write(root, "kernel-arg", call,
                                                      f"{ast.unparse(bound[pn])[:50]} -> {r.name}({pn}) which writes its argument",
                                                      guards, (), via=r.qualname))

    def _optin_disabled(self, w: Write, m: Function, call: ast.Call) -> bool:
        """write in m happens only through an alias created under `if <param>`; is <param> false at this call?"""
        flags = [g for g in w.alias_guards if g.isidentifier()]
        if not flags:
            return False
        formals = [a.arg for a in m.node.args.posonlyargs + m.node.args.args][1:]
        bound = dict(zip(formals, call.args))
        for k in call.keywords:
            if k.arg:
                bound[k.arg] = k.value
        for fl in flags:
            if fl in bound:
                v = bound[fl]
                return isinstance(v, ast.Constant) and not v.value
            # default
            defaults = m.node.args.defaults
            names = [a.arg for a in m.node.args.args]
            dmap = dict(zip(names[len(names) - len(defaults):], defaults))
            d = dmap.get(fl)
            if isinstance(d, ast.Constant) and not d.value:
                return True
        return False

    def _may_be_spectrum(self, f: Function, pname: str) -> bool:
        for a in f.node.args.posonlyargs + f.node.args.args:
            if a.arg == pname:
                if a.annotation is None:
                    return True
                t = ast.unparse(a.annotation)
                if any(x in t for x in ("DataArray", "ndarray", "Dataset", "NDArray", "float", "int", "str", "bool", "Dict", "List")) \
                        and "Spectrum" not in t:
                    return False
                return True
        return True

    def _spectrum_classes(self) -> List[Class]:
        out = []
        for q in ("wavespectra.spectrum.FrequencySpectrum", "wavespectra.spectrum.FrequencyDirectionSpectrum"):
            c = self.p.classes.get(q)
            if c is not None:
                out.append(c)
        return out
