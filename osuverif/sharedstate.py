"""Module-level mutable defaults must not be written by library functions (engine E4b).

A module-level name bound to a dict / list / set display (or dict()/list()/set() call) is shared by every later call in the
process.  The analysis is a forward may-alias dataflow on the statement CFG of each function: a local name may alias such a
global (or one of the function's own parameters, for the interprocedural summary) after `x = G`, `x = G if c else y`,
`x = y or G`, `x = (y := G)`.  Any in-place write through a name that may alias a module-level mutable - a mutator method,
an item store/delete, an in-place operator, or a call that hands it to a function whose summary says it mutates that
parameter - is reported.  Re-binding (`x = G | other`, `x = dict(G)`, `x = G.copy()`) creates a fresh object and ends the
alias.
"""
from __future__ import annotations

import ast
from dataclasses import dataclass
from typing import Dict, FrozenSet, List, Optional, Set, Tuple

from .cfg import CFG, ENTRY, header_nodes, stmt_defs
from .model import Program, Function, Module

MUTATORS = {"update", "pop", "popitem", "clear", "setdefault", "append", "extend", "insert", "remove", "sort", "reverse",
            "add", "discard", "difference_update", "intersection_update", "symmetric_difference_update", "__setitem__",
            "__delitem__", "__ior__"}
FRESH_CALLS = {"dict", "list", "set", "defaultdict", "OrderedDict"}


def mutable_globals(m: Module) -> Dict[str, ast.expr]:
    out = {}
    for name, val in m.assigns.items():
        if isinstance(val, (ast.Dict, ast.List, ast.Set, ast.DictComp, ast.ListComp, ast.SetComp)):
            out[name] = val
        elif isinstance(val, ast.Call) and isinstance(val.func, ast.Name) and val.func.id in FRESH_CALLS:
            out[name] = val
    return out


@dataclass(frozen=True)
class Finding:
    func: Function
    node: ast.AST
    source: str       # "global:<module>.<NAME>" or "param:<name>"
    how: str


class SharedState:
    def __init__(self, program: Program):
        self.p = program
        self.globals: Dict[Tuple[str, str], ast.expr] = {}
        for m in program.modules.values():
            for n, v in mutable_globals(m).items():
                self.globals[(m.name, n)] = v
        self.param_mut: Dict[str, Set[str]] = {}      # qualname -> params written in place
        self.findings: List[Finding] = []
        self.functions_analysed = 0
        self.alias_sites = 0
        self._solve()

    # ------------------------------------------------------------------ sources
    def _global_source(self, f: Function, name: str, local_names: Set[str]) -> Optional[str]:
        if name in local_names:
            return None
        m = f.module
        if name in m.assigns and (m.name, name) in self.globals:
            return f"global:{m.name}.{name}"
        if name in m.imports and m.imports[name][0] != "module":
            _, mod, sym = m.imports[name]
            tm = self.p.module_of(mod)
            if tm is not None and (tm.name, sym) in self.globals:
                return f"global:{tm.name}.{sym}"
        return None

    def _attr_global(self, f: Function, e: ast.Attribute) -> Optional[str]:
        if isinstance(e.value, ast.Name):
            r = self.p.resolve_name(f.module, e.value.id)
            if isinstance(r, Module) and (r.name, e.attr) in self.globals:
                return f"global:{r.name}.{e.attr}"
        return None

    def _may_be(self, f: Function, e: ast.expr, state: Dict[str, FrozenSet[str]], local_names: Set[str]) -> FrozenSet[str]:
        """Sources whose object the expression may evaluate to (identity, not a copy)."""
        if isinstance(e, ast.Name):
            if e.id in state:
                return state[e.id]
            g = self._global_source(f, e.id, local_names)
            return frozenset([g]) if g else frozenset()
        if isinstance(e, ast.Attribute):
            g = self._attr_global(f, e)
            return frozenset([g]) if g else frozenset()
        if isinstance(e, ast.IfExp):
            return self._may_be(f, e.body, state, local_names) | self._may_be(f, e.orelse, state, local_names)
        if isinstance(e, ast.BoolOp):
            out = frozenset()
            for v in e.values:
                out |= self._may_be(f, v, state, local_names)
            return out
        if isinstance(e, ast.NamedExpr):
            return self._may_be(f, e.value, state, local_names)
        return frozenset()

    # ------------------------------------------------------------------ per function
    def _analyse(self, f: Function, report: bool) -> Set[str]:
        node = f.node
        if not isinstance(node, (ast.FunctionDef, ast.AsyncFunctionDef)):
            return set()
        cfg = CFG(node, exceptions=True)
        params = [a.arg for a in node.args.posonlyargs + node.args.args + node.args.kwonlyargs]
        local_names: Set[str] = set(params)
        declared_global: Set[str] = set()
        for st in ast.walk(node):
            if isinstance(st, ast.Global):
                declared_global |= set(st.names)
        for st in cfg.stmts:
            local_names |= stmt_defs(st)
        local_names -= declared_global
        init = {pn: frozenset([f"param:{pn}"]) for pn in params if pn not in ("self", "cls")}
        nodes = list(cfg.g.nodes)
        IN: Dict[object, Dict[str, FrozenSet[str]]] = {n: {} for n in nodes}
        OUT: Dict[object, Dict[str, FrozenSet[str]]] = {n: {} for n in nodes}
        OUT[ENTRY] = dict(init)

        def join(ds):
            out: Dict[str, FrozenSet[str]] = {}
            for d in ds:
                for k, v in d.items():
                    out[k] = out.get(k, frozenset()) | v
            return out

        def transfer(st, state):
            new = dict(state)
            if isinstance(st, ast.Assign):
                src = self._may_be(f, st.value, state, local_names)
                for t in st.targets:
                    if isinstance(t, ast.Name):
                        if src:
                            new[t.id] = src
                        else:
                            new.pop(t.id, None)
                    elif isinstance(t, (ast.Tuple, ast.List)):
                        for x in ast.walk(t):
                            if isinstance(x, ast.Name):
                                new.pop(x.id, None)
            elif isinstance(st, ast.AnnAssign) and st.value is not None and isinstance(st.target, ast.Name):
                src = self._may_be(f, st.value, state, local_names)
                if src:
                    new[st.target.id] = src
                else:
                    new.pop(st.target.id, None)
            elif isinstance(st, (ast.For, ast.AsyncFor, ast.With, ast.AsyncWith)):
                for d in stmt_defs(st):
                    new.pop(d, None)
            if isinstance(st, ast.AST):
                for n in header_nodes(st):
                    if isinstance(n, ast.NamedExpr) and isinstance(n.target, ast.Name):
                        src = self._may_be(f, n.value, state, local_names)
                        if src:
                            new[n.target.id] = src
            return new

        changed = True
        while changed:
            changed = False
            for n in nodes:
                if n == ENTRY:
                    continue
                preds = list(cfg.g.predecessors(n))
                new_in = join([OUT[q] for q in preds])
                new_out = transfer(n, new_in) if isinstance(n, ast.AST) else new_in
                if new_in != IN[n] or new_out != OUT[n]:
                    IN[n], OUT[n] = new_in, new_out
                    changed = True

        mutated_params: Set[str] = set()

        def hit(sources, where, how):
            for s in sorted(sources):
                if s.startswith("param:"):
                    mutated_params.add(s[6:])
                elif report:
                    self.findings.append(Finding(f, where, s, how))

        for st in cfg.stmts:
            state = IN.get(st, {})
            mb = lambda e: self._may_be(f, e, state, local_names)   # noqa: E731
            if isinstance(st, (ast.Assign, ast.AugAssign, ast.AnnAssign, ast.Delete)):
                targets = st.targets if isinstance(st, (ast.Assign, ast.Delete)) else [st.target]
                for t in targets:
                    for x in ([t] if not isinstance(t, (ast.Tuple, ast.List)) else list(t.elts)):
                        if isinstance(x, ast.Subscript):
                            hit(mb(x.value), st, "item " + ("delete" if isinstance(st, ast.Delete) else "store"))
                        elif isinstance(st, ast.AugAssign) and isinstance(x, (ast.Name, ast.Attribute)):
                            src = mb(x)
                            # `G |= other` / `G += [..]` update a dict / list in place
                            hit(src, st, "in-place operator")
            if isinstance(st, ast.Assign):
                src = mb(st.value)
                if any(s.startswith("global:") for s in src):
                    self.alias_sites += 1 if report else 0
            for n in header_nodes(st):
                if not isinstance(n, ast.Call):
                    continue
                if isinstance(n.func, ast.Attribute) and n.func.attr in MUTATORS:
                    hit(mb(n.func.value), n, f"mutator .{n.func.attr}()")
                callee = self.p.resolve_expr(f.module, n.func) if isinstance(n.func, (ast.Name, ast.Attribute)) else None
                if isinstance(callee, Function) and callee.qualname in self.param_mut:
                    cparams = callee.params
                    off = 1 if (callee.cls is not None and not callee.is_static and cparams and cparams[0] in ("self", "cls")
                                and isinstance(n.func, ast.Attribute)) else 0
                    mp = self.param_mut[callee.qualname]
                    for i, a in enumerate(n.args):
                        if i + off < len(cparams) and cparams[i + off] in mp:
                            hit(mb(a), n, f"passed to {callee.qualname}({cparams[i + off]}=...) which writes it in place")
                    for kw in n.keywords:
                        if kw.arg in mp:
                            hit(mb(kw.value), n, f"passed to {callee.qualname}({kw.arg}=...) which writes it in place")
        return mutated_params

    def _solve(self):
        funcs = [f for f in self.p.all_functions if isinstance(f.node, (ast.FunctionDef, ast.AsyncFunctionDef))]
        for f in funcs:
            self.param_mut[f.qualname] = set()
        for _ in range(6):
            changed = False
            for f in funcs:
                mp = self._analyse(f, report=False)
                if mp - self.param_mut[f.qualname]:
                    self.param_mut[f.qualname] |= mp
                    changed = True
            if not changed:
                break
        self.findings = []
        for f in funcs:
            self._analyse(f, report=True)
            self.functions_analysed += 1
        seen = set()
        uniq = []
        for fd in self.findings:
            k = (fd.func.qualname, getattr(fd.node, "lineno", 0), getattr(fd.node, "col_offset", 0), fd.source, fd.how)
            if k not in seen:
                seen.add(k)
                uniq.append(fd)
        self.findings = uniq


def shared_default_rule(ctx, rule: str, module_prefixes: Tuple[str, ...], min_globals: int = 1):
    """Report every in-place write to a module-level mutable of the given modules, from anywhere in the package."""
    p = ctx.program
    ss = SharedState(p)
    watched = {k: v for k, v in ss.globals.items() if k[0].startswith(module_prefixes)}
    for (mn, name), val in sorted(watched.items()):
        tag = f"{mn}.{name}"
        bad = [fd for fd in ss.findings if fd.source == f"global:{tag}"]
        m = p.modules[mn]
        if bad:
            for fd in bad:
                ctx.bad(rule, f"{fd.func.qualname}[writes {name}]",
                        f"the module-level default `{name}` is shared by every later call; this {fd.how} changes it for the rest of the "
                        "process, so a later call with default settings no longer behaves like a first call",
                        fd.func.loc(fd.node), derived=ast.unparse(fd.node)[:120], required="work on a copy (`dict(G)`, `G | other`)")
        else:
            ctx.ok(rule, f"{tag}[never written in place]",
                   f"no function of the package writes the module-level default `{name}` in place, directly, through a local alias "
                   f"or through a callee that writes its parameter ({ss.functions_analysed} functions analysed)",
                   f"{m.relpath}:{val.lineno}")
    return ss, watched
