"""C13 -- linear interpolation: bracketing, weights, corner sum, pass-through, spectra wiring, call binding."""
from __future__ import annotations

import ast

import sympy as sp

from .. import terms as T
from ..terms import P, op, Str, fname, CMP, AND, NONE_T
from ..interp import Interp, Obj, Env, DatasetVal
from ..callgraph import CallGraph
from .. import binding, envres
from ..mini import must_fire
from .common import WRAPDIFF, CLS_1D, CLS_2D, CLS_WS, spectrum_self, spec_interp, DS, dsv
from .fc import own_walk, calls, call_name

GRIDF = "tools.grid.enclosing_points_1d"
WEIGHTS = "interpolate.general.interpolation_weights_1d"
ND = "interpolate.nd_interp.NdInterpolator"
DSM = "interpolate.dataset."
EXPLANATION = (
    "TermFlow evaluates enclosing_points_1d and interpolation_weights_1d with symbolic grids and targets (ascending and "
    "descending case by assumption, linear and nearest mode). Decided: bracketing = (i-1, i) with i = searchsorted(xp, x, "
    "side='right'), clipped to [0, n-1]; the descending-grid transform (xp0 - x, xp0 - xp) is the same in both functions; "
    "weights[0] = 1 - frac, weights[1] = frac with frac = (x - xp[i0]) / (xp[i1] - xp[i0]) inside [xp0, xp_last), NaN left "
    "and right of the grid when the extrapolate flags are false (which NdInterpolator.interpolate passes), 0 exactly at "
    "the right end, rint(frac) in nearest mode. Corner sum: value = sum(w*v)/sum(w) over corners that are not NaN and "
    "have positive weight, returned only where sum(w) > 0.5, else NaN. Dataset wiring: variables lacking the coordinate "
    "pass through unchanged, time coordinates go through to_datetime64, the nearest flag is forwarded. Spectra: "
    "interpolate/interpolate_frequency fill the *new* object with the caller's extrapolation value; the 1-D class "
    "interpolates moment*e and divides by the interpolated e; the nearest flag reaches interpolate_dataset_grid's own "
    "parameter; no Dataset(<Dataset>) wrapper. Not decided: node exactness, boundedness and exactness for linear data "
    "(numerical consequences of these clauses)."
)


def store_chain(t):
    """store(store(base, m1, v1), m2, v2) -> (base, [(m1, v1), (m2, v2)])"""
    out = []
    while fname(t) == "store":
        out.append((t.args[1], t.args[2]))
        t = t.args[0]
    return t, list(reversed(out))


def run(ctx):
    ctx.explanation = EXPLANATION
    p = ctx.program
    ctx.trust("np.searchsorted(a, v, side='right'): first index i with v < a[i]", "np.clip", "np.rint rounds to the nearest integer",
              "boolean-mask assignment a[m] = v")
    xp, x, idx = P("xp"), P("x"), P("indices")
    desc = CMP("lt", op("item", xp, sp.Integer(-1)), op("item", xp, sp.Integer(0)))
    fg = p.get_function(GRIDF)
    fw = p.get_function(WEIGHTS)

    def interp(ascending=True, nonnull=()):
        it = Interp(p, opaque={WRAPDIFF: "wrapdiff"})
        it.hooks["wavetheory.wavetheory_tools.atleast_1d"] = lambda _it, f, a, k, e, n: a[0]
        if ascending is True:
            it.assume_true.append(lambda c: c == T.NOT(desc))
        elif ascending is False:
            it.assume_true.append(lambda c: c == desc)
        for n in nonnull:
            it.nonnull.add(n)
        return it

    # ---- R13.1 bracketing
    it = interp(True)
    r = hoist_rowwise(T.to_term(it.call_function(fg, [xp, x, False, None], {}, None)))
    br = bracket_rows(r.args[0]) if fname(r) == "clip" and len(r.args) == 3 else None
    ok = br is not None and r.args[1] == 0 and sp.expand(r.args[2] - (op("len", xp) - 1)) == 0
    row_limits = [r_.args[1:] for r_ in r.args[0].args] if fname(r) == "stack" and r.args and isinstance(r.args[0], sp.Tuple) and all(
        fname(r_) == "clip" and len(r_.args) == 3 for r_ in r.args[0].args) else None
    if not ok and row_limits and any(a != 0 or sp.expand(b - (op("len", xp) - 1)) != 0 for a, b in row_limits):
        ctx.bad("R13.1", "enclosing_points_1d[clip]", "the rows of the index table are limited separately and not all to [0, n-1]",
                fg.loc(), derived=str(row_limits))
    elif not ok and br is None and any(fname(n) in ("clip", "minimum", "maximum") for n in sp.preorder_traversal(r)):
        # some limiting is applied, but not in a shape the rule reads: no verdict
        ctx.unsure("R13.1", "enclosing_points_1d[clip]", "the index table is limited in a form the rule does not read", fg.loc(),
                   derived=T.show(r, 300))
    elif not ok:
        ctx.bad("R13.1", "enclosing_points_1d[clip]", "indices are not clipped to [0, n-1]", fg.loc(), derived=T.show(r, 300))
    else:
        ctx.ok("R13.1", "enclosing_points_1d[clip]", "indices clipped to [0, len(xp) - 1]", fg.loc())
        lo, hi, lv = br
        ss = op("searchsorted", xp, op("item", x, lv) if lv is not None else x, Str("right"))
        okv = sp.expand(lo - (ss - 1)) == 0 and hi == ss
        if not okv and (fname(hi) in ("item", "tabulate", "store", "stack") or not T.find_ops(hi, "searchsorted")):
            okv = None      # the rows are not a search result the rule can read: no verdict
        ctx.expect(okv, "R13.1", "enclosing_points_1d[bracket]",
                   "column j holds (i-1, i) with i = searchsorted(xp, x[j], side='right')", fg.loc(), derived=sp.Tuple(lo, hi),
                   required=sp.Tuple(ss - 1, ss))
    # descending transform, sibling consistency
    itd = interp(False)
    rd = hoist_rowwise(T.to_term(itd.call_function(fg, [xp, x, False, None], {}, None)))
    xp0 = op("item", xp, sp.Integer(0))
    brd = bracket_rows(rd.args[0]) if fname(rd) == "clip" and len(rd.args) == 3 else None
    okd = None if any(fname(n) in ("clip", "minimum", "maximum") for n in sp.preorder_traversal(rd)) else False
    if brd is not None:
        lo, hi, lvd = brd
        ssd = op("searchsorted", xp0 - xp, op("item", xp0 - x, lvd) if lvd is not None else xp0 - x, Str("right"))
        okd = hi == ssd
        if not okd and (fname(hi) in ("item", "tabulate", "store", "stack") or not T.find_ops(hi, "searchsorted")):
            okd = None
    ctx.expect(okd, "R13.1", "enclosing_points_1d[descending grid]",
               "a descending grid is mapped to (xp0 - x, xp0 - xp) before searching", fg.loc(), derived=T.show(rd, 300))

    # ---- R13.2 weights
    def frac_of(r):
        base, chain = store_chain(r)
        rows = {}
        for i, v in chain:
            if isinstance(i, sp.Tuple) and len(i.args) == 2 and i.args[1] == op("slc", NONE_T, NONE_T, NONE_T):
                rows[i.args[0]] = v
        return rows

    for mode, nearest in (("linear", False), ("nearest", True)):
        for el, er in ((False, False), (True, True)):
            it = interp(True)
            r = T.to_term(it.call_function(fw, [xp, x, idx, None, el, er, nearest], {}, None))
            rows = frac_of(r)
            tag = f"interpolation_weights_1d[{mode},extrapolate={el}]"
            if set(rows) != {sp.Integer(0), sp.Integer(1)}:
                ctx.unsure("R13.2", tag, "weights rows not found", fw.loc(), derived=T.show(r, 200))
                continue
            frac = rows[sp.Integer(1)]
            ctx.equiv("R13.2", tag + "[roles]", rows[sp.Integer(0)], 1 - frac, fw.loc(),
                      "weights[0] = 1 - frac (left node), weights[1] = frac (right node)", interp=it)
            inner = frac.args[0] if nearest and fname(frac) == "rint" else frac
            if nearest:
                ctx.expect(fname(frac) == "rint", "R13.2", tag + "[nearest]", "nearest mode rounds the fraction", fw.loc(), derived=T.show(frac, 80))
            base, chain = store_chain(inner)
            i0 = op("item", idx, sp.Tuple(sp.Integer(0), op("slc", NONE_T, NONE_T, NONE_T)))
            i1 = op("item", idx, sp.Tuple(sp.Integer(1), op("slc", NONE_T, NONE_T, NONE_T)))
            xl = op("item", xp, sp.Integer(-1))
            inside = AND(CMP("ge", x, xp0), CMP("lt", x, xl))
            dx = op("wrapdiff", x - op("item", xp, i0), NONE_T, NONE_T)
            dxp = op("wrapdiff", op("item", xp, i1) - op("item", xp, i0), NONE_T, NONE_T)
            want = {
                inside: op("item", dx, inside) / op("item", dxp, inside),
                CMP("lt", x, xp0): sp.Integer(1) if el else T.NAN_T,
                CMP("gt", x, xl): sp.Integer(0) if er else T.NAN_T,
                CMP("eq", x, xl): sp.Integer(0),
            }
            got = {m: T.distribute_item(v) for m, v in chain}     # (dx / dxp)[mask] == dx[mask] / dxp[mask]
            if not chain and fname(inner) == "where":
                # the same table written as nested selections (np.where / np.select) over the same, mutually exclusive, regions:
                # the value chosen for a region is the element-wise expression itself
                cur_w = inner
                while fname(cur_w) == "where" and len(cur_w.args) == 3:
                    got[cur_w.args[0]] = cur_w.args[1]
                    cur_w = cur_w.args[2]
                if inside in got and T.equivalent(got[inside], dx / dxp) == T.Verdict.EQUAL:
                    got[inside] = want[inside]
                if cur_w != T.NAN_T:
                    got[T.TRUE_T] = cur_w       # a default other than NaN would define the regions no condition covers
            okk = set(got) == set(want)
            bad_masks = [m for m in want if m not in got or T.equivalent(got[m], want[m]) != T.Verdict.EQUAL]
            ctx.expect(okk and not bad_masks, "R13.2", tag + "[fraction]",
                       "frac = dx/dxp inside [xp0, xp_last); " + ("1 / 0" if el else "NaN") + " outside; 0 at the right end",
                       fw.loc(), derived=str({T.show(m, 40): T.show(v, 60) for m, v in got.items()}),
                       required=str({T.show(m, 40): T.show(v, 60) for m, v in want.items()}))
    # descending sibling
    itd = interp(False)
    rw = T.to_term(itd.call_function(fw, [xp, x, idx, None, False, False, False], {}, None))
    okd = bool(T.find_ops(rw, "wrapdiff")) and all(
        (xp0 - x) in set(T.subterms(w)) or (xp0 - xp) in set(T.subterms(w)) or op("item", xp0 - xp, sp.Symbol("q")).func == w.args[0].func
        for w in T.find_ops(rw, "wrapdiff")[:1]) and (xp0 - x) in set(T.subterms(rw))
    ctx.expect(okd, "R13.2", "interpolation_weights_1d[descending grid]",
               "the same (xp0 - x, xp0 - xp) transform as the bracketing function", fw.loc())

    # ---- R13.2b NdInterpolator.interpolate passes no-extrapolation and forwards the nearest flag
    nd_int = p.get_method(ND, "interpolate")
    wcalls = [c for c in calls(nd_int.node) if call_name(c) == "interpolation_weights_1d"]
    ecalls = [c for c in calls(nd_int.node) if call_name(c) == "enclosing_points_1d"]
    if len(wcalls) != 1 or len(ecalls) != 1:
        ctx.unsure("R13.2", "NdInterpolator.interpolate", "weight / bracketing calls not found", nd_int.loc())
    else:
        b = binding.bind_by_name(fw, wcalls[0], False) or {}
        ok = isinstance(b.get("extrapolate_left"), ast.Constant) and b["extrapolate_left"].value is False \
            and isinstance(b.get("extrapolate_right"), ast.Constant) and b["extrapolate_right"].value is False
        ctx.expect(ok, "R13.2", "NdInterpolator.interpolate[no extrapolation]",
                   "both extrapolate flags are passed False: targets outside the grid give NaN weights", nd_int.loc(wcalls[0]))
        ctx.expect(ast.unparse(b.get("nearest_neighbour", ast.Constant(None))) == "self.nearest_neighbour", "R13.2",
                   "NdInterpolator.interpolate[nearest flag]", "the interpolator's nearest flag reaches the weights", nd_int.loc(wcalls[0]))
        bp = binding.bind_by_name(fg, ecalls[0], False) or {}
        same_period = ast.unparse(b.get("period", ast.Constant(None))) == ast.unparse(bp.get("period", ast.Constant(0)))
        same_grid = ast.unparse(b.get("xp")) == ast.unparse(bp.get("xp")) and ast.unparse(b.get("x")) == ast.unparse(bp.get("x"))
        ctx.expect(same_period and same_grid, "R13.2", "NdInterpolator.interpolate[siblings share grid, target, period]",
                   "bracketing and weights are computed for the same grid, targets and period", nd_int.loc())

    # ---- R13.3 corner sum (locals are identified by what they are, not by their names)
    from .fc import inline_value_calls
    di = inline_value_calls(p, p.get_method(ND, "_data_interpolator"), keep=INTERPOLATOR_VOCABULARY)       # helpers that hand back the accumulators are seen through
    it = Interp(p)
    rets = [n for n in ast.walk(di.node) if isinstance(n, ast.Return)]
    roles = _interpolator_roles(di)
    env = Env(it, di, di.module)
    if roles.get("wsum") and roles.get("acc"):
        env.vars.update({roles["wsum"]: P("wsum"), roles["acc"]: P("acc")})
    if len(rets) != 1 or not (roles.get("wsum") and roles.get("acc")):
        ctx.unsure("R13.3", "_data_interpolator[result]", "single return / the two accumulators not found", di.loc())
    else:
        v = T.to_term(it.eval(rets[0].value, env))
        ctx.equiv("R13.3", "_data_interpolator[result]", v, op("where", CMP("gt", P("wsum"), sp.Rational(1, 2)), P("acc") / P("wsum"), T.NAN_T),
                  di.loc(rets[0]), "value = sum(w*v)/sum(w) where sum(w) > 0.5, else NaN", interp=it)
    masks = [n for n in ast.walk(di.node) if isinstance(n, ast.Assign) and roles.get("mask") and ast.unparse(n.targets[0]) == roles["mask"]]
    if len(masks) == 1 and roles.get("val") and roles.get("w"):
        env2 = Env(it, di, di.module)
        me = Obj(p.get_class(ND), {}, "nd")
        me.fields["output_passive_coord_dim_indices"] = P("axes")
        env2.vars.update({roles["val"]: P("val"), roles["w"]: P("w"), "self": me})
        from .fc import substitute_defs as _sd0
        v = T.to_term(it.eval(_sd0(di.node, masks[0].value, {roles["val"], roles["w"], "self"}), env2))
        want = AND(op("all", T.NOT(op("isnull", P("val"))), P("axes")), CMP("gt", P("w"), 0))
        per_value = AND(T.NOT(op("isnull", P("val"))), CMP("gt", P("w"), 0))
        if T.equivalent(v, per_value) == T.Verdict.EQUAL:
            want = per_value
        ctx.equiv("R13.3", "_data_interpolator[corner mask]", v, want, di.loc(masks[0]),
                  "a corner contributes only if its data are not NaN and its weight is positive", interp=it)
        # granularity of "its data are not NaN": the property speaks of a missing *neighbour value*.  A mask reduced with all()/any()
        # over the passive axes drops a whole grid node (every passive position) when one of its values is missing: for data of rank
        # >= 2 with an isolated NaN the NaN-free positions are then not interpolated linearly, and a target on a grid node does not
        # return the data that are there.
        reduced = [t_ for t_ in T.subterms(v) if fname(t_) in ("all", "any") and P("axes") in t_.free_symbols]
        ctx.expect(not reduced, "R13.3", "_data_interpolator[mask granularity]",
                   "validity is decided per value, not for a whole grid node over all passive axes", di.loc(masks[0]),
                   derived=T.show(v, 200), required="~isnan(val) & (w > 0) without a reduction over the passive axes")
    else:
        ctx.unsure("R13.3", "_data_interpolator[corner mask]", "mask assignment not found", di.loc())
    tw, tv = roles.get("aug_w"), roles.get("aug_v")
    from .fc import substitute_defs as _sd
    stop_ = {roles.get("idx", "?"), roles.get("w", "?"), roles.get("val", "?"), roles.get("mask", "?"), "self"}
    flat = lambda e: ast.unparse(_sd(di.node, e, stop_)).replace("\n", "").replace(" ", "")  # noqa: E731
    wsel = f"{roles.get('w')}[self.output_indexing_broadcast({roles.get('mask')})]"
    full = f"self.output_indexing_full({roles.get('mask')})"
    okw = tw is not None and flat(tw.value) == wsel and full in flat(tw.target)
    okv = tv is not None and full in flat(tv.target)
    if okv:
        e = tv.value
        okv = isinstance(e, ast.BinOp) and isinstance(e.op, ast.Mult) and {flat(e.left), flat(e.right)} == {
            wsel, f"{roles.get('val')}[{full}]"}
    ctx.expect(okw and okv, "R13.3", "_data_interpolator[accumulation]",
               "sum(w) and sum(w*v) are accumulated over the same masked corners with the same weights", di.loc())

    # corner enumeration: all 2^N corners, each once, weight = product of the 1-d weights of that corner
    npf = p.get_function("interpolate.nd_interp._next_point")
    for ndim in (1, 2, 3):
        itc = Interp(p)
        itc.max_recursion = ndim + 2
        I1, W1, NP = P("indices_1d"), P("weights_1d"), P("npts")
        itc.shape_hints[I1] = (sp.Integer(ndim), sp.Integer(2), NP)
        r = itc.call_function(npf, [sp.Integer(ndim), I1, W1], {}, None)
        full = op("slc", NONE_T, NONE_T, NONE_T)
        want = {}
        import itertools
        for corner in itertools.product((0, 1), repeat=ndim):
            idxs = tuple(op("item", I1, sp.Tuple(sp.Integer(k), sp.Integer(c), full)) for k, c in enumerate(corner))
            wt = sp.Integer(1)
            for k, c in enumerate(corner):
                wt = wt * op("item", W1, sp.Tuple(sp.Integer(k), sp.Integer(c), full))
            want[idxs] = wt
        got = {}
        okc = isinstance(r, list)
        if okc:
            for y in r:
                if not (isinstance(y, tuple) and len(y) == 2 and isinstance(y[0], (list, tuple))):
                    okc = False
                    break
                key = tuple(T.to_term(v) for v in y[0])
                if key in got:
                    okc = False
                from .common import erase_broadcast
                got[key] = erase_broadcast(T.to_term(y[1]))
        okc = okc and set(got) == set(want) and all(sp.expand(got[k] - want[k]) == 0 for k in want)
        ctx.expect(okc, "R13.3", f"_next_point[{ndim} coordinate(s)]",
                   f"yields each of the {2**ndim} corners exactly once with the product of that corner's 1-d weights", npf.loc(),
                   derived=str({str([T.show(x, 40) for x in k]): T.show(v, 80) for k, v in list(got.items())[:4]}))
        ctx.absorb(itc)
    gd = [c for c in calls(di.node) if ast.unparse(c.func) == "self.get_data"]
    okg = len(gd) == 1 and [ast.unparse(_sd(di.node, a, stop_)) for a in gd[0].args] == [roles.get("idx"), "self.interp_coord_dim_indices"]
    lp = [n for n in ast.walk(di.node) if isinstance(n, ast.For) and "_next_point" in ast.unparse(n.iter)]
    prm = di.params
    okg = okg and len(lp) == 1 and len(prm) >= 4 and ast.unparse(lp[0].iter).replace("\n", "").replace(" ", "") == \
        f"_next_point(self.interp_ndims,{prm[2]},{prm[3]})"
    ctx.expect(okg, "R13.3", "_data_interpolator[corner loop]",
               "the corner loop runs over all interpolated coordinates with the computed indices and weights, data fetched at the corner indices",
               di.loc())

    # ---- R13.4 dataset wiring
    from .fc import returned_name, local_assignments, normalise_mapping_loops
    fa = p.get_function(DSM + "interpolate_dataset_along_axis")
    fa = normalise_mapping_loops(fa, fa.params[1])      # `for k, v in ds.data_vars.items()` is `for k in ds: v = ds[k]`
    P_CV, P_DS, P_CN, P_PD, P_PC, P_NN = (fa.params + [None] * 6)[:6]     # parameters by position (renaming them is an API change)
    R = returned_name(fa.node)
    loop = [n for n in own_walk(fa.node) if isinstance(n, ast.For) and ast.unparse(n.iter) == P_DS and isinstance(n.target, ast.Name)]
    okpass = False
    V = None
    for lp_ in loop:
        first = lp_.body[0]
        V = lp_.target.id
        from .fc import substitute_defs as _sdp
        # the guard may follow a few plain bindings (`da = ds[v]`); locals are read through to what they stand for
        guards_ = [s for s in lp_.body if isinstance(s, ast.If)]
        lead = lp_.body[:lp_.body.index(guards_[0])] if guards_ else []
        first = guards_[0] if guards_ and all(isinstance(s, ast.Assign) and len(s.targets) == 1 and isinstance(s.targets[0], ast.Name)
                                              for s in lead) else first
        keep_ = {V, P_DS, P_CN, R}
        if isinstance(first, ast.If):
            test_ = ast.unparse(_sdp(fa.node, first.test, keep_))
            if f"{P_CN} not in" in test_ and ".coords" in test_ and f"{P_DS}[{V}]" in test_:
                body = [ast.unparse(_sdp(fa.node, s.value, keep_)) if isinstance(s, ast.Assign) and len(s.targets) == 1
                        and ast.unparse(s.targets[0]) == f"{R}[{V}]" else None for s in first.body]
                okpass = any(b == f"{P_DS}[{V}]" for b in body) and isinstance(first.body[-1], ast.Continue)
    ctx.expect(okpass, "R13.4", "interpolate_dataset_along_axis[pass-through]",
               "variables without the interpolated coordinate are copied unchanged", fa.loc())
    # every variable is interpolated with its own settings: nothing assigned in one iteration of the per-variable loop may be
    # read by a later iteration before that iteration assigns it
    from .fc import carried_locals
    for lp_ in loop:
        leaks = carried_locals(lp_)
        ctx.expect(not leaks, "R13.4", "interpolate_dataset_along_axis[per-variable state]",
                   "no local of the per-variable loop carries a value from one variable to the next" if not leaks else
                   "; ".join(f"`{n}` (read at line {ln}) keeps the value a previous variable assigned when this variable does not "
                             "assign it: a periodic variable's settings leak into the variables after it" for n, ln in leaks),
                   fa.loc(lp_), derived=", ".join(n for n, _ in leaks))
    tconv = [n for n in own_walk(fa.node) if isinstance(n, ast.If) and ast.unparse(n.test) in (f"{P_CN} == 'time'",)]
    okt = any(f"to_datetime64({P_CV})" in ast.unparse(s) for t in tconv for s in t.body)
    ctx.expect(okt, "R13.4", "interpolate_dataset_along_axis[time targets]", "time targets are converted with to_datetime64", fa.loc())
    ndc = [c for c in calls(fa.node) if call_name(c) == "NdInterpolator"]
    if len(ndc) == 1:
        init = p.get_method(ND, "__init__")
        b = binding.bind_by_name(init, ndc[0], True) or {}
        la_fa = local_assignments(fa.node)

        def from_mapping(e, k):
            """e is a local bound to element k of <periodic_data>[<loop variable>]"""
            return isinstance(e, ast.Name) and any(d[0] == "unpack" and ast.unparse(d[1]) in (
                f"{P_PD}[{V}]", f"{P_PD}.get({V}, (None, None))") and d[2] == k for d in la_fa.get(e.id, []))
        ok = ast.unparse(b.get("nearest_neighbour", ast.Constant(None))) == P_NN \
            and ast.unparse(b.get("interp_index_coord_name", ast.Constant(None))) == P_CN \
            and from_mapping(b.get("data_period"), 0) and from_mapping(b.get("data_discont"), 1) \
            and ast.unparse(b.get("data_periodic_coordinates", ast.Constant(None))) == P_PC
        ctx.expect(ok, "R13.4", "interpolate_dataset_along_axis[interpolator wiring]",
                   "nearest flag, coordinate name and periodic settings reach the interpolator's own parameters", fa.loc(ndc[0]),
                   derived=str({k: ast.unparse(v) for k, v in b.items()}))
    else:
        ctx.unsure("R13.4", "interpolate_dataset_along_axis[interpolator wiring]", "interpolator construction not found", fa.loc())
    fgd = p.get_function(DSM + "interpolate_dataset_grid")
    ac = [c for c in calls(fgd.node) if call_name(c) == "interpolate_dataset_along_axis"]
    if len(ac) == 1:
        b = binding.bind_by_name(fa, ac[0], False) or {}
        axis_loops = [n for n in own_walk(fgd.node) if isinstance(n, ast.For) and ac[0] in list(ast.walk(n)) and isinstance(n.target, ast.Tuple)
                      and len(n.target.elts) == 2 and ast.unparse(n.iter) == f"{fgd.params[0]}.items()"]
        ok = len(axis_loops) == 1
        if ok:
            kname, kval = (ast.unparse(e) for e in axis_loops[0].target.elts)
            ok = ast.unparse(b.get("nearest_neighbour", ast.Constant(None))) == "nearest_neighbour" \
                and ast.unparse(b.get("coordinate_name", ast.Constant(None))) == kname \
                and ast.unparse(b.get("coordinate_value", ast.Constant(None))) == kval
        ctx.expect(ok, "R13.4", "interpolate_dataset_grid[per-axis call]",
                   "each axis is interpolated with its own name and targets, nearest flag forwarded", fgd.loc(ac[0]))
    else:
        ctx.unsure("R13.4", "interpolate_dataset_grid[per-axis call]", "per-axis call not found", fgd.loc())

    # successive axes: the result of one pass is the input of the next (two symbolic coordinates, the per-axis function opaque)
    itg = Interp(p)
    seen_passes = []

    def hook_axis(_it, f_, a_, k_, e_, n_):
        b_ = _it.bind(f_, a_, k_, Env(_it, f_, f_.module))
        r_ = op("along_axis", T.to_term(b_.get("data_set")), T.to_term(b_.get("coordinate_name")), T.to_term(b_.get("coordinate_value")))
        seen_passes.append(r_)
        return r_
    itg.hooks[DSM + "interpolate_dataset_along_axis"] = hook_axis
    DS0 = P("data_set")
    rg = itg.call_function(fgd, [{"c1": P("v1"), "c2": P("v2")}, DS0, {}], {}, None)
    want_g = op("along_axis", op("along_axis", DS0, Str("c1"), P("v1")), Str("c2"), P("v2"))
    ctx.equiv("R13.4", "interpolate_dataset_grid[axes are chained]", rg, want_g, fgd.loc(),
              "the dataset handed to the pass over the second coordinate is the result of the pass over the first", interp=itg)
    ctx.absorb(itg)
    GRIDI = DSM + "interpolate_dataset_grid"
    AXIS = DSM + "interpolate_dataset_along_axis"
    for cls in (CLS_1D, CLS_2D):
        cname = cls.split(".")[-1]
        it = spec_interp(p)
        rec = {}

        def hook(_it, f, a, k, e, n, rec=rec):
            b = _it.bind(f, a, k, Env(_it, f, f.module))
            rec[f.name] = b
            src = b.get("data_set")
            if isinstance(src, DatasetVal):
                return DatasetVal({kk: op("interp", T.to_term(v)) for kk, v in src.items.items()})
            return DatasetVal({kk: op("interp", op("item", T.to_term(src), Str(kk))) for kk in
                               ("variance_density", "a1", "b1", "a2", "b2", "frequency", "time")})

        it.hooks[GRIDI] = hook
        it.hooks[AXIS] = hook
        me = spectrum_self(p, cls)
        # make the symbolic dataset iterable for the 1-D class: it iterates its variables
        if cls == CLS_1D:
            me.fields["dataset"] = DatasetVal({k: dsv(k) for k in ("variance_density", "a1", "b1", "a2", "b2", "depth")})
        coords, ev = P("coordinates"), P("extrapolation_value")
        fi = p.get_method(cls, "interpolate")
        before = dict(me.fields["dataset"].items) if cls == CLS_1D else None
        r = it.call_function(fi, [me, coords, ev], {}, None)
        if not isinstance(r, Obj) or not isinstance(r.fields.get("dataset"), DatasetVal):
            ctx.unsure("R13.5", f"{cname}.interpolate", "result is not a new spectrum over the interpolated dataset", fi.loc())
            continue
        items = r.fields["dataset"].items
        if cls == CLS_1D:
            e_i = op("interp", dsv("variance_density"))
            for mname in ("a1", "b1", "a2", "b2"):
                want = op("fillna", op("interp", dsv(mname) * dsv("variance_density")) / e_i, ev)
                ctx.equiv("R13.5", f"{cname}.interpolate[{mname}]", items.get(mname), want, fi.loc(),
                          "energy-weighted moment is interpolated and divided by the interpolated energy, then filled", interp=it)
            ctx.equiv("R13.5", f"{cname}.interpolate[variance_density]", items.get("variance_density"), op("fillna", e_i, ev), fi.loc(),
                      "missing (out of range) energy is replaced by the caller's extrapolation value", interp=it)
            ctx.expect(me.fields["dataset"].items == before, "R13.5", f"{cname}.interpolate[operand]",
                       "the fill is applied to the new object, the operand's dataset is untouched", fi.loc())
        else:
            want = op("fillna", op("interp", dsv("variance_density")), ev)
            ctx.equiv("R13.5", f"{cname}.interpolate[variance_density]", items.get("variance_density"), want, fi.loc(),
                      "interpolated density filled with the caller's extrapolation value", interp=it)
            ctx.expect(me.fields["dataset"] == DS, "R13.5", f"{cname}.interpolate[operand]",
                       "the operand keeps its dataset", fi.loc())
        b = rec.get("interpolate_dataset_grid", {})
        ctx.expect(b.get("coordinates") == coords, "R13.5", f"{cname}.interpolate[coordinates]",
                   "the caller's coordinates are what gets interpolated to", fi.loc())
        if cls == CLS_1D:
            for flag in (True, False):
                rec.clear()
                it.call_function(fi, [me, coords, ev, flag], {}, None)
                b = rec.get("interpolate_dataset_grid", {})
                ctx.expect(b.get("nearest_neighbour") is flag and b.get("periodic_data") is None, "R13.5",
                           f"{cname}.interpolate[nearest={flag}]",
                           "the nearest flag reaches interpolate_dataset_grid's nearest_neighbour parameter", fi.loc(),
                           derived=str({k: str(v)[:30] for k, v in b.items()}))
            ff = p.get_method(cls, "interpolate_frequency")
            for method, flag in (("linear", False), ("nearest", True)):
                rec.clear()
                it.call_function(ff, [me, P("new_frequencies"), ev, method], {}, None)
                b = rec.get("interpolate_dataset_grid", {})
                okc = isinstance(b.get("coordinates"), dict) and b["coordinates"].get("frequency") == P("new_frequencies")
                ctx.expect(okc and b.get("nearest_neighbour") is flag, "R13.5", f"{cname}.interpolate_frequency[{method}]",
                           "method selects the nearest flag; the new frequencies are the frequency targets", ff.loc())
        else:
            ff = p.get_method(cls, "interpolate_frequency")
            rec.clear()
            r2 = it.call_function(ff, [me, P("new_frequencies"), ev], {}, None)
            b = rec.get("interpolate_dataset_along_axis", {})
            okc = b.get("coordinate_name") == "frequency" and b.get("coordinate_value") == P("new_frequencies")
            okf = isinstance(r2, Obj) and isinstance(r2.fields.get("dataset"), DatasetVal) and T.equivalent(
                r2.fields["dataset"].items.get("variance_density"), op("fillna", op("interp", dsv("variance_density")), ev)) == T.Verdict.EQUAL
            ctx.expect(okc and okf, "R13.5", f"{cname}.interpolate_frequency",
                       "interpolates along the frequency axis to the new frequencies and fills the new object", ff.loc())
        ctx.absorb(it)

    # ---- R13.6 binding rules on everything reachable from the interpolation entry points
    cg = CallGraph(p)
    roots = [fa, fgd, p.get_method(CLS_WS, "interpolate"), p.get_method(CLS_WS, "interpolate_frequency"),
             p.get_method(CLS_1D, "interpolate"), p.get_method(CLS_1D, "interpolate_frequency"), nd_int]
    reach = [f for f in cg.reachable(roots, include_may=False) if f.module.name.startswith(("interpolate", "tools.grid", "tools.math", "wavespectra.spectrum"))]
    binding.name_agreement_rule(ctx, "R13.6", cg, [f for f in reach if f.module.name.startswith("interpolate") or f in roots])
    binding.dataset_wrap_rule(ctx, "R13.6w", [f for f in p.all_functions if f.module.name.startswith(("interpolate", "wavespectra.spectrum"))])
    must_fire(ctx, "R13.6w", {"m.py": "import xarray\n\ndef g() -> xarray.Dataset:\n    return xarray.Dataset()\n\n"
                                      "def f():\n    return xarray.Dataset(g())\n"},
              lambda sub, mp: binding.dataset_wrap_rule(sub, "R13.6w", mp.all_functions), "xarray.Dataset(<Dataset>)")
    must_fire(ctx, "R13.6", {"m.py": "def callee(a, b=None, flag=False):\n    return a\n\ndef caller(a, flag):\n    return callee(a, flag)\n"},
              lambda sub, mp: binding.name_agreement_rule(sub, "R13.6", CallGraph(mp), mp.all_functions), "flag bound to another parameter")
    # ---- R13.7 interpolating does not alter what is interpolated (effect analysis shared with C15): a second interpolation of the
    # same object, or a look at the source afterwards, sees the original values
    from .c15 import operand_rule
    tg = []
    for cq in ("wavespectra.spectrum.FrequencySpectrum", "wavespectra.spectrum.FrequencyDirectionSpectrum"):
        c = p.get_class(cq)
        for name in ("interpolate", "interpolate_frequency"):
            m = c.find_method(name)
            if m is not None:
                tg.append((m, c))
    for q in ("interpolate.dataset.interpolate_dataset_grid", "interpolate.dataset.interpolate_dataset_along_axis",
              "interpolate.dataframe.interpolate_dataframe_time"):
        # (interpolate_track_data_arrray normalises the caller's dict of *target* coordinates with np.atleast_1d in place; the targets are
        # not the data being interpolated and their values are unchanged, so it is not listed here)
        fn = p.functions.get(q)
        if fn is not None:
            tg.append((fn, None))
    operand_rule(ctx, "R13.7", p, tg)
    ctx.require_count("R13.7", 5)
    ctx.require_count("R13.1", 3)
    ctx.require_count("R13.2", 14)
    ctx.require_count("R13.3", 8)
    ctx.require_count("R13.4", 6)
    ctx.require_count("R13.5", 14)
    ctx.require_count("R13.6", 10)


# methods the corner-sum rules know by name (the interpolator's own interface); everything else is inlined before the rules look
INTERPOLATOR_VOCABULARY = ("output_indexing_full", "output_indexing_broadcast", "get_data", "output_shape", "_next_point")


def _interpolator_roles(di):
    """names of the locals of a corner-sum interpolator, found by what they hold: the corner loop's (indices, weight)
    targets, the two accumulators (`acc[...] += w[...] * v[...]` and `wsum[...] += w[...]`), the per-corner value v and the
    mask that selects the contributing corners.  Index expressions may go through intermediate locals."""
    from .fc import substitute_defs
    roles = {}
    lp = [n for n in ast.walk(di.node) if isinstance(n, ast.For) and "_next_point" in ast.unparse(n.iter)]
    if len(lp) == 1 and isinstance(lp[0].target, ast.Tuple) and len(lp[0].target.elts) == 2 and all(
            isinstance(e, ast.Name) for e in lp[0].target.elts):
        roles["idx"], roles["w"] = lp[0].target.elts[0].id, lp[0].target.elts[1].id
    stop = {roles.get("idx", "?"), roles.get("w", "?"), "self"}
    augs = [n for n in ast.walk(di.node) if isinstance(n, ast.AugAssign) and isinstance(n.op, ast.Add) and isinstance(n.target, ast.Subscript)
            and isinstance(n.target.value, ast.Name)]
    from .fc import local_assignments
    la = local_assignments(di.node)

    def through_name(e):
        # a local bound once to a subscript expression stands for that expression
        if isinstance(e, ast.Name):
            defs = la.get(e.id, [])
            if len(defs) == 1 and defs[0][0] == "assign" and isinstance(defs[0][1], ast.Subscript):
                return defs[0][1]
        return e
    for a_ in augs:
        v = through_name(a_.value)
        if isinstance(v, ast.BinOp) and isinstance(v.op, ast.Mult) and "aug_v" not in roles:
            roles["aug_v"], roles["acc"] = a_, a_.target.value.id
            for side in (through_name(v.left), through_name(v.right)):
                if isinstance(side, ast.Subscript) and isinstance(side.value, ast.Name) and side.value.id != roles.get("w"):
                    roles["val"] = side.value.id
        elif isinstance(v, ast.Subscript) and "aug_w" not in roles:
            roles["aug_w"], roles["wsum"] = a_, a_.target.value.id
    # the mask: the single local inside self.output_indexing_full(<mask>) once index locals are substituted
    if "aug_w" in roles:
        for depth in (0, 1, 2, 3):
            full = substitute_defs(di.node, roles["aug_w"].target.slice, stop, depth=depth)
            names = [c.args[0].id for c in ast.walk(full) if isinstance(c, ast.Call) and ast.unparse(c.func) == "self.output_indexing_full"
                     and c.args and isinstance(c.args[0], ast.Name)]
            if len(set(names)) == 1:
                roles["mask"] = names[0]
                break
    for n in ast.walk(di.node):
        if isinstance(n, ast.Assign) and len(n.targets) == 1 and isinstance(n.targets[0], ast.Name) and n.targets[0].id == roles.get("val"):
            roles["val_assign"] = n
    return roles


def hoist_rowwise(t):
    """stack((F(a, c..), F(b, c..))) == F(stack((a, b)), c..) for the element-wise F in {clip, pymod} with bounds c that are not
    arrays (numbers and lengths): limiting the two rows separately is limiting the table"""
    if fname(t) != "stack" or not t.args or not isinstance(t.args[0], sp.Tuple) or len(t.args[0].args) < 2:
        return t
    rows = t.args[0].args
    f0 = fname(rows[0])
    if f0 not in ("clip", "pymod") or any(fname(r_) != f0 or r_.args[1:] != rows[0].args[1:] for r_ in rows):
        return t
    scalar = all(not any(fname(n) in ("item", "tabulate", "store", "stack", "arange") for n in sp.preorder_traversal(c))
                 and all(fname(n) == "len" or not n.args or n.is_number or isinstance(n, (sp.Add, sp.Mul)) for n in [c])
                 for c in rows[0].args[1:])
    if not scalar:
        return t
    return op(f0, op("stack", sp.Tuple(*[r_.args[0] for r_ in rows]), *t.args[1:]), *rows[0].args[1:])


def bracket_rows(t):
    """(row0, row1, element) of the (2, n) index array built by enclosing_points_1d, for either construction:
    a per-target loop storing the column [i-1, i] (element = the loop variable, rows are per-element terms), or two whole-row
    stores of vectorised searches (element = None, rows are array terms).  None when neither shape is present."""
    if fname(t) == "tabulate":
        pat, val, lv = t.args[1], t.args[2], t.args[3]
        if pat == sp.Tuple(op("slc", NONE_T, NONE_T, NONE_T), lv) and isinstance(val, sp.Tuple) and len(val.args) == 2:
            return val.args[0], val.args[1], lv
        return None
    if fname(t) == "stack" and isinstance(t.args[0], sp.Tuple) and len(t.args[0].args) == 2 and all(
            not (isinstance(a, sp.Tuple) and a.args and a.args[0] == T.Str("axis") and a.args[1] != 0) for a in t.args[1:]):
        # two vectors stacked into the (2, n) table; a vector filled by `buf[:] = v` holds v
        def filled(r_):
            if fname(r_) == "store" and fname(r_.args[0]) in ("empty", "zeros") and (
                    r_.args[1] == op("slc", NONE_T, NONE_T, NONE_T) or r_.args[1] == T.ELLIPSIS_T):
                return r_.args[2]
            return r_
        r0, r1 = t.args[0].args
        if fname(r0) == "item" and fname(r1) == "item" and r0.args[0] == r1.args[0] and (r0.args[1], r1.args[1]) == (0, 1):
            # rows 0 and 1 of a two-row table stacked again: the table itself (bracket_rows only accepts two-row tables)
            return bracket_rows(r0.args[0])

        def per_element(r_):
            # a vector filled one target at a time: buf[j] = v(j) for every j
            if fname(r_) == "tabulate" and len(r_.args) >= 5 and fname(r_.args[0]) in ("empty", "zeros") and r_.args[1] == r_.args[3]:
                return r_.args[2], r_.args[3], r_.args[4]
            return None
        e0, e1 = per_element(r0), per_element(r1)
        if e0 is not None and e1 is not None and e0[2] == e1[2].xreplace({e1[1]: e0[1]}):
            return e0[0], e1[0].xreplace({e1[1]: e0[1]}), e0[1]
        return filled(r0), filled(r1), None
    if fname(t) == "store":
        base, chain = store_chain(t)
        rows = {}
        for i, v in chain:
            if isinstance(i, sp.Tuple) and len(i.args) == 2 and i.args[1] == op("slc", NONE_T, NONE_T, NONE_T) and i.args[0].is_Integer:
                rows[int(i.args[0])] = v
        if set(rows) == {0, 1}:
            return rows[0], rows[1], None
    return None
