"""C10 -- roughness lengths: Charnock implicit equation wiring, fixed-point bookkeeping, Janssen balance."""
from __future__ import annotations

import ast

import sympy as sp

from .. import terms as T
from ..terms import P, op, Str, fname, CMP
from ..interp import Interp, FuncVal, Env, Obj, PartialVal, LambdaVal
from .. import envres
from .kernels import WB, E, GRID, PAR, DEPTH, U, THW, kernel_interp, par, wind
from .fc import own_walk, calls, call_name

RG = "wavephysics.roughness."
FPI = "tools.solvers.fixed_point_iteration"
NR = WB + "solvers.numba_newton_raphson"
WIND = WB + "st4_wind_input._st4_wind_generation_point"
EXPLANATION = (
    "TermFlow with the solvers kept opaque. Charnock: charnock_roughness_length == alpha*u*^2/g + where(u*>0, c*nu/u*, 0); "
    "charnock_roughness_length_from_u10 iterates z -> charnock(kappa*U/ln(elev/z)) with the caller's constants, from the "
    "Wu first guess, bounds (0, inf); drag_coefficient_charnock == (kappa/ln(elev/z0))^2 with the caller's constants "
    "forwarded. fixed_point_iteration: convergence is the element-wise conjunction of the absolute and the relative "
    "test, on exhausting the iterations the elements not flagged converged are overwritten with NaN unless the error "
    "flag is set (then it raises), and the returned value is the last iterate - so NaN inputs (comparisons false) can "
    "never be reported as converged values. Janssen: the balance function is rho_air*u*^2 - total_stress(exp(log z0)) "
    "with u* = kappa*U/ln(elev/z0) for U10 input and u* = U otherwise; total stress adds resolved+tail and the viscous "
    "part per east/north role; the point estimate returns NaN literals or exp(root) of the solver run on that balance "
    "function with hard bounds (-20, 0) on log z0 and the argument tuple lined up with its parameters; the batch wrapper "
    "maps NaN wind and any exception to NaN. Bracket bookkeeping of the Newton/secant/bisection hybrid (R10.5): root_bounds[i] and func_at_bounds[i] are stored together from iterates[k]/func_evals[k], in the slot the guard implies, the evaluation dominates the stores, quotients use matching slots. Not decided: the 1e-4 residual, monotonicity in U, uniqueness of the root."
)


def run(ctx):
    ctx.explanation = EXPLANATION
    p = ctx.program
    ctx.trust("NaN compares false with everything", "DataArray.where(cond, other)")
    alpha, cv, nu, g = P("alpha"), P("cv"), P("nu"), P("g")
    u = P("ustar")
    it = Interp(p)
    fch = p.get_function(RG + "charnock_roughness_length")

    def charnock(us, a=alpha, c=cv, n=nu, gg=g):
        return a * us**2 / gg + op("where", CMP("gt", us, 0), c * n / us, 0)

    r = it.call_function(fch, [u], {"charnock_constant": alpha, "viscous_constant": cv, "air_kinematic_viscosity": nu,
                                    "gravitational_acceleration": g}, None)
    ctx.equiv("R10.1", "charnock_roughness_length", r, charnock(u), fch.loc(),
              "z0 == alpha*u*^2/g + where(u*>0, c*nu/u*, 0)", interp=it)
    r = it.call_function(fch, [u], {}, None)
    G0, NU0 = sp.Rational("9.81"), sp.Rational("1.48e-5")
    ctx.equiv("R10.1", "charnock_roughness_length[defaults]", r, charnock(u, sp.Rational(12, 1000), sp.Integer(0), NU0, G0),
              fch.loc(), "defaults alpha=0.012, no viscous term, g=9.81", interp=it)

    # from u10: capture the iterated map
    ffu = p.get_function(RG + "charnock_roughness_length_from_u10")
    rec = {}

    def hook(_it, f, a, k, e, n):
        rec["function"] = a[0] if a else k.get("function")
        rec["guess"] = a[1] if len(a) > 1 else k.get("guess")
        rec["bounds"] = k.get("bounds", a[2] if len(a) > 2 else None)
        rec["extra"] = {kk: v for kk, v in k.items() if kk not in ("function", "guess", "bounds", "caller")}
        return op("fixed_point", T.to_term(rec["guess"]))

    it.hooks[FPI] = hook
    speed = P("U10")
    r = it.call_function(ffu, [speed], {"charnock_constant": alpha, "viscous_constant": cv}, None)
    if "function" not in rec or not isinstance(rec["function"], (FuncVal, PartialVal, LambdaVal)):
        ctx.unsure("R10.1", "charnock_roughness_length_from_u10", "the iterated function was not captured", ffu.loc())
    else:
        z = P("z")
        mapped = it.call(rec["function"], [z], {}, Env(it, ffu, ffu.module))
        kappa = sp.Rational(4, 10)
        ustar = kappa * speed / sp.log(10 / z)
        ctx.equiv("R10.1", "charnock_roughness_length_from_u10[iterated map]", mapped,
                  charnock(ustar, alpha, cv, NU0, G0), ffu.loc(),
                  "z -> charnock(kappa*U/ln(elev/z)) with the caller's Charnock and viscous constants", interp=it)
        wu = 10 / sp.exp(kappa / sp.sqrt((sp.Rational(8, 10) + sp.Rational(65, 1000) * speed) / 1000))
        ctx.equiv("R10.1", "charnock_roughness_length_from_u10[first guess]", rec["guess"], wu, ffu.loc(),
                  "first guess from the Wu drag law", interp=it)
        b = rec["bounds"]
        ctx.expect(isinstance(b, tuple) and len(b) == 2 and b[0] == 0 and b[1] == sp.oo, "R10.1",
                   "charnock_roughness_length_from_u10[bounds]", "iterates are confined to (0, inf)", ffu.loc(), derived=str(b))
        ctx.expect(not rec["extra"], "R10.1", "charnock_roughness_length_from_u10[solver keywords]",
                   "the constants consumed here are not also forwarded to the solver (it would reject them)", ffu.loc(),
                   derived=str(sorted(rec["extra"])))
    fdc = p.get_function(RG + "drag_coefficient_charnock")
    it2 = Interp(p, opaque={RG + "charnock_roughness_length_from_u10": "z0_from_u10"})
    it2.type_hints[speed] = "xarray.DataArray"
    r = T.to_term(it2.call_function(fdc, [speed, P("elevation"), alpha], {"viscous_constant": cv}, None))
    zz = T.find_ops(r, "z0_from_u10")
    okz = len(zz) == 1 and zz[0].args[0] == speed
    if okz:
        kw = zz[0].args[1]
        pairs = {T.str_of(a.args[0]): a.args[1] for a in kw.args} if fname(kw) == "dict" else {}
        okz = pairs.get("charnock_constant") == alpha and pairs.get("viscous_constant") == cv
        ctx.equiv("R10.1", "drag_coefficient_charnock", r, (sp.Rational(4, 10) / sp.log(P("elevation") / zz[0]))**2, fdc.loc(),
                  "Cd == (kappa/ln(elev/z0))^2", interp=it2)
    ctx.expect(okz, "R10.1", "drag_coefficient_charnock[constants forwarded]",
               "the caller's Charnock and viscous constants reach the roughness computation", fdc.loc(), derived=T.show(r, 200))

    # ---- R10.2 fixed point iteration bookkeeping (syntax tree)
    f = p.get_function(FPI)
    loops = [n for n in own_walk(f.node) if isinstance(n, ast.For)]
    main = [lp for lp in loops if lp.orelse]
    flag = None
    els = None
    if len(main) == 1:
        els = main[0].orelse
    else:
        # the same loop written with a completion flag: `while not <done> and <count> < budget: ...` followed by `if not <done>:`
        for wl in [n for n in own_walk(f.node) if isinstance(n, ast.While) and not n.orelse]:
            conj = wl.test.values if isinstance(wl.test, ast.BoolOp) and isinstance(wl.test.op, ast.And) else [wl.test]
            fl = [c.operand.id for c in conj if isinstance(c, ast.UnaryOp) and isinstance(c.op, ast.Not) and isinstance(c.operand, ast.Name)]
            if len(fl) != 1:
                continue
            body_of = [b for n in ast.walk(f.node) for b in (getattr(n, "body", None), getattr(n, "orelse", None))
                       if isinstance(b, list) and wl in b]
            after = body_of[0][body_of[0].index(wl) + 1:] if body_of else []
            exh = [n for n in after if isinstance(n, ast.If) and ast.unparse(n.test) == f"not {fl[0]}" and not n.orelse]
            if len(exh) == 1:
                main, flag, els = [wl], fl[0], exh[0].body
    if len(main) != 1:
        ctx.unsure("R10.2", "fixed_point_iteration", "iteration loop with its exhaustion branch (for/else, or while-not-done followed by "
                   "`if not done`) not found", f.loc())
    else:
        lp = main[0]
        rets = [n for n in own_walk(f.node) if isinstance(n, ast.Return) and n.value is not None]
        # the array that receives the NaN marks on exhaustion, and the mask that selects them: `<result>[~<mask>] = nan`
        nan_stores = [n for st in els for n in ast.walk(st) if isinstance(n, ast.Assign)
                      and ast.unparse(n.value) in ("np.nan", "numpy.nan", "float('nan')")
                      and isinstance(n.targets[0], ast.Subscript) and isinstance(n.targets[0].slice, ast.UnaryOp)
                      and isinstance(n.targets[0].slice.op, ast.Invert) and isinstance(n.targets[0].slice.operand, ast.Name)]
        mask = nan_stores[0].targets[0].slice.operand.id if len(nan_stores) == 1 else None
        err_ifs = [n for st in els for n in ast.walk(st) if isinstance(n, ast.If) and "error_if_not_converged" in ast.unparse(n.test)]
        raises = [n for st in els for n in ast.walk(st) if isinstance(n, ast.Raise)]
        def after_raising_if(store):
            # `if flag: raise ...` followed by the store in the same block is the else branch spelled as fall-through
            if not err_ifs or err_ifs[0] not in els or err_ifs[0].orelse or not isinstance(err_ifs[0].body[-1], ast.Raise):
                return False
            return any(store in list(ast.walk(st)) for st in els[els.index(err_ifs[0]) + 1:]
                       if not isinstance(st, (ast.If, ast.For, ast.While, ast.Try)))
        ok_else = len(err_ifs) == 1 and any(r_ in [x for b in err_ifs[0].body for x in ast.walk(b)] for r_ in raises) \
            and any(s_ in [x for b in err_ifs[0].orelse for x in ast.walk(b)] or after_raising_if(s_) for s_ in nan_stores)
        ctx.expect(ok_else, "R10.2", "fixed_point_iteration[exhaustion]",
                   "when the iteration budget is exhausted the non-converged elements become NaN, unless the error flag is set "
                   "(then it raises)", f.loc(els[0]) if els else f.loc())
        tgt = nan_stores[0].targets[0] if nan_stores else None
        same = bool(tgt) and bool(rets) and ast.unparse(tgt.value) == ast.unparse(rets[-1].value)
        ctx.expect(same, "R10.2", "fixed_point_iteration[NaN lands in the result]",
                   "the array that receives the NaN marks is the one returned", f.loc())
        # convergence flag: the single assignment to the mask inside the loop, with every local it reads replaced by its
        # definition; the iterate list is the object the result is taken from
        conv = [n for n in ast.walk(lp) if isinstance(n, ast.Assign) and mask is not None and any(
            (isinstance(t, ast.Name) and t.id == mask) or (isinstance(t, ast.Subscript) and isinstance(t.value, ast.Name)
                                                            and t.value.id == mask) for t in n.targets)]
        it3 = Interp(p)
        res_list = rets[-1].value.value.id if rets and isinstance(rets[-1].value, ast.Subscript) and isinstance(
            rets[-1].value.value, ast.Name) else None
        # ... or the iterates are kept in scalars shifted by one tuple assignment `a, b, c = b, c, new`: the returned name is the
        # newest iterate, the name that receives its old value is the previous one
        res_name = rets[-1].value.id if rets and isinstance(rets[-1].value, ast.Name) else None
        shift = {}
        if res_name is not None:
            for n in ast.walk(lp):
                if isinstance(n, ast.Assign) and isinstance(n.targets[0], ast.Tuple) and isinstance(n.value, ast.Tuple) \
                        and len(n.targets[0].elts) == len(n.value.elts) and any(
                            isinstance(t, ast.Name) and t.id == res_name for t in n.targets[0].elts):
                    for t, v_ in zip(n.targets[0].elts, n.value.elts):
                        if isinstance(t, ast.Name) and isinstance(v_, ast.Name):
                            shift[t.id] = v_.id
        prev_name = next((t for t, v_ in shift.items() if v_ == res_name), None)
        prev2_name = next((t for t, v_ in shift.items() if v_ == prev_name), None) if prev_name else None
        if len(conv) == 1 and (res_list is not None or prev_name is not None):
            from .fc import substitute_defs
            env = Env(it3, f, f.module)
            x0, x1, x2 = P("x_prev2"), P("x_prev"), P("x_new")
            cfg = Obj(p.get_class("tools.solvers.Configuration"), {"atol": P("atol"), "rtol": P("rtol")})
            if res_list is not None:
                rhs = substitute_defs(f.node, conv[0].value, {res_list, "configuration"})
                env.vars.update({res_list: [x0, x1, x2], "configuration": cfg})
            else:
                keepn = {res_name, prev_name, "configuration"} | ({prev2_name} if prev2_name else set())
                rhs = substitute_defs(f.node, conv[0].value, keepn)
                env.vars.update({res_name: x2, prev_name: x1, "configuration": cfg})
                if prev2_name:
                    env.vars[prev2_name] = x0
            v = T.to_term(it3.eval(rhs, env))
            D = sp.Abs(x2 - x1)
            ok_conv = False
            if fname(v) == "and_" and len(v.args) == 2:
                parts = {}
                for a in v.args:
                    if fname(a) == "lt" and a.args[1] == P("atol"):
                        parts["abs"] = a.args[0]
                    elif fname(a) == "lt" and a.args[1] == P("rtol"):
                        parts["rel"] = a.args[0]
                if set(parts) == {"abs", "rel"} and sp.simplify(parts["abs"] - D) == 0:
                    q = sp.simplify(parts["rel"] / D)
                    ok_conv = not T.find_ops(q, "isnan") and q != 0
            ctx.expect(ok_conv, "R10.2", "fixed_point_iteration[convergence test]",
                       "converged == (|x_n - x_{n-1}| < atol) & (|x_n - x_{n-1}|/scale < rtol), element-wise (both strict `<`, so a NaN "
                       "iterate is never flagged converged)", f.loc(conv[0]), derived=v)
        else:
            ctx.unsure("R10.2", "fixed_point_iteration[convergence test]", "single assignment of the convergence mask not found", f.loc())
        # breaks only on a count of converged points and never on an Aitken step
        from .fc import mentions_through_defs
        brks = [n for n in ast.walk(lp) if isinstance(n, ast.Break)]
        okb = True
        flag_sets = []
        if flag is not None:
            # completion flag: every assignment to it inside the loop must be `<count of converged points ...> and not <aitken step>`
            flag_sets = [n for n in ast.walk(lp) if isinstance(n, ast.Assign) and any(isinstance(t, ast.Name) and t.id == flag for t in n.targets)]

        def counts_mask(n):
            return isinstance(n, ast.Call) and ast.unparse(n.func).split(".")[-1] in ("nansum", "sum", "count_nonzero", "all") \
                and any(isinstance(x, ast.Name) and x.id == mask for a in n.args for x in ast.walk(a))

        def is_aitken(n):
            return isinstance(n, ast.Attribute) and n.attr == "aitken_acceleration"
        for b in brks:
            anc = [n for n in ast.walk(lp) if isinstance(n, ast.If) and b in [x for y in n.body for x in ast.walk(y)]]
            has_count = any(mentions_through_defs(f.node, a.test, counts_mask) for a in anc)
            nots = [u.operand for a in anc for u in ast.walk(a.test) if isinstance(u, ast.UnaryOp) and isinstance(u.op, ast.Not)]
            has_not_aitken = any(mentions_through_defs(f.node, u, is_aitken) for u in nots)
            if not (has_count and has_not_aitken):
                okb = False
        for a in flag_sets:
            has_count = mentions_through_defs(f.node, a.value, counts_mask)
            conj = a.value.values if isinstance(a.value, ast.BoolOp) and isinstance(a.value.op, ast.And) else [a.value]
            nots = [c.operand for c in conj if isinstance(c, ast.UnaryOp) and isinstance(c.op, ast.Not)]
            if not (has_count and any(mentions_through_defs(f.node, u, is_aitken) for u in nots)):
                okb = False
        if flag is not None and brks:
            okb = False if okb is False else None     # flag form with extra exits: not a shape this rule decides
        ctx.expect((okb and bool(brks or flag_sets)) if okb is not None else None, "R10.2", "fixed_point_iteration[early exit]",
                   "the loop stops early only on the count of converged points and never right after an extrapolation step", f.loc())

    # ---- R10.3 Janssen
    windfn = FuncVal(p.get_function(WIND))
    tailfn = P("tailfn")
    f = p.get_function(WB + "stress._stress_iteration_function")
    lz = P("log_z0")
    for kind in ("u10", "friction_velocity", "ustar"):       # "ustar" is the accepted alias of "friction_velocity" in every kernel
        it4 = kernel_interp(p, {WB + "stress._total_stress_point": "total_stress", WIND: "windfn"})
        r = T.to_term(it4.call_function(f, [lz, E, wind(kind), DEPTH, windfn, tailfn, GRID, PAR, P("work")], {}, None))
        ts = T.find_ops(r, "total_stress")
        ustar = U * par("vonkarman_constant") / sp.log(par("elevation") / sp.exp(lz)) if kind == "u10" else U
        if len(ts) != 1:
            ctx.bad("R10.3", f"_stress_iteration_function[{kind}]", "total stress is not evaluated exactly once", f.loc(), derived=T.show(r, 200))
            continue
        ref = par("air_density") * ustar**2 - op("item", ts[0], sp.Integer(0))
        ctx.equiv("R10.3", f"_stress_iteration_function[{kind}][balance]", r, ref, f.loc(),
                  "residual == rho_air*u*^2 - |total stress|(z0)", interp=it4)
        names = p.get_function(WB + "stress._total_stress_point").params
        m = dict(zip(names, ts[0].args))
        okw = m.get("roughness_length") == sp.exp(lz) and m.get("variance_density") == E and m.get("wind") == T.to_term(wind(kind)) \
            and m.get("depth") == DEPTH and m.get("spectral_grid") == GRID and m.get("parameters") == PAR \
            and m.get("tail_stress_parametrization_function") == tailfn
        ctx.expect(okw, "R10.3", f"_stress_iteration_function[{kind}][wiring]",
                   "total stress is evaluated at z0 = exp(log z0) for the same spectrum, wind, depth, grid and parameters",
                   f.loc(), derived=str({k: T.show(v, 30) for k, v in m.items()}))
        ctx.absorb(it4)
    # total stress composition
    f = p.get_function(WB + "stress._total_stress_point")
    it5 = kernel_interp(p, {WB + "stress._wave_supported_stress_point": "wss", WIND: "windfn"})
    r = it5.call_function(f, [P("z0"), E, wind("u10"), DEPTH, windfn, tailfn, GRID, PAR], {}, None)
    if isinstance(r, tuple) and len(r) == 2:
        mag = T.strip_never(T.to_term(r[0]))
        # take the regular branch (u* != 0 and finite)
        while fname(mag) == "ite":
            mag = mag.args[2]
        w = T.find_ops(mag, "wss")
        if len(w) != 1:
            ctx.bad("R10.3", "_total_stress_point[composition]", "resolved+tail stress not evaluated exactly once", f.loc())
        else:
            ustar = U * par("vonkarman_constant") / sp.log(par("elevation") / P("z0"))
            visc = par("viscous_stress_parameter") * par("air_density") * ustar * par("air_viscosity") / par("vonkarman_constant") / P("z0")
            th = THW * sp.pi / 180
            east = op("item", w[0], sp.Integer(0)) + visc * sp.cos(th)
            north = op("item", w[0], sp.Integer(1)) + visc * sp.sin(th)
            ctx.equiv("R10.3", "_total_stress_point[composition]", mag, sp.sqrt(north**2 + east**2), f.loc(),
                      "|total| == sqrt((east_ws + visc*cos)^2 + (north_ws + visc*sin)^2), visc = c*rho*u*nu/(kappa*z0)", interp=it5)
    else:
        ctx.unsure("R10.3", "_total_stress_point", "does not return (magnitude, direction)", f.loc())
    ctx.absorb(it5)
    # point estimate
    f = p.get_function(WB + "stress._roughness_estimate_point")
    it6 = kernel_interp(p, {NR: "newton"})
    r = T.to_term(it6.call_function(f, [P("guess"), E, wind("u10"), DEPTH, windfn, tailfn, GRID, PAR], {}, None))
    leaves = []

    def collect(t):
        if fname(t) == "ite":
            collect(t.args[1])
            collect(t.args[2])
        else:
            leaves.append(t)
    collect(r)
    good = all(lf == T.NAN_T or (isinstance(lf, sp.exp) and fname(lf.args[0]) == "newton") for lf in leaves)
    ctx.expect(good and any(isinstance(lf, sp.exp) for lf in leaves), "R10.3", "_roughness_estimate_point[result]",
               "returns NaN or exp(root): a positive length", f.loc(), derived=str([T.show(x, 60) for x in leaves]))
    ns = T.find_ops(r, "newton")
    if ns:
        names = p.get_function(NR).params
        m = dict(zip(names, ns[0].args))
        sf = p.get_function(WB + "stress._stress_iteration_function")
        ctx.expect(m.get("function") == T.to_term(FuncVal(sf)), "R10.3", "_roughness_estimate_point[balance function]",
                   "the solver runs on the stress-balance function", f.loc(), derived=m.get("function"))
        ctx.expect(m.get("hard_bounds") == sp.Tuple(sp.Integer(-20), sp.Integer(0)), "R10.3",
                   "_roughness_estimate_point[search interval]", "log z0 is confined to (-20, 0)", f.loc(), derived=m.get("hard_bounds"))
        fa = m.get("function_arguments")
        want = sf.params[1:]
        okw = isinstance(fa, sp.Tuple) and len(fa.args) == len(want)
        if okw:
            mm = dict(zip(want, fa.args))
            okw = mm.get("variance_density") == E and mm.get("wind") == T.to_term(wind("u10")) and mm.get("depth") == DEPTH \
                and mm.get("spectral_grid") == GRID and mm.get("parameters") == PAR \
                and mm.get("tail_stress_parametrization_function") == tailfn
        ctx.expect(okw, "R10.3", "_roughness_estimate_point[argument tuple]",
                   "the argument tuple lines up with the balance function's parameters", f.loc(), derived=fa)
        ctx.expect(fname(m.get("guess")) is None and isinstance(m.get("guess"), sp.log), "R10.3",
                   "_roughness_estimate_point[log guess]", "the solver starts from log(first guess)", f.loc(), derived=m.get("guess"))
    ctx.absorb(it6)
    # batch wrapper
    f = p.get_function(WB + "stress._roughness_estimate")
    tries = [n for n in own_walk(f.node) if isinstance(n, ast.Try)]
    ok = False
    for tr in tries:
        for h in tr.handlers:
            if h.type is None or ast.unparse(h.type) in ("Exception", "BaseException"):
                if any(isinstance(n, ast.Assign) and ast.unparse(n.value) in ("np.nan",) for b in h.body for n in ast.walk(b)):
                    ok = True
    nan_guard = any(isinstance(n, ast.If) and "np.isnan(wind[0]" in ast.unparse(n.test) for n in own_walk(f.node))
    ctx.expect(ok and nan_guard, "R10.3", "_roughness_estimate[missing stays missing]",
               "a NaN wind speed and any solver exception give NaN for that point", f.loc())
    # ---- R10.6 scalar wind speeds are admissible inputs: the solver and the Charnock helpers are rank-polymorphic
    from ..rank import rank_rule
    rank_rule(ctx, "R10.6", p.get_function(FPI), {"guess"}, "the first guess")
    rank_rule(ctx, "R10.6", ffu, {"speed"}, "the wind speed")
    rank_rule(ctx, "R10.6", fch, {fch.params[0]}, "the friction velocity")
    ctx.require_count("R10.6", 3)
    # ---- R10.7 the Janssen roughness is solved for the object's *current* tuning: nothing derived from the parameters or the grid is
    # kept on the source-term object without being refreshed by whatever changes them (shared rule, see statecache.py)
    from ..statecache import instance_memo_rule as _memo, positive_example as _memo_pos
    _memo(ctx, "R10.7", [p.get_class("wavephysics.balance.source_term.SourceTerm")], "source-term classes")
    _memo_pos(ctx, "R10.7")
    ctx.require_count("R10.7", 2)
    # ---- R10.5 bracket bookkeeping of the Newton/secant/bisection solver the Janssen estimate runs on
    from ..pairs import paired_update_rule
    fnr = p.get_function(NR)
    nb, nq = paired_update_rule(ctx, "R10.5", fnr, "root_bounds", "func_at_bounds", "iterates", "func_evals", "function", 4)
    ctx.require_count("R10.5", 7)
    envres.check_ext_used(ctx, it, "R10.4", "roughness")
    ctx.absorb(it)
    ctx.absorb(it2)
    ctx.require_count("R10.1", 8)
    ctx.require_count("R10.2", 4)
    ctx.require_count("R10.3", 12)
