"""C20 -- time integration: start value, jitter fallback, linear stencil application."""
from __future__ import annotations

import sympy as sp

from .. import terms as T
from ..terms import P, op, Str, CMP, fname, TRUE_T, FALSE_T
from ..interp import Interp
from .. import envres

TI = "tools.time_integration."
EXPLANATION = (
    "TermFlow evaluates tools.time_integration.integrate with symbolic time/signal/order/n/start_value and the "
    "stencil generator kept opaque. Decided from the array term and the loop summary: (1) the element 0 of the returned "
    "array, read through the sequence of stores that precede the stepping loop (which starts at index 1), is the "
    "start_value parameter; (2) the stencil used in a step is the literal two-point [1/2,1/2] trapezoid with one "
    "implicit point whenever the restart flag holds, the flag is forced by |future_dt - prev_dt| > 0.01*curr_dt and by "
    "running out of future samples, and otherwise is the carried flag; (3) every step stores out[i-1] + curr_dt * "
    "sum_j stencil[j-jstart]*signal[i+j] over j in [-(width-n_implicit), n_implicit), a degree-1 form in the signal. "
    "Not decided: exactness of the stencil weights in rational arithmetic and cubic exactness of a step (they require "
    "computing the weight table, i.e. executing integration_stencil)."
)


def run(ctx):
    ctx.explanation = EXPLANATION
    p = ctx.program
    ctx.trust("numpy item assignment a[i] = v / a[:] = v", "np.empty_like allocates without defining contents")
    f = p.get_function(TI + "integrate")
    it = Interp(p, opaque={TI + "integration_stencil": "stencil"})
    time, signal, order, n, start = (P(x) for x in ("time", "signal", "order", "n", "start_value"))
    r = T.to_term(it.call_function(f, [time, signal, order, n, start], {}, None))
    outer = [L for L in it.loops if L.func == f.qualname and fname(L.iter) == "range" and L.iter.args[0] == 1]
    if fname(r) != "tabulate" or len(outer) != 1:
        ctx.unsure("R20.1", "integrate", "result is not an array filled by one stepping loop starting at index 1",
                   f.loc(), derived=r)
        ctx.absorb(it)
        return
    L = outer[0]
    base, pat, val, lv = r.args[:4]
    # R20.1 start value
    if pat != lv:
        ctx.unsure("R20.1", "integrate[start value]", "loop does not store at its own index", L.loc, derived=pat)
    else:
        e0 = T.read_elem(base, sp.Integer(0))
        v = T.equivalent(e0, start)
        ctx.expect(True if v == T.Verdict.EQUAL else (False if not T.has_unknown(e0) and fname(e0) != "item" else None),
                   "R20.1", "integrate[start value]",
                   "the value that reaches integrated_signal[0] at the return is start_value (the stepping loop starts at 1 "
                   "and never rewrites index 0)", f.loc(), derived=e0, required=start)
    be = L.body_env
    need = ("stencil", "stencil_width", "number_of_implicit_points", "curr_dt", "future_dt")
    if any(k not in be.vars for k in need):
        # variable names are not anchors: fall back to inconclusive, never a violation
        ctx.unsure("R20.2", "integrate[fallback]", "loop body does not expose the stencil selection under the known names",
                   L.loc)
        ctx.absorb(it)
        return
    S, width, nimp, curr_dt, future_dt = (T.to_term(be.vars[k]) for k in need)
    prev_c = L.carried.get("prev_dt", (None, None, None))[1]
    restart_c = L.carried.get("restart", (None, None, None))[1]
    primary = op("stencil", order, n)
    # R20.2 fallback selection
    if fname(S) != "ite":
        ctx.bad("R20.2", "integrate[fallback stencil]", "the stencil is not selected by a restart condition", L.loc, derived=S)
    else:
        C, s_then, s_else = S.args
        ok_lit = fname(s_then) == "array" and len(s_then.args) == 2 and sp.simplify(sum(s_then.args) - 1) == 0 \
            and all(a == sp.Rational(1, 2) for a in s_then.args)
        ctx.expect(ok_lit, "R20.2", "integrate[fallback stencil]", "fallback is the trapezoid [1/2, 1/2]", L.loc,
                   derived=s_then, required="array(1/2, 1/2)")
        ctx.equiv("R20.2", "integrate[primary stencil]", s_else, primary, L.loc,
                  "otherwise the requested (order, n) stencil", interp=it)
        ctx.equiv("R20.2", "integrate[fallback width]", width, T.ITE(C, sp.Integer(2), op("len", primary)), L.loc, interp=it)
        ctx.equiv("R20.2", "integrate[fallback implicit points]", nimp, T.ITE(C, sp.Integer(1), n), L.loc, interp=it)
        if prev_c is not None:
            J = CMP("gt", sp.Abs(future_dt - prev_c), sp.Rational(1, 100) * curr_dt)
            present = J in set(T.subterms(C))
            ctx.expect(present and T.assume(C, {J: True}) == TRUE_T, "R20.2", "integrate[jitter forces fallback]",
                       "|future_dt - prev_dt| > 0.01*curr_dt forces the trapezoid", L.loc, derived=C, required=J)
            end_c = CMP("lt", lv + n - 1, op("len", signal))
            ctx.expect(end_c in set(T.subterms(C)) and T.assume(C, {end_c: False}) == TRUE_T, "R20.2",
                       "integrate[record end forces fallback]",
                       "running out of future samples forces the trapezoid", L.loc, derived=C, required=end_c)
            if restart_c is not None:
                rest = T.assume(C, {J: False, end_c: True})
                ctx.expect(rest == restart_c, "R20.2", "integrate[uniform stretch keeps state]",
                           "without jitter and away from the end the carried restart flag decides", L.loc,
                           derived=rest, required=restart_c)
                # future_dt definition
                want_future = T.ITE(end_c, op("item", time, lv + n - 1) - op("item", time, lv + n - 2), curr_dt)
                ctx.equiv("R20.2", "integrate[future_dt]", future_dt, want_future, L.loc, interp=it)
    ctx.equiv("R20.2", "integrate[curr_dt]", curr_dt, op("item", time, lv) - op("item", time, lv - 1), L.loc, interp=it)
    # R20.3 step shape
    inner = [x for x in it.loops if x.func == f.qualname and x is not L]
    sig_c = L.carried.get("integrated_signal")
    arrs = [(nm, c) for nm, c in L.carried.items() if c[1] is not None and fname(T.to_term(c[2])) == "store"
            and T.to_term(c[2]).args[0] == c[1]]
    if len(inner) != 1 or len(arrs) != 1:
        ctx.unsure("R20.3", "integrate[step]", "expected one stencil loop and one output array", L.loc)
    else:
        jj = inner[0].lv
        nm, (orig, csym, fin) = arrs[0]
        js = -(width - nimp)
        ref = op("store", csym, lv, op("item", csym, lv - 1) + curr_dt * op(
            "loopsum", op("item", S, jj - js) * op("item", signal, lv + jj), jj, op("range", js, nimp)))
        ctx.equiv("R20.3", "integrate[step]", fin, ref, L.loc,
                  "out[i] == out[i-1] + curr_dt * sum_j stencil[j-jstart]*signal[i+j]", interp=it)
    envres.check_ext_used(ctx, it, "R20.4", "integrate")
    ctx.absorb(it)
    ctx.notes.extend(it.unknown_notes[:5])
    ctx.require_count("R20.1", 1)
    ctx.require_count("R20.2", 8)
    ctx.require_count("R20.3", 1)
