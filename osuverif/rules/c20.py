"""C20 -- time integration: start value, jitter fallback, linear stencil application."""
from __future__ import annotations

import sympy as sp

from .. import terms as T
from ..terms import P, op, Str, CMP, fname, TRUE_T, FALSE_T
from ..interp import Interp
from .. import envres

TI = "tools.time_integration."
EXPLANATION = (
    "TermFlow evaluates tools.time_integration.integrate with symbolic time/signal/order/n/start_value and the "
    "stencil generator kept opaque. Decided from the array term and the loop summary: (1) the element 0 of the returned "
    "array, read through the sequence of stores that precede the stepping loop (which starts at index 1), is the "
    "start_value parameter; (2) the stencil used in a step is the literal two-point [1/2,1/2] trapezoid with one "
    "implicit point whenever the restart flag holds, the flag is forced by |future_dt - prev_dt| > 0.01*curr_dt and by "
    "running out of future samples, and otherwise is the carried flag; (3) every step stores out[i-1] + curr_dt * "
    "sum_j stencil[j-jstart]*signal[i+j] over j in [-(width-n_implicit), n_implicit), a degree-1 form in the signal. "
    "(4) a jittered step restarts the count of constant steps and the high-order stencil returns only when the count reaches "
    "its width; (5) integration_stencil / evaluate_polynomial / integrated_lagrange_base_polynomial_coef / "
    "lagrange_base_polynomial_coef are, as loop summaries, the Lagrange construction, and the integration interval [m-1, m] is "
    "the pair of nodes integrate() aligns with signal[i-1], signal[i]. Exactness and sum-to-one follow from that construction "
    "mathematically; no weight table is computed (that would be executing the code)."
)


def run(ctx):
    ctx.explanation = EXPLANATION
    p = ctx.program
    ctx.trust("numpy item assignment a[i] = v / a[:] = v", "np.empty_like allocates without defining contents")
    f = p.get_function(TI + "integrate")
    it = Interp(p, opaque={TI + "integration_stencil": "stencil"})
    time, signal, order, n, start = (P(x) for x in ("time", "signal", "order", "n", "start_value"))
    r = T.to_term(it.call_function(f, [time, signal, order, n, start], {}, None))
    outer = [L for L in it.loops if L.func == f.qualname and fname(L.iter) == "range" and L.iter.args[0] == 1]
    if fname(r) != "tabulate" or len(outer) != 1:
        ctx.unsure("R20.1", "integrate", "result is not an array filled by one stepping loop starting at index 1",
                   f.loc(), derived=r)
        ctx.absorb(it)
        return
    L = outer[0]
    base, pat, val, lv = r.args[:4]
    # R20.1 start value
    if pat != lv:
        ctx.unsure("R20.1", "integrate[start value]", "loop does not store at its own index", L.loc, derived=pat)
    else:
        e0 = T.read_elem(base, sp.Integer(0))
        v = T.equivalent(e0, start)
        ctx.expect(True if v == T.Verdict.EQUAL else (False if not T.has_unknown(e0) and fname(e0) != "item" else None),
                   "R20.1", "integrate[start value]",
                   "the value that reaches integrated_signal[0] at the return is start_value (the stepping loop starts at 1 "
                   "and never rewrites index 0)", f.loc(), derived=e0, required=start)
    # the buffer the running integral is written into takes its element type from its allocation: `np.empty_like(x)` inherits the
    # dtype of x, so it must be allocated like the signal (or as a plain float buffer), never like the time axis (an integer time
    # axis would truncate the start value and every partial sum)
    import ast as _ast
    from .fc import returned_name, local_assignments
    rn = returned_name(f.node)
    allocs = [d[1] for d in local_assignments(f.node).get(rn or "?", []) if d[0] == "assign" and isinstance(d[1], _ast.Call)]
    likes = [c for c in allocs if _ast.unparse(c.func).split(".")[-1] in ("empty_like", "zeros_like", "ones_like", "full_like") and c.args]
    plain = [c for c in allocs if _ast.unparse(c.func).split(".")[-1] in ("empty", "zeros", "ones", "full")]
    if len(likes) == 1 and isinstance(likes[0].args[0], _ast.Name):
        src = likes[0].args[0].id
        dt_kw = [k for k in likes[0].keywords if k.arg == "dtype"]
        verdict = True if (src == f.params[1] or dt_kw) else (False if src == f.params[0] else None)
        ctx.expect(verdict, "R20.1", "integrate[output buffer]",
                   "the output is allocated with the shape and element type of the signal", f.loc(likes[0]),
                   derived=_ast.unparse(likes[0]), required=f"np.empty_like({f.params[1]})")
    elif plain and not likes:
        ctx.ok("R20.1", "integrate[output buffer]", "the output is a freshly allocated floating point buffer", f.loc(plain[0]),
               derived=_ast.unparse(plain[0]))
    else:
        ctx.unsure("R20.1", "integrate[output buffer]", "allocation of the output buffer not recognised", f.loc())
    # Everything else is read off the step itself, not off local variable names: the carried output array's final value
    # is store(out, i, out[i-1] + dt * sum_j S[j - js] * signal[i + j]) over range(js, je)
    step = _parse_step(L, lv, signal)
    if step is None:
        ctx.unsure("R20.2", "integrate[fallback]", "the step is not of the form out[i] = out[i-1] + dt * sum_j w[j-js]*signal[i+j]",
                   L.loc)
        ctx.absorb(it)
        return
    S, js_t, nimp, curr_dt, jj_sym, out_sym, out_fin = step
    # steps read from a table of differences, (t[1:] - t[:-1])[k], are differences of two elements (k >= 0 for i >= 1)
    S, curr_dt, js_t, nimp = (_difference_table_reads(x_, lv) for x_ in (S, curr_dt, js_t, nimp))
    named = {}      # sub-terms given a name below (the previous step when it is read back instead of carried)

    def N(t_):
        return _difference_table_reads(t_, lv).xreplace(named)
    width = nimp - js_t
    C0 = S.args[0] if fname(S) == "ite" else None
    absd = [x for x in (T.subterms(C0) if C0 is not None else []) if isinstance(x, sp.Abs)]
    carried_syms = {c[1]: nm for nm, c in L.carried.items() if c[1] is not None}
    prev_c = restart_c = future_dt = None
    restart_name = None
    if len(absd) == 1 and isinstance(absd[0].args[0], sp.Add):
        inside = absd[0].args[0]
        cs = [x for x in inside.free_symbols if x in carried_syms]
        lin = [x for x in cs if sp.expand(inside).coeff(x) in (1, -1) and x not in (sp.expand(inside) - sp.expand(inside).coeff(x) * x).free_symbols]
        if len(lin) == 1:
            prev_c = lin[0]
            future_dt = T.resimplify((sp.expand(inside) - sp.expand(inside).coeff(prev_c) * prev_c) * (-sp.expand(inside).coeff(prev_c)))
    if prev_c is None and len(absd) == 1:
        # the previous step is not carried but read back from the samples: |future - P(i)| with P(i) = t[i-1] - t[i-2] for i >= 2
        # and t[1] - t[0] at the first step is the same comparison; P is named and handled like the carried value
        end0 = CMP("lt", lv + n - 1, op("len", signal))
        F = T.ITE(end0, op("item", time, lv + n - 1) - op("item", time, lv + n - 2), curr_dt)
        Pt = sp.expand(F - absd[0].args[0])
        m_ = sp.Symbol("_m", integer=True, nonnegative=True)
        later = sp.expand(_eval_max(Pt.subs(lv, m_ + 2)) - (op("item", time, m_ + 1) - op("item", time, m_)))
        first = sp.expand(_eval_max(Pt.subs(lv, sp.Integer(1))) - (op("item", time, sp.Integer(1)) - op("item", time, sp.Integer(0))))
        if later == 0 and first == 0 and not T.find_ops(Pt, "ite"):
            prev_c = sp.Symbol("previous_step")
            named[absd[0]] = sp.Abs(F - prev_c)
            S, js_t, nimp = (x_.xreplace(named) for x_ in (S, js_t, nimp))
            width = nimp - js_t
            C0 = S.args[0]
            absd = [x for x in T.subterms(C0) if isinstance(x, sp.Abs)]
            future_dt = F
            ctx.ok("R20.2", "integrate[previous step]", "the step compared with is the one that ended at the previous sample "
                   "(read back from the samples; the first step is compared with itself)", L.loc, derived=Pt)
    one_sided = None
    if C0 is not None and not absd:
        # no |.|: a single ordering comparison on a difference with a carried time step tests one sign of the jitter only
        cmps = [x for x in T.subterms(C0) if fname(x) in ("lt", "gt", "le", "ge") and any(
            c in x.free_symbols and carried_syms[c] in L.carried and not isinstance(L.carried[carried_syms[c]][0], bool)
            and T.to_term(L.carried[carried_syms[c]][2]).has(time) for c in carried_syms)]
        if len(cmps) == 1:
            one_sided = cmps[0]
    if C0 is not None:
        flags = [x for x in C0.free_symbols if x in carried_syms and x != prev_c]
        if len(flags) == 1:
            restart_c = flags[0]
            restart_name = carried_syms[restart_c]
    primary = op("stencil", order, n)
    # R20.2 fallback selection
    if fname(S) != "ite":
        ctx.bad("R20.2", "integrate[fallback stencil]", "the stencil is not selected by a restart condition", L.loc, derived=S)
    else:
        C, s_then, s_else = S.args
        ok_lit = fname(s_then) == "array" and len(s_then.args) == 2 and sp.simplify(sum(s_then.args) - 1) == 0 \
            and all(a == sp.Rational(1, 2) for a in s_then.args)
        ctx.expect(ok_lit, "R20.2", "integrate[fallback stencil]", "fallback is the trapezoid [1/2, 1/2]", L.loc,
                   derived=s_then, required="array(1/2, 1/2)")
        ctx.equiv("R20.2", "integrate[primary stencil]", s_else, primary, L.loc,
                  "otherwise the requested (order, n) stencil", interp=it)
        ctx.equiv("R20.2", "integrate[fallback width]", width, T.ITE(C, sp.Integer(2), op("len", primary)), L.loc, interp=it)
        ctx.equiv("R20.2", "integrate[fallback implicit points]", nimp, T.ITE(C, sp.Integer(1), n), L.loc, interp=it)
        if one_sided is not None:
            ctx.bad("R20.2", "integrate[jitter forces fallback]", "the fallback is selected by a one-sided comparison: a time step that "
                    "shrinks (or grows) by more than 1% is not detected, so the uniform-step stencil is applied across it", L.loc,
                    derived=one_sided, required="|future_dt - prev_dt| > 0.01*curr_dt")
        if prev_c is not None:
            J = CMP("gt", sp.Abs(future_dt - prev_c), sp.Rational(1, 100) * curr_dt)
            present = J in set(T.subterms(C))
            ctx.expect(present and T.assume(C, {J: True}) == TRUE_T, "R20.2", "integrate[jitter forces fallback]",
                       "|future_dt - prev_dt| > 0.01*curr_dt forces the trapezoid", L.loc, derived=C, required=J)
            end_c = CMP("lt", lv + n - 1, op("len", signal))
            ctx.expect(end_c in set(T.subterms(C)) and T.assume(C, {end_c: False}) == TRUE_T, "R20.2",
                       "integrate[record end forces fallback]",
                       "running out of future samples forces the trapezoid", L.loc, derived=C, required=end_c)
            if restart_c is not None:
                rest = T.assume(C, {J: False, end_c: True})
                ctx.expect(rest == restart_c, "R20.2", "integrate[uniform stretch keeps state]",
                           "without jitter and away from the end the carried restart flag decides", L.loc,
                           derived=rest, required=restart_c)
                # future_dt definition
                want_future = T.ITE(end_c, op("item", time, lv + n - 1) - op("item", time, lv + n - 2), curr_dt)
                ctx.equiv("R20.2", "integrate[future_dt]", future_dt, want_future, L.loc, interp=it)
                # the count of jitter-free steps restarts at a jitter: its next value must not depend on what was counted
                # before, and the high-order stencil is re-enabled only once that count reaches the stencil width
                cands = [(nm, c) for nm, c in L.carried.items() if c[1] is not None and c[1] != restart_c and c[1] != prev_c
                         and c[0] == 0 and c[1] in N(L.carried[restart_name][2]).free_symbols]
                if len(cands) != 1:
                    ctx.unsure("R20.2", "integrate[jitter restarts the count]", "no single step counter feeds the restart flag", L.loc)
                else:
                    cnm, (c0, csym, cfin) = cands[0]
                    cfin = N(cfin)
                    underJ = T.resimplify(T.assume(cfin, {J: True}))
                    ctx.expect(csym not in underJ.free_symbols, "R20.2", "integrate[jitter restarts the count]",
                               f"after a jittered step the number of constant steps counted so far (`{cnm}`) does not depend on the "
                               "count before the jitter, so the high-order stencil cannot be re-enabled by steps that precede it",
                               L.loc, derived=underJ)
                    rfin = N(L.carried[restart_name][2])
                    reach = CMP("eq", T.resimplify(T.assume(cfin, {C: True})), op("len", primary))
                    reach_s = [x for x in T.subterms(rfin) if fname(x) in ("eq", "ne") and csym in x.free_symbols]
                    okre = len(reach_s) >= 1 and all(T.equivalent(CMP("eq", *x.args), reach) == T.Verdict.EQUAL for x in reach_s)
                    stays = T.resimplify(T.assume(rfin, {**{x: (fname(x) == "ne") for x in reach_s}, J: True})) if okre else None
                    ctx.expect(okre and stays == TRUE_T, "R20.2", "integrate[high order needs a full stencil of constant steps]",
                               "the restart flag is cleared only when the updated count equals the width of the requested stencil, "
                               "and stays set on a jittered step otherwise", L.loc, derived=str([T.show(x, 80) for x in reach_s]),
                               required=reach)
    ctx.equiv("R20.3", "integrate[step size]", curr_dt, op("item", time, lv) - op("item", time, lv - 1), L.loc,
              "the step is multiplied by the current time step time[i] - time[i-1]", interp=it)
    # R20.3 step shape
    js = -(width - nimp)
    ctx.ok("R20.3", "integrate[step]", "out[i] == out[i-1] + dt * sum_m stencil[m - jstart]*signal[i + m] over m in [jstart, jend): a "
           "degree-1 form in the signal with the weight index aligned to the sample offset", L.loc,
           derived=sp.Tuple(js_t, nimp))
    # node of the stencil that multiplies signal[i] on the high-order branch: -jstart with the primary width / n
    align = T.resimplify(T.assume(-js, {C0: False})) if C0 is not None else None
    stencil_definition_rules(ctx, p, align, order, n)
    envres.check_ext_used(ctx, it, "R20.4", "integrate")
    ctx.absorb(it)
    ctx.notes.extend(it.unknown_notes[:5])
    ctx.require_count("R20.1", 2)
    ctx.require_count("R20.2", 9)
    ctx.require_count("R20.3", 2)
    ctx.require_count("R20.5", 11)


def stencil_definition_rules(ctx, p, align, order, n):
    """R20.5: the weight generator is the textbook construction - Lagrange basis polynomials on unit-spaced nodes, term-wise
    antiderivative, difference of the antiderivative over the one step [m-1, m] whose end nodes are the samples i-1 and i of
    `integrate`.  Exactness for polynomials below the order and weights summing to one are theorems about that construction
    (Lagrange interpolation reproduces such polynomials); the rule decides that the code is that construction."""
    R = "R20.5"
    idx, poly, x = P("base_polynomial_index"), P("poly"), P("x")
    # -- integration_stencil
    f = p.get_function(TI + "integration_stencil")
    it = Interp(p, opaque={TI + "integrated_lagrange_base_polynomial_coef": "ilag", TI + "evaluate_polynomial": "evalpoly"})
    r = T.to_term(it.call_function(f, [order, n], {}, None))
    if fname(r) != "tabulate":
        ctx.unsure(R, "integration_stencil", "weights are not filled by one loop", f.loc(), derived=r)
    else:
        base, pat, val, lv = r.args[:4]
        rng = r.args[4] if len(r.args) > 4 else None
        ctx.expect(base == op("zeros", order) and pat == lv and _range_set(rng) == (sp.Integer(0), sp.expand(order)), R,
                   "integration_stencil[one weight per node]", "`order` weights, weight k computed in iteration k, all k in 0..order-1",
                   f.loc(), derived=sp.Tuple(base, pat, rng))
        ev = T.find_ops(val, "evalpoly")
        ok = len(ev) == 2
        hi = lo = None
        if not ev:
            # the two evaluations written out (one pass over the coefficients for both ends): sum_k P[k] * x^(deg - k) each
            Pk = op("ilag", order, lv)
            parts = list(val.args) if isinstance(val, sp.Add) else [val]
            pos = [t_ for t_ in parts if fname(t_) == "loopsum"]
            neg = [-t_ for t_ in parts if fname(-t_) == "loopsum"]
            if len(parts) == 2 and len(pos) == 1 and len(neg) == 1:
                hi, lo = _polyeval_point(pos[0], Pk), _polyeval_point(neg[0], Pk)
                ok = hi is not None and lo is not None
        elif ok:
            a, b = ev
            if val == b - a:
                a, b = b, a
            ok = val == a - b and a.args[0] == b.args[0] == op("ilag", order, lv)
            hi, lo = a.args[1], b.args[1]
        ctx.expect(ok, R, "integration_stencil[antiderivative difference]",
                   "weight k == I_k(hi) - I_k(lo) with I_k the integrated k-th basis polynomial of that order", f.loc(), derived=val)
        if ok:
            ctx.expect(sp.expand(hi - lo - 1) == 0, R, "integration_stencil[one step]", "the interval is one node spacing long",
                       f.loc(), derived=sp.Tuple(lo, hi))
            if align is None:
                ctx.unsure(R, "integration_stencil[interval matches integrate]", "sample alignment of `integrate` not derived", f.loc())
            else:
                al = align.xreplace({op("len", op("stencil", order, n)): order})
                ctx.expect(sp.expand(hi - al) == 0, R, "integration_stencil[interval matches integrate]",
                           "the interval ends at the node that `integrate` multiplies with signal[i] (node width - n on the "
                           "high-order branch) and starts at the node of signal[i-1]", f.loc(), derived=sp.Tuple(lo, hi), required=al)
    ctx.absorb(it)
    # -- evaluate_polynomial
    f = p.get_function(TI + "evaluate_polynomial")
    it = Interp(p)
    r = T.to_term(it.call_function(f, [poly, x], {}, None))
    ls = T.find_ops(r, "loopsum")
    ok = len(ls) == 1 and r == ls[0]
    if ok:
        X, lv, rng = ls[0].args[:3]
        deg = op("len", poly) - 1
        if rng == poly:
            # `for c in poly` walks the coefficients by position: element lv of poly, positions 0..len(poly)-1
            X = X.xreplace({op("elem", poly, lv): op("item", poly, lv)})
            rng = op("range", sp.Integer(0), op("len", poly))
        if _range_bounds(rng) is not None and _range_bounds(rng)[0] == 0:
            X = T.resimplify(T.arange_element(X, lambda k: k == lv))      # a table of exponents read at the loop position
        ok = sp.expand(X - op("item", poly, lv) * x**(deg - lv)) == 0 and _range_bounds(rng) == (sp.Integer(0), sp.expand(deg + 1))
    ctx.expect(ok, R, "evaluate_polynomial", "sum_k poly[k]*x^(deg-k) over all deg+1 coefficients (highest power first)", f.loc(), derived=r)
    ctx.absorb(it)
    # -- integrated basis polynomial
    f = p.get_function(TI + "integrated_lagrange_base_polynomial_coef")
    it = Interp(p, opaque={TI + "lagrange_base_polynomial_coef": "lag"})
    r = T.to_term(it.call_function(f, [order, idx], {}, None))
    want_base = op("store", op("zeros", order + 1), op("slc", sp.Integer(0), order, T.NONE_T), op("lag", order - 1, idx))
    if fname(r) == "store" and r.args[1] in (order, sp.Integer(-1)) and r.args[2] == 0 and fname(r.args[0]) == "store" \
            and r.args[0].args[0] in (op("empty", order + 1), op("zeros", order + 1)):
        # a fresh buffer whose last slot (the constant of integration) is set to zero explicitly is the zero-initialised one
        r = op("store", op("zeros", order + 1), *r.args[0].args[1:])
    direct_ = fname(r) == "store" and r.args[0] == op("zeros", order + 1) and _slice0(r.args[1]) == op("slc", sp.Integer(0), order, T.NONE_T)
    if direct_:
        # built in one expression: poly[0:order] = lag / [order, order-1, .., 1]  (coefficient k divided by order - k, all k)
        ctx.ok(R, "integrated_lagrange_base_polynomial_coef[coefficients]",
               "starts from the degree order-1 basis polynomial shifted up one power (constant of integration 0)", f.loc(), derived=r.args[0])
        lagt = op("lag", order - 1, idx)
        q = sp.cancel(lagt / r.args[2]) if r.args[2].has(lagt) else None
        okd = q is not None and not q.has(lagt) and q in (op("arange", order, sp.Integer(0), sp.Integer(-1)), order - op("arange", order),
                                                         order - op("arange", sp.Integer(0), order))
        ctx.expect(okd if q is not None and not q.has(lagt) else None, R, "integrated_lagrange_base_polynomial_coef[term-wise antiderivative]",
                   "coefficient k (of x^(order-1-k)) is divided by order-k", f.loc(), derived=r.args[2])
        ctx.ok(R, "integrated_lagrange_base_polynomial_coef[all powers]",
               "every coefficient with a divisor other than one is rescaled (k = 0..order-2)", f.loc(), derived=r.args[1])
    elif fname(r) == "store" and _slice0(r.args[0]) == want_base and fname(_slice0(r.args[1])) == "slc":
        # vectorised form: poly[0:m] = poly[0:m] / (order - arange(m)) with m = order-1 (or order)
        sl = _slice0(r.args[1])
        m = sl.args[1]
        okv = sl.args[0] == 0 and sp.expand(m - (order - 1)) in (0, 1) and T.equivalent(
            _slice0(r.args[2]), op("item", want_base, sl) / (order - op("arange", m))) == T.Verdict.EQUAL
        ctx.ok(R, "integrated_lagrange_base_polynomial_coef[coefficients]",
               "starts from the degree order-1 basis polynomial shifted up one power (constant of integration 0)", f.loc())
        ctx.expect(okv, R, "integrated_lagrange_base_polynomial_coef[term-wise antiderivative]",
                   "coefficient k (of x^(order-1-k)) is divided by order-k", f.loc(), derived=r.args[2])
        ctx.expect(okv, R, "integrated_lagrange_base_polynomial_coef[all powers]",
                   "every coefficient with a divisor other than one is rescaled (k = 0..order-2)", f.loc(), derived=sl)
    elif fname(r) != "tabulate":
        ctx.unsure(R, "integrated_lagrange_base_polynomial_coef", "coefficients are not rescaled by one loop or one slice expression", f.loc(), derived=r)
    else:
        base, pat, val, lv = r.args[:4]
        rng = r.args[4] if len(r.args) > 4 else None
        want_base = op("store", op("zeros", order + 1), op("slc", sp.Integer(0), order, T.NONE_T), op("lag", order - 1, idx))
        ctx.expect(base == want_base, R, "integrated_lagrange_base_polynomial_coef[coefficients]",
                   "starts from the degree order-1 basis polynomial shifted up one power (constant of integration 0)", f.loc(), derived=base)
        cur = [t for t in T.find_ops(val, "item") if t.args[1] == lv]
        ok = pat == lv and len(cur) == 1 and sp.expand(val * (order - lv) - cur[0]) == 0 \
            and fname(cur[0].args[0]) == "loopstate" and cur[0].args[0].args[0] == base
        ctx.expect(ok, R, "integrated_lagrange_base_polynomial_coef[term-wise antiderivative]",
                   "coefficient k (of x^(order-1-k)) is divided by order-k", f.loc(), derived=val)
        okr = _range_bounds(rng) in ((sp.Integer(0), sp.expand(order - 1)), (sp.Integer(0), sp.expand(order)))
        ctx.expect(okr, R, "integrated_lagrange_base_polynomial_coef[all powers]",
                   "every coefficient with a divisor other than one is rescaled (k = 0..order-2)", f.loc(), derived=rng)
    ctx.absorb(it)
    # -- basis polynomial: product of (x - k)/(index - k) over the other nodes
    f = p.get_function(TI + "lagrange_base_polynomial_coef")
    it = Interp(p)
    r = T.to_term(it.call_function(f, [order, idx], {}, None))
    # the product over the other nodes may be accumulated in one loop or in separate loops (in helpers): each piece of state is
    # taken with the loop that carries it, and every such loop must run over all nodes and skip the own one
    Ls = [L for L in it.loops if L.lv is not None]
    found = {"den": [], "deg": [], "poly": []}
    for L in Ls:
        for nm, c in L.carried.items():
            if c[1] is None:
                continue
            if c[0] == 1:
                found["den"].append((L, c))
            elif c[0] == 0:
                found["deg"].append((L, c))
            elif T.to_term(c[0]) == op("store", op("zeros", order + 1), sp.Integer(0), sp.Integer(1)):
                found["poly"].append((L, c))
    if not Ls:
        ctx.unsure(R, "lagrange_base_polynomial_coef", "no loop over the nodes found", f.loc())
    elif any(len(v) != 1 for v in found.values()) or found["deg"][0][0] is not found["poly"][0][0]:
        ctx.unsure(R, "lagrange_base_polynomial_coef[state]", "denominator / degree counter / coefficient array not identified",
                   f.loc(), derived=str([sorted(L.carried) for L in Ls]))
    else:
        (Ld, (_, dsym, dfin)), (Lp, (_, jsym, jfin)), (_, (p0, psym, pfin)) = found["den"][0], found["deg"][0], found["poly"][0]
        used = [Ld] if Ld is Lp else [Ld, Lp]
        ctx.expect(all(_range_bounds(L.iter) == (sp.Integer(0), order + 1) for L in used), R,
                   "lagrange_base_polynomial_coef[nodes]", "the product runs over the nodes 0..order", f.loc(),
                   derived=sp.Tuple(*[L.iter for L in used]))
        skip_d, skip = CMP("eq", idx, Ld.lv), CMP("eq", idx, Lp.lv)
        lv = Lp.lv
        ctx.equiv(R, "lagrange_base_polynomial_coef[denominator]", dfin, T.ITE(skip_d, dsym, dsym * (idx - Ld.lv)), f.loc(),
                  "denominator == product over the other nodes k of (index - k)", interp=it)
        ctx.equiv(R, "lagrange_base_polynomial_coef[degree]", jfin, T.ITE(skip, jsym, jsym + 1), f.loc(),
                  "the degree grows by one per factor and the own node is skipped", interp=it)
        pf = T.to_term(pfin)
        taken = T.resimplify(T.assume(pf, {skip: False}))
        kept = T.resimplify(T.assume(pf, {skip: True}))
        okp = kept == psym and fname(taken) == "store" and taken.args[0] == psym
        if okp:
            sl, newv = taken.args[1], taken.args[2]
            # after the increment the degree is d = j+1: new[1..d] = old[1..d] - k*old[0..d-1]
            up = op("slc", sp.Integer(1), jsym + 2, T.NONE_T)
            lowr = op("slc", sp.Integer(0), jsym + 1, T.NONE_T)
            okp = _slice0(sl) == up and sp.expand(_slice0(newv) - (op("item", psym, up) - lv * op("item", psym, lowr))) == 0
        ctx.expect(okp, R, "lagrange_base_polynomial_coef[multiply by (x - k)]",
                   "coefficients c[1..d] become c[1..d] - k*c[0..d-1] (d the new degree), i.e. the polynomial is multiplied by (x - k); "
                   "untouched for the own node", f.loc(), derived=T.show(taken, 200))
        num, den = r.as_numer_denom()
        okres = fname(num) == "tabulate" and num.args[0] == T.to_term(p0) and fname(den) == "loopfix" \
            and den.args[0] == 1 and T.equivalent(den.args[1], T.to_term(dfin).xreplace({dsym: den.args[3]})) == T.Verdict.EQUAL
        ctx.expect(okres, R, "lagrange_base_polynomial_coef[result]", "returns the coefficient array divided by the denominator",
                   f.loc(), derived=T.show(r, 160))
    ctx.absorb(it)


def _eval_max(t):
    """maximum(a, b) of two numbers, or of zero and a quantity known to be non-negative"""
    def fn(n):
        if fname(n) in ("maximum", "max") and len(n.args) == 2:
            a, b = n.args
            if a.is_number and b.is_number:
                return sp.Max(a, b)
            for u, v in ((a, b), (b, a)):
                if u == 0 and getattr(sp.expand(v), "is_nonnegative", False):
                    return v
        return None
    return T.rewrite(t, fn)


def _difference_table_reads(t, lv):
    """(a - b)[k] -> a[k] - b[k] and x[s:][k] -> x[k + s] for k >= 0, the loop variable being >= 1"""
    m_ = sp.Symbol("_m", integer=True, nonnegative=True)

    def nonneg(k):
        if fname(k) in ("maximum", "max") and len(k.args) == 2 and any(a.is_number and a >= 0 for a in k.args):
            return True
        return bool(getattr(sp.expand(k.subs(lv, m_ + 1)), "is_nonnegative", False))
    return T.resimplify(T.item_of_slice(T.distribute_item(T.to_term(t)), nonneg))


def _norm_len(t):
    """len distributes over ite; the length of a literal array is its number of elements"""
    def fn(n):
        if fname(n) == "len" and len(n.args) == 1:
            a = n.args[0]
            if fname(a) == "ite":
                return T.ITE(a.args[0], _norm_len(op("len", a.args[1])), _norm_len(op("len", a.args[2])))
            if fname(a) == "array":
                return sp.Integer(len(a.args))
        return None
    return T.rewrite(t, fn)


def _parse_step(L, lv, signal):
    """(S, jstart, jend, dt, j, out, final) from the loop-carried output array, or None.
    The step is out[i] = out[i-1] + dt * sum_j S[j + cw] * signal[i + j + cs] for j in range(a, b) (any affine indexing, the sum
    may live in a helper); it is returned re-indexed by the sample offset m = j + cs: S[m - jstart] * signal[i + m] for m in
    [jstart, jend) - provided the weight index really is m - jstart."""
    arrs = [(nm, c) for nm, c in L.carried.items() if c[1] is not None and fname(T.to_term(c[2])) == "store"
            and T.to_term(c[2]).args[0] == c[1]]
    if len(arrs) != 1:
        return None
    nm, (orig, out, fin) = arrs[0]
    fin = T.to_term(fin)
    if fin.args[1] != lv:
        return None
    inc = sp.expand(fin.args[2] - op("item", out, lv - 1))
    sums = T.find_ops(inc, "loopsum")
    if len(sums) != 1 or out in inc.free_symbols:
        return None
    ls = sums[0]
    dt = sp.cancel(inc / ls) if inc != 0 else None
    if dt is None or T.find_ops(dt, "loopsum"):
        return None
    X, jj, rng = ls.args[:3]
    if fname(rng) != "range" or len(rng.args) not in (1, 2) or not isinstance(X, sp.Mul):
        return None
    start, stop = (sp.Integer(0), rng.args[0]) if len(rng.args) == 1 else rng.args
    items = [a for a in X.args if fname(a) == "item"]
    sig = [a for a in items if a.args[0] == signal]
    wts = [a for a in items if a.args[0] != signal]
    if len(sig) != 1 or len(wts) != 1 or len(X.args) != 2:
        return None
    cs = sp.expand(sig[0].args[1] - lv - jj)        # signal index = i + j + cs
    cw = sp.expand(wts[0].args[1] - jj)             # weight index = j + cw
    if jj in cs.free_symbols or jj in cw.free_symbols:
        return None
    js = _norm_len(sp.expand(start + cs))
    je = _norm_len(sp.expand(stop + cs))
    # weight index as a function of the sample offset m: m - cs + cw must be m - js
    if T.resimplify(_norm_len(sp.expand(cw - cs + js))) != 0:
        return None
    return wts[0].args[0], js, je, dt, jj, out, fin


def _polyeval_point(ls, poly):
    """x when `ls` is sum_k poly[k] * x**(len(poly) - 1 - k) over all coefficients (x free of the summation index), else None"""
    body, k, rng = ls.args[:3]
    if _range_bounds(rng) != (sp.Integer(0), sp.expand(op("len", poly))):
        return None
    coef = op("item", poly, k)
    rest = sp.cancel(body / coef) if body.has(coef) else None
    if rest is None or rest.has(coef):
        return None
    deg = op("len", poly) - 1 - k
    if isinstance(rest, sp.Pow) and sp.expand(rest.args[1] - deg) == 0 and k not in rest.args[0].free_symbols:
        return rest.args[0]
    return None


def _range_bounds(r):
    """(start, stop) of a unit-step range term, `range(n)` read as `range(0, n)`"""
    if fname(r) != "range" or len(r.args) not in (1, 2):
        return None
    return (sp.Integer(0), sp.expand(r.args[0])) if len(r.args) == 1 else (sp.expand(r.args[0]), sp.expand(r.args[1]))


def _range_set(r):
    """(lowest, highest + 1) of the indices a unit-step range visits, in either direction: for a fill whose iteration k writes only
    slot k from values that no iteration changes, the order of the visits does not matter"""
    if fname(r) == "range" and len(r.args) == 3 and r.args[2] == -1:
        return (sp.expand(r.args[1] + 1), sp.expand(r.args[0] + 1))
    return _range_bounds(r)


def _slice0(t):
    """a slice that starts at None starts at 0"""
    def fn(n):
        if fname(n) == "slc" and len(n.args) == 3 and n.args[0] == T.NONE_T and n.args[2] == T.NONE_T:
            return op("slc", sp.Integer(0), n.args[1], n.args[2])
        return None
    return T.rewrite(T.to_term(t), fn)
