"""Shared set-up for the source-term kernel rules (C08, C09, C10, C11)."""
from __future__ import annotations

from typing import Dict, List, Tuple

import sympy as sp

from .. import terms as T
from ..terms import P, op, Str, fname
from ..interp import Interp, FuncVal
from ..libmodel import element_of
from ..signs import SignAnalysis, NEG, ZERO, POS, TOP, NONNEG, NONPOS
from .common import identity_hooks

WB = "wavephysics.balance."
KD = "wavetheory.lineardispersion.inverse_intrinsic_dispersion_relation"
CG = "wavetheory.lineardispersion.intrinsic_group_velocity"

E = P("E")
GRID = P("grid")
PAR = P("par")
DEPTH = P("depth")
Z0 = P("z0")
U = P("U")
THW = P("thw")
FI = sp.Symbol("fi", integer=True)
DI = sp.Symbol("di", integer=True)

POSITIVE_PARAMETERS = {
    # every default that is a positive literal is assumed > 0 for non-default sets as well (DESIGN Appendix B)
    "gravitational_acceleration", "charnock_constant", "air_density", "water_density", "vonkarman_constant",
    "wave_age_tuning_parameter", "growth_parameter_betamax", "elevation", "air_viscosity",
    "saturation_breaking_constant", "saturation_cosine_power", "saturation_integration_width_degrees",
    "saturation_threshold", "cumulative_breaking_constant", "cumulative_breaking_max_relative_frequency",
    "p1", "p2", "a1", "a2", "saturation_integrated_threshold", "breaking_probability_constant",
    "charnock_maximum_roughness",
}
NONNEGATIVE_PARAMETERS = {"viscous_stress_parameter", "saturation_breaking_directional_control"}
POSITIVE_GRID = {"frequency_step", "direction_step", "radian_frequency"}


def kernel_interp(p, extra_opaque=None) -> Interp:
    o = {KD: "kdisp", CG: "cg"}
    if extra_opaque:
        o.update(extra_opaque)
    return identity_hooks(Interp(p, opaque=o))


def par(key):
    return op("item", PAR, Str(key))


def grid(key):
    return op("item", GRID, Str(key))


def _is_E_item(t):
    if fname(t) == "item":
        b = t.args[0]
        if b == E:
            return True
        if fname(b) == "item" and b.args[0] == E:
            return True
    return t == E


def assumptions(extra=None) -> List[Tuple]:
    a = [
        (_is_E_item, NONNEG, "variance_density >= 0"),
        (lambda t: fname(t) == "item" and t.args[0] == PAR and T.str_of(t.args[1]) in POSITIVE_PARAMETERS, POS,
         "physical parameters with positive defaults are > 0"),
        (lambda t: fname(t) == "item" and t.args[0] == PAR and T.str_of(t.args[1]) in NONNEGATIVE_PARAMETERS, NONNEG,
         "parameters defaulting to 0 are >= 0"),
        (lambda t: t == 1 - par("saturation_breaking_directional_control"), NONNEG,
         "saturation_breaking_directional_control in [0, 1]"),
        (lambda t: fname(t) == "item" and t.args[0] == GRID and T.str_of(t.args[1]) in POSITIVE_GRID, POS,
         "frequency_step > 0, direction_step > 0, radian_frequency > 0"),
        (lambda t: fname(t) == "kdisp", POS, "wavenumber from the dispersion solver > 0 (C07 clause, assumed here)"),
        (lambda t: fname(t) == "cg", POS, "group velocity > 0 (C07 clause, assumed here)"),
        (lambda t: t == U, NONNEG, "wind speed >= 0"),
        (lambda t: t == Z0, POS, "roughness_length > 0"),
        (lambda t: t == DEPTH, POS, "depth > 0"),
        (lambda t: isinstance(t, sp.log) and t.args[0] == par("elevation") / Z0, POS, "roughness_length < elevation"),
    ]
    if extra:
        a = list(extra) + a
    return a


def wind(kind="u10"):
    return (U, THW, kind)


def flatten_tab(t):
    from ..libmodel import _flatten_tab
    return _flatten_tab(t)
