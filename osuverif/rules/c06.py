"""C06 -- estimators reproduce the moments; solver wiring; Jacobian = derivative; rotation covariance of closed forms."""
from __future__ import annotations

import ast

import sympy as sp

from .. import terms as T
from ..terms import P, op, Str, fname, CMP, NONE_T
from ..interp import Interp
from .fc import own_walk, calls, call_name, local_assignments
from .fc import own_walk as own_walk_
from .c05 import norm_est

EST = "wavespectra.estimators."
M2 = EST + "mem2."
EXPLANATION = (
    "TermFlow on the MEM2 pieces. (1) The twiddle table built in the scipy variant and in the Newton variant is row for "
    "row [cos t, sin t, cos 2t, sin 2t], the moment vector handed to the constraint function is [a1, b1, a2, b2] in both, "
    "and the MEM fallback receives moments[0..3] in that order with directions recovered as atan2(sin row, cos row). "
    "(2) moment_constraints[m] == moments[m] - sum(twiddle[m]*D*dtheta) with D the very distribution function and the "
    "same increment that normalises it. (3) Each Jacobian entry equals the analytic derivative of the constraint "
    "function, -sum(tw_m*dtheta*(N*(-tw_n*S) + S*N^2*sum(tw_n*S*dtheta))) with S = exp(-(lambda.tw - min)), N = 1/sum(S*dtheta) "
    "(derived by hand from the definition; the min-shift is a constant factor), filled for n <= m and mirrored. "
    "(4) Convergence is declared only under ||F|| < atol with atol from the config key 'atol' (default 0.01 == "
    "NUMERICS['atol']). (5) The two direction-increment implementations are both (wrap(t - t_prev) + wrap(t_next - t))/2 "
    "with period 2*pi. (6, thorough tier too) algebraic covariance of the closed forms: rotating the input moments by "
    "phi multiplies lambda1+i*lambda2 by e^{i phi} and lambda3+i*lambda4 by e^{2 i phi} in initial_value, and mirrors flip "
    "the sine components - polynomial identities decided exactly with sympy. R06.7: module-level solver defaults are never written in place. Not decided: fidelity to 0.01, Newton~scipy "
    "agreement, the discretisation bound, equivariance of the iterative variants."
)


def _push_roll(x, k):
    """roll(x, k) with the shift pushed through element-wise structure: roll(f(a, b), k) == f(roll(a, k), roll(b, k))"""
    if x.is_number:
        return x
    if isinstance(x, sp.Symbol):
        return op("roll", x, k) if k != 0 else x
    f = fname(x)
    if f == "roll" and x.args[1].is_Integer and k.is_Integer:
        return _push_roll(x.args[0], sp.Integer(x.args[1] + k))
    if isinstance(x, (sp.Add, sp.Mul, sp.Pow)) or f in ("pymod",) or isinstance(x, (sp.cos, sp.sin, sp.exp, sp.Abs)):
        return x.func(*[_push_roll(a, k) for a in x.args])
    return op("roll", x, k) if k != 0 else x


def norm_inc(t):
    """diff with a cyclic closure is a roll; a roll of an element-wise expression is that expression of rolled operands;
    constants inside `% (2 pi)` are reduced modulo the period"""
    def fn0(n):
        if fname(n) == "roll" and len(n.args) == 2 and n.args[1].is_Integer and not isinstance(n.args[0], sp.Symbol):
            return _push_roll(n.args[0], n.args[1])
        return None
    t = T.rewrite(T.to_term(t), fn0)

    def fn(n):
        f = fname(n)
        if f == "diff" and len(n.args) == 3:
            x, app, pre = n.args
            if app == op("item", x, sp.Integer(0)) and pre == NONE_T:
                return op("roll", x, sp.Integer(-1)) - x
            if pre == op("item", x, sp.Integer(-1)) and app == NONE_T:
                return x - op("roll", x, sp.Integer(1))
        if f == "pymod" and n.args[1].is_number and isinstance(n.args[0], sp.Add):
            m = n.args[1]
            consts = [a for a in n.args[0].args if a.is_number]
            rest = [a for a in n.args[0].args if not a.is_number]
            if consts:
                c = sp.Add(*consts)
                k = sp.floor(c / m)
                c2 = sp.simplify(c - k * m)
                return op("pymod", sp.Add(*rest) + c2, m)
        return None
    return T.rewrite(T.to_term(t), fn)


def same_function(a, b, symbols):
    """Equality of two closed-form expressions in the given real symbols.  Identical terms are equal; otherwise the
    two *formulas* (not the program) are evaluated at a few fixed rational points inside the unit disc - a difference
    there refutes equality (True/False), agreement at all points of this polynomial-identity test is accepted as equal
    (rational functions of bounded degree that agree at these points are identical with overwhelming probability),
    free opaque sub-terms make the answer undecided (None)."""
    a, b = T.to_term(a), T.to_term(b)
    if a == b:
        return True
    extra = (a.free_symbols | b.free_symbols) - set(symbols)
    if extra or T.has_unknown(a) or T.has_unknown(b) or a.atoms(sp.core.function.AppliedUndef) or b.atoms(sp.core.function.AppliedUndef):
        return None
    pts = [(sp.Rational(3, 10), sp.Rational(-1, 5), sp.Rational(1, 7), sp.Rational(2, 9), sp.Rational(4, 3)),
           (sp.Rational(-2, 5), sp.Rational(1, 3), sp.Rational(-1, 11), sp.Rational(1, 13), sp.Rational(-5, 7)),
           (sp.Rational(1, 9), sp.Rational(5, 11), sp.Rational(2, 7), sp.Rational(-3, 10), sp.Rational(11, 5)),
           (sp.Rational(-1, 2), sp.Rational(-1, 4), sp.Rational(1, 5), sp.Rational(1, 6), sp.Rational(1, 8))]
    for pt in pts:
        sub = dict(zip(symbols, pt))
        try:
            va = complex(sp.N(a.subs(sub), 30))
            vb = complex(sp.N(b.subs(sub), 30))
        except Exception:
            return None
        if abs(va - vb) > 1e-12 * max(1.0, abs(va), abs(vb)):
            return False
    return True


def run(ctx):
    ctx.explanation = EXPLANATION
    p = ctx.program
    ctx.trust("np.roll(x, -1)[i] = x[i+1] cyclically; np.diff(x, append=x[0]) closes the circle forward",
              "derivative of the constraint function worked out by hand (DESIGN section 5, C06)")
    lam, dth, tw, mom = P("lam"), P("dth"), P("tw"), P("moments")
    row = lambda j: op("item", tw, sp.Tuple(sp.Integer(j), op("slc", NONE_T, NONE_T, NONE_T)))  # noqa: E731
    ip = sum(op("item", lam, sp.Integer(j)) * row(j) for j in range(4))
    S = sp.exp(-(ip - op("min", ip, NONE_T)))
    Nn = 1 / op("sum", S * dth, NONE_T)
    D = S * Nn

    # ---- R06.1 twiddle tables and moment order
    th = P("theta")
    from .. import arrayeval as _ae
    _ae.HINTS[th] = 1           # the direction grid is a vector
    table = [sp.cos(th), sp.sin(th), sp.cos(2 * th), sp.sin(2 * th)]
    # what the two drivers hand to their per-frequency solvers, captured at the call (wherever the tables are built: inline
    # or in a helper): the twiddle table, the moment vector and the direction increments
    A1_, B1_, A2_, B2_ = (P(n) for n in ("a1", "b1", "a2", "b2"))
    W_ = lambda x: op("pymod", x + sp.pi, 2 * sp.pi) - sp.pi  # noqa: E731
    inc_ref = (W_(th - op("roll", th, sp.Integer(1))) + W_(op("roll", th, sp.Integer(-1)) - th)) / 2
    captured = {}

    def moment_components(mv):
        """The four components of the vector handed to the solver: an explicit array([..]) of four elements, or the
        trailing-axis slice of np.stack((..four arrays..), axis=-1) at one index."""
        if fname(mv) == "array" and len(mv.args) == 4:
            return list(mv.args)
        if fname(mv) == "item" and fname(mv.args[0]) == "stack" and isinstance(mv.args[1], sp.Tuple):
            st, idx = mv.args[0], list(mv.args[1].args)
            seq = st.args[0]
            axis = [a.args[1] for a in st.args[1:] if isinstance(a, sp.Tuple) and len(a.args) == 2 and a.args[0] == Str("axis")]
            axis += [a for a in st.args[1:] if getattr(a, "is_Integer", False)]
            if isinstance(seq, sp.Tuple) and len(seq.args) == 4 and axis == [sp.Integer(-1)] and idx \
                    and fname(idx[-1]) == "slc" and all(a == NONE_T for a in idx[-1].args):
                lead = idx[:-1]
                return [op("item", x, sp.Tuple(*lead) if len(lead) != 1 else lead[0]) for x in seq.args]
        return None

    def twiddle_rows(t):
        rows = {}
        cur = T.to_term(t)
        if fname(cur) in ("array", "stack", "vstack") and (len(cur.args) == 4 or (cur.args and isinstance(cur.args[0], sp.Tuple)
                                                                                   and len(cur.args[0].args) == 4)):
            # the table written as one literal: np.array([row0, row1, row2, row3])
            lit = cur.args if len(cur.args) == 4 else cur.args[0].args
            return {j: lit[j] for j in range(4)}
        while fname(cur) == "store":
            i = cur.args[1]
            if isinstance(i, sp.Tuple) and len(i.args) == 2 and i.args[0].is_Integer:
                rows.setdefault(int(i.args[0]), cur.args[2])
            elif isinstance(i, sp.Tuple) and len(i.args) == 2 and fname(i.args[0]) == "slc" and i.args[0].args[2] == NONE_T \
                    and all(getattr(x, "is_Integer", False) for x in i.args[0].args[:2]):
                # several rows at once: table[lo:hi, :] = (row_lo, ..., row_hi-1)
                lo, hi = int(i.args[0].args[0]), int(i.args[0].args[1])
                val = cur.args[2]
                vals = list(val.args) if isinstance(val, sp.Tuple) or fname(val) in ("array", "tuple", "list") else None
                if vals is not None and len(vals) == hi - lo:
                    for j, v_ in enumerate(vals):
                        rows.setdefault(lo + j, v_)
            cur = cur.args[0]
        return rows

    # (a) Newton driver -> _mem2_newton_point(..., direction_increment, twiddle_factors, ...)
    fnp = p.get_function(M2 + "_mem2_newton_point")
    itn = Interp(p, opaque={M2 + "initial_value": "guess0"})

    def hook_point(_it, f_, a_, k_, e_, n_):
        bound = dict(zip(f_.params, a_))
        bound.update(k_)
        captured.setdefault("newton", bound)
        return None
    itn.hooks[fnp.qualname] = hook_point
    fdrv = p.get_function(M2 + "mem2_newton")
    itn.call_function(fdrv, [th, A1_, B1_, A2_, B2_, P("progress"), None, False], {}, None)
    # (b) scipy driver -> scipy.optimize.root(moment_constraints, guess, args=(twiddle, moments, increments))
    fsc = p.get_function(M2 + "mem2_scipy_root_finder")
    itsc = Interp(p, opaque={M2 + "initial_value": "guess0"})
    rsc = T.to_term(itsc.call_function(fsc, [th, A1_, B1_, A2_, B2_, P("progress")], {}, None))
    roots = T.find_ops(rsc, "ext_scipy_optimize_root")
    if roots:
        for a_ in roots[0].args:
            if isinstance(a_, sp.Tuple) and len(a_.args) == 2 and a_.args[0] == Str("args") and isinstance(a_.args[1], sp.Tuple) \
                    and len(a_.args[1].args) == 3:
                captured["scipy"] = {"twiddle_factors": a_.args[1].args[0], "moments": a_.args[1].args[1],
                                     "direction_increment": a_.args[1].args[2]}
    # (c) per-point Newton -> mem2_newton_solver(moments, ...)
    fsolv = p.get_function(M2 + "mem2_newton_solver")
    itp = Interp(p)

    def hook_solver(_it, f_, a_, k_, e_, n_):
        bound = dict(zip(f_.params, a_))
        bound.update(k_)
        captured.setdefault("solver", bound)
        return P("solver_result")
    itp.hooks[fsolv.qualname] = hook_solver
    # the private kernel is called with its own parameter list, whatever that is (an output buffer may or may not be passed in)
    by_name = {"out": P("out"), "a1": A1_, "b1": B1_, "a2": A2_, "b2": B2_, "guess": P("guess"), "direction_increment": P("dth"),
               "twiddle_factors": P("tw"), "config": None, "approximate": False}
    itp.call_function(fnp, [by_name.get(q, P(q)) for q in fnp.params], {}, None)

    for key, fdr in (("scipy", fsc), ("newton", fdrv)):
        cap = captured.get(key)
        if cap is None or "twiddle_factors" not in cap:
            ctx.unsure("R06.1", f"{fdr.name}[twiddle table]", "call of the per-frequency solver not captured", fdr.loc())
            continue
        rows = twiddle_rows(cap["twiddle_factors"])
        ok = set(rows) == {0, 1, 2, 3} and all(rows[j] == table[j] for j in range(4))
        ctx.expect(ok, "R06.1", f"{fdr.name}[twiddle table]", "rows handed to the solver are [cos t, sin t, cos 2t, sin 2t]", fdr.loc(),
                   derived=str({k: T.show(v, 30) for k, v in sorted(rows.items())}))
        ctx.equiv("R06.4", f"{fdr.name}[direction increments]", cap.get("direction_increment"), inc_ref, fdr.loc(),
                  "the increments handed to the solver are the midpoint rule on the circle (sibling of get_direction_increment)",
                  norm=norm_inc, interp=itn if key == "newton" else itsc)
    for key, fdr in (("scipy", fsc), ("solver", fnp)):
        cap = captured.get(key)
        mv = T.to_term(cap.get("moments")) if cap and cap.get("moments") is not None else None
        ok = False
        comps = moment_components(mv) if mv is not None else None
        if comps is not None:
            bases = [a.args[0] if fname(a) == "item" else None for a in comps]
            idxs = {a.args[1] for a in comps if fname(a) == "item"}
            ok = bases == [A1_, B1_, A2_, B2_] and len(idxs) == 1
        ctx.expect(ok, "R06.1", f"{fdr.name}[moment vector]", "moments == [a1, b1, a2, b2] at one and the same index", fdr.loc(),
                   derived=T.show(mv, 160) if mv is not None else "not captured")
    ctx.absorb(itn)
    ctx.absorb(itsc)
    ctx.absorb(itp)
    fs = p.get_function(M2 + "mem2_newton_solver")
    its = Interp(p, opaque={M2 + "moment_constraints": "constraints", M2 + "mem2_jacobian": "jacobian",
                            M2 + "mem2_directional_distribution": "dist", M2 + "solve_newton_update": "solve", EST + "mem.numba_mem": "mem"})
    guess = P("guess")
    r = T.to_term(its.call_function(fs, [mom, guess, dth, tw, None, False], {}, None))
    mems = T.find_ops(r, "mem")
    if mems:
        m_ = mems[0]
        okm = m_.args[0] == sp.atan2(row(1), row(0)) and list(m_.args[1:5]) == [op("item", mom, sp.Integer(j)) for j in range(4)]
        ctx.expect(okm, "R06.1", "mem2_newton_solver[MEM fallback arguments]",
                   "directions = atan2(sin row, cos row); moments[0..3] passed as a1, b1, a2, b2", fs.loc(), derived=T.show(m_, 200))
    cons = T.find_ops(r, "constraints")
    okc = bool(cons) and all(c.args[1] == tw and c.args[2] == mom and c.args[3] == dth for c in cons)
    ctx.expect(okc, "R06.1", "mem2_newton_solver[constraint arguments]",
               "every evaluation of the constraint function gets (iterate, twiddle, moments, increments) in its own slots", fs.loc())
    jac = T.find_ops(r, "jacobian")
    okj = bool(jac) and all(j.args[1] == tw and j.args[2] == dth for j in jac)
    ctx.expect(okj, "R06.1", "mem2_newton_solver[jacobian arguments]", "the Jacobian is evaluated on the same grid quantities", fs.loc())
    sol = T.find_ops(r, "solve")
    oks = bool(sol) and all(fname(s_.args[0]) == "jacobian" and s_.args[1].could_extract_minus_sign() for s_ in sol)
    ctx.expect(oks, "R06.1", "mem2_newton_solver[newton step]", "the update solves J*delta = -F", fs.loc(),
               derived=T.show(sol[0], 160) if sol else "")

    # ---- R06.2 constraints
    f = p.get_function(M2 + "moment_constraints")
    it = Interp(p)
    r = T.to_term(it.call_function(f, [lam, tw, mom, dth], {}, None))
    entries = {}
    t_ = r
    while fname(t_) == "store":
        entries[t_.args[1]] = t_.args[2]
        t_ = t_.args[0]
    for m in range(4):
        want = op("item", mom, sp.Integer(m)) - op("sum", row(m) * D * dth, NONE_T)
        ctx.equiv("R06.2", f"moment_constraints[{m}]", entries.get(sp.Integer(m), r), want, f.loc(),
                  "F_m == moments[m] - sum(tw_m * D * dtheta) with D the normalised MEM2 distribution", norm=norm_est, interp=it)
    # ---- R06.2b Jacobian == analytic derivative
    f = p.get_function(M2 + "mem2_jacobian")
    Jm = P("J")
    r = T.to_term(it.call_function(f, [lam, tw, dth, Jm], {}, None))
    jent = {}
    t_ = r
    while fname(t_) == "store":
        if t_.args[1] not in jent:
            jent[t_.args[1]] = t_.args[2]
        t_ = t_.args[0]
    ctx.expect(t_ == Jm and len(jent) == 16, "R06.2", "mem2_jacobian[fills all 16 entries]",
               "every entry of the 4x4 matrix is written", f.loc(), derived=str(len(jent)))
    for m in range(4):
        for n in range(m + 1):
            dN = Nn**2 * op("sum", row(n) * S * dth, NONE_T)
            want = -op("sum", row(m) * dth * (Nn * (-row(n) * S) + S * dN), sp.Integer(-1))
            got = jent.get(sp.Tuple(sp.Integer(m), sp.Integer(n)))
            # the reduction axis spelling (-1 / None) does not matter for a vector
            def ax(t):
                def fn(x):
                    if fname(x) == "sum" and x.args[1] == sp.Integer(-1):
                        return op("sum", x.args[0], NONE_T)
                    return None
                return T.rewrite(norm_est(t), fn)
            ctx.equiv("R06.2", f"mem2_jacobian[{m},{n}]", got, want, f.loc(),
                      "J[m,n] == dF_m/dlambda_n (analytic derivative of the constraint function)", norm=ax, interp=it)
            if n != m:
                ctx.expect(jent.get(sp.Tuple(sp.Integer(n), sp.Integer(m))) == got, "R06.2", f"mem2_jacobian[{n},{m}] mirrored",
                           "the upper triangle mirrors the lower one", f.loc())
    ctx.absorb(it)

    # ---- R06.3 stopping rule
    loops = [L for L in its.loops if L.func == fs.qualname]
    def _cf(L):
        """name of the carried residual vector: its value before the loop is an evaluation of the constraint function"""
        c = [nm for nm, v in L.carried.items() if v[1] is not None and fname(T.to_term(v[0])) == "constraints"]
        return c[0] if len(c) == 1 else None
    outer = [L for L in loops if _cf(L) is not None and fname(L.iter) == "range"]
    outer = [L for L in outer if not any(L is not M and M.loc == L.loc for M in outer)][:1] if outer else []
    if len(outer) != 1:
        ctx.unsure("R06.3", "mem2_newton_solver[stopping rule]", "iteration loop not found", fs.loc())
    else:
        L = outer[0]
        cf_name = _cf(L)
        cf = L.carried[cf_name][1]
        want = CMP("lt", op("norm", cf), sp.Rational(1, 100)) if cf is not None else None
        ctx.expect(want is not None and want in L.break_conds, "R06.3", "mem2_newton_solver[stopping rule]",
                   "the iteration stops as converged only when ||F|| < atol (default 0.01)", L.loc, derived=str([T.show(c, 80) for c in L.break_conds]))
        # convergence = True is assigned only under that test
        flags = {nm for nm, v in L.carried.items() if v[0] is False or T.to_term(v[0]) == T.FALSE_T}
        trues = [n for n in ast.walk(fs.node) if isinstance(n, ast.Assign) and isinstance(n.targets[0], ast.Name) and n.targets[0].id in flags
                 and isinstance(n.value, ast.Constant) and n.value.value is True]
        from .fc import substitute_defs, mentions_through_defs

        def norm_test(t):
            if not (isinstance(t, ast.Compare) and len(t.ops) == 1 and isinstance(t.ops[0], ast.Lt)):
                return False
            left = substitute_defs(fs.node, t.left, {cf_name})
            return ast.unparse(left) == f"np.linalg.norm({cf_name})" and mentions_through_defs(
                fs.node, t.comparators[0], lambda n: isinstance(n, ast.Constant) and n.value == "atol")
        # ... or the flag *is* the norm test: `flag = ||F|| < atol` (every non-constant assignment to it)
        direct = [n for n in ast.walk(fs.node) if isinstance(n, ast.Assign) and isinstance(n.targets[0], ast.Name) and n.targets[0].id in flags
                  and not isinstance(n.value, ast.Constant)]
        ok = len(trues) == 1
        if ok:
            anc = [n for n in ast.walk(fs.node) if isinstance(n, ast.If) and trues[0] in [x for b in n.body for x in ast.walk(b)]]
            ok = any(norm_test(a.test) for a in anc) and not direct
        elif not trues and direct:
            ok = all(norm_test(n.value) for n in direct)
        ctx.expect(ok, "R06.3", "mem2_newton_solver[convergence flag]", "convergence is set only under the norm test", fs.loc())
    its_c = Interp(p, opaque={M2 + "moment_constraints": "constraints", M2 + "mem2_jacobian": "jacobian",
                              M2 + "mem2_directional_distribution": "dist", M2 + "solve_newton_update": "solve", EST + "mem.numba_mem": "mem"})
    cfg = P("config")
    its_c.nonnull.add(cfg)
    its_c.call_function(fs, [mom, guess, dth, tw, cfg, False], {}, None)
    lc = [L for L in its_c.loops if L.func == fs.qualname and _cf(L) is not None and fname(L.iter) == "range"]
    okcfg = False
    if lc:
        cf = lc[0].carried[_cf(lc[0])][1]
        okcfg = CMP("lt", op("norm", cf), op("item", cfg, Str("atol"))) in lc[0].break_conds
        okcfg = okcfg and lc[0].iter == op("range", sp.Integer(0), op("item", cfg, Str("max_iter")))
    ctx.expect(okcfg, "R06.3", "mem2_newton_solver[config keys]", "atol and max_iter are read from the keys 'atol' and 'max_iter'", fs.loc())
    mod = p.modules["wavespectra.estimators.mem2"]
    try:
        numerics = p.const_global(mod, "NUMERICS")
    except Exception:
        numerics = {}
    # sibling defaults: the settings the solver uses when called without a configuration (config is None) and the module-level
    # defaults the public entry points pass in are two spellings of one table; they must agree key by key
    builtin = {}
    for n_ in own_walk_(fs.node):
        if isinstance(n_, ast.If) and ast.unparse(n_.test).replace(" ", "") in ("configisNone", "config==None"):
            for st_ in n_.body:
                if isinstance(st_, ast.Assign) and len(st_.targets) == 1 and isinstance(st_.targets[0], ast.Name) \
                        and isinstance(st_.value, ast.Constant):
                    builtin[st_.targets[0].id] = st_.value.value
            # the else branch says which key each local is read from
            keymap = {}
            for st_ in n_.orelse:
                if isinstance(st_, ast.Assign) and len(st_.targets) == 1 and isinstance(st_.targets[0], ast.Name):
                    ks = [x.slice.value for x in ast.walk(st_.value) if isinstance(x, ast.Subscript) and isinstance(x.slice, ast.Constant)
                          and isinstance(x.slice.value, str) and ast.unparse(x.value) == "config"]
                    if len(ks) == 1:
                        keymap[st_.targets[0].id] = ks[0]
            disagree = {keymap[k]: (v, numerics.get(keymap[k])) for k, v in builtin.items()
                        if k in keymap and keymap[k] in numerics and numerics.get(keymap[k]) != v}
            ctx.expect(not disagree if (builtin and keymap) else None, "R06.3", "NUMERICS[same as the solver's built-in settings]",
                       "every numerical setting has the same default whether the solver is reached through the public entry points "
                       "(module table) or called without a configuration (built-in values)", fs.loc(n_),
                       derived=str(disagree) if disagree else f"{len(builtin)} settings compared")
    ctx.expect(numerics.get("atol") == 0.01 and numerics.get("max_iter") == 100, "R06.3", "NUMERICS[defaults]",
               "module defaults agree with the in-kernel defaults (atol 0.01, 100 iterations)", "src/ocean_science_utilities/wavespectra/estimators/mem2.py",
               derived=str({k: numerics.get(k) for k in ("atol", "max_iter")}))

    # ---- R06.4 direction increments
    W = lambda x: op("pymod", x + sp.pi, 2 * sp.pi) - sp.pi  # noqa: E731
    ref = (W(th - op("roll", th, sp.Integer(1))) + W(op("roll", th, sp.Integer(-1)) - th)) / 2
    it4 = Interp(p)
    fu = p.get_function(EST + "utils.get_direction_increment")
    r = it4.call_function(fu, [th], {}, None)
    ctx.equiv("R06.4", "get_direction_increment", r, ref, fu.loc(), "midpoint rule on the circle: (wrap(backward) + wrap(forward))/2",
              norm=norm_inc, interp=it4)
    ctx.absorb(it4)

    # ---- R06.5 covariance of the closed forms (polynomial identities)
    a1, b1, a2, b2, phi = sp.symbols("a1 b1 a2 b2 phi", real=True)
    it5 = Interp(p)
    fi = p.get_function(M2 + "initial_value")
    r = T.to_term(it5.call_function(fi, [a1, b1, a2, b2], {}, None))
    ent = {}
    t_ = r
    while fname(t_) == "store":
        ent[t_.args[1].args[-1]] = t_.args[2]
        t_ = t_.args[0]
    if set(ent) != {sp.Integer(j) for j in range(4)}:
        ctx.unsure("R06.5", "initial_value", "four multipliers not found", fi.loc(), derived=T.show(r, 200))
    else:
        l = [ent[sp.Integer(j)] for j in range(4)]
        c, s_ = sp.symbols("c s", real=True)  # cos(phi), sin(phi) with c^2 + s^2 = 1
        c2, s2 = c**2 - s_**2, 2 * c * s_
        rot = {a1: a1 * c - b1 * s_, b1: a1 * s_ + b1 * c, a2: a2 * c2 - b2 * s2, b2: a2 * s2 + b2 * c2}
        lr = [sp.expand(x.subs(rot, simultaneous=True)) for x in l]

        def vanishes(poly):
            poly = sp.expand(poly)
            if poly == 0:
                return True
            _, rem = sp.reduced(poly, [c**2 + s_**2 - 1], c, s_, a1, b1, a2, b2)
            return sp.expand(rem) == 0

        e1 = vanishes(lr[0] - (c * l[0] - s_ * l[1])) and vanishes(lr[1] - (s_ * l[0] + c * l[1]))
        e2 = vanishes(lr[2] - (c2 * l[2] - s2 * l[3])) and vanishes(lr[3] - (s2 * l[2] + c2 * l[3]))
        ctx.expect(e1, "R06.5", "initial_value[first harmonic rotates]",
                   "(lambda1 + i*lambda2) of the rotated moments == e^{i phi} * (lambda1 + i*lambda2) (polynomial identity mod c^2+s^2=1)", fi.loc())
        ctx.expect(e2, "R06.5", "initial_value[second harmonic rotates]",
                   "(lambda3 + i*lambda4) of the rotated moments == e^{2 i phi} * (lambda3 + i*lambda4)", fi.loc())
        mir = {b1: -b1, b2: -b2}
        lm = [x.subs(mir, simultaneous=True) for x in l]
        okm = sp.expand(lm[0] - l[0]) == 0 and sp.expand(lm[2] - l[2]) == 0 and sp.expand(lm[1] + l[1]) == 0 and sp.expand(lm[3] + l[3]) == 0
        ctx.expect(okm, "R06.5", "initial_value[mirror]", "mirroring (b1,b2 -> -b1,-b2) keeps lambda1, lambda3 and negates lambda2, lambda4", fi.loc())
    ctx.absorb(it5)
    # ---- R06.6 MEM closed form (Lygre & Krogstad 1986, eq. 13) and agreement of its two implementations
    from ..interp import Env as _Env
    A1, B1, A2, B2 = sp.symbols("a1 b1 a2 b2", real=True)
    thm = sp.Symbol("theta", real=True)
    c1, c2 = A1 + sp.I * B1, A2 + sp.I * B2
    phi1_ref = (c1 - c2 * sp.conjugate(c1)) / (1 - c1 * sp.conjugate(c1))
    phi2_ref = c2 - c1 * phi1_ref
    num_ref = 1 - phi1_ref * sp.conjugate(c1) - phi2_ref * sp.conjugate(c2)
    den_ref = sp.Abs(1 - phi1_ref * sp.exp(-sp.I * thm) - phi2_ref * sp.exp(-2 * sp.I * thm))**2
    d_ref = sp.re(num_ref / den_ref) / (2 * sp.pi)
    mem_terms = {}
    from .fc import inline_value_calls as _inline
    for q in (EST + "mem._mem", EST + "mem.numba_mem"):
        fm = _inline(p, p.get_function(q))        # private helpers (shared harmonics, ...) are seen through
        itm = Interp(p)
        env = _Env(itm, fm, fm.module)
        env.vars.update({"a1": A1, "b1": B1, "a2": A2, "b2": B2, "directions_radians": thm})
        la_ = {}
        d_unnorm = None
        for st in fm.node.body:
            if isinstance(st, ast.Assign) and len(st.targets) == 1 and isinstance(st.targets[0], (ast.Tuple, ast.List)):
                itm.assign_target(st.targets[0], itm.eval(st.value, env), env, st)      # e1, e2 = (..)
                continue
            if isinstance(st, ast.Assign) and len(st.targets) == 1 and isinstance(st.targets[0], ast.Name):
                nm = st.targets[0].id
                sums = [c.args[0] for c in ast.walk(st.value) if isinstance(c, ast.Call) and ast.unparse(c.func) in ("np.sum", "numpy.sum") and c.args]
                sums += [c.func.value for c in ast.walk(st.value) if isinstance(c, ast.Call) and isinstance(c.func, ast.Attribute)
                         and c.func.attr == "sum" and not (isinstance(c.func.value, ast.Name) and c.func.value.id in ("np", "numpy"))]
                if sums:
                    # the normaliser: its summand is the un-normalised distribution, whatever the locals are called
                    d_unnorm = T.to_term(itm.eval(sums[0], env))
                    break
                env.vars[nm] = itm.eval(st.value, env)
                la_[nm] = T.to_term(env.vars[nm])

        def drop_bcast(t):
            def fn(n):
                if fname(n) == "item" and isinstance(n.args[1], sp.Tuple) and NONE_T in n.args[1].args:
                    return n.args[0]
                if fname(n) in ("outer", "ext_numpy_outer") and len(n.args) == 2:
                    return n.args[0] * n.args[1]        # element (f, d) of np.outer(x, y) is x[f] * y[d]
                return None
            return T.rewrite(t, fn)

        if d_unnorm is None:
            ctx.unsure("R06.6", f"{fm.name}[closed form]", "normalisation by a discrete sum not found", fm.loc())
            continue
        got_d = drop_bcast(d_unnorm)
        mem_terms[fm.name] = got_d
        ok = same_function(got_d, d_ref, (A1, B1, A2, B2, thm))
        detail = ""
        if ok is False:
            # diagnosis only: which intermediate (if the usual names are present) departs from the closed form
            for k, ref in (("Phi1", phi1_ref), ("Phi2", phi2_ref), ("numerator", num_ref), ("denominator", den_ref)):
                if k in la_ and same_function(drop_bcast(la_[k]), ref, (A1, B1, A2, B2, thm)) is False:
                    detail = f"; first departure: {k} = {T.show(drop_bcast(la_[k]), 120)}"
                    break
        ctx.expect(ok, "R06.6", f"{fm.name}[closed form]",
                   "the un-normalised distribution is Re[(1 - phi1 c1* - phi2 c2*) / |1 - phi1 e^{-it} - phi2 e^{-2it}|^2] / (2 pi) with "
                   "phi1 = (c1 - c2 c1*)/(1 - |c1|^2), phi2 = c2 - c1 phi1 (Lygre-Krogstad eq. 13)" + detail, fm.loc(),
                   derived=T.show(got_d, 200), required=T.show(d_ref, 200))
        ctx.absorb(itm)
    if len(mem_terms) == 2:
        a_, b_ = list(mem_terms.values())
        ctx.expect(same_function(a_, b_, (A1, B1, A2, B2, thm)), "R06.6", "mem[_mem == numba_mem]",
                   "the vectorised and the jitted MEM implementations compute the same distribution", "src/ocean_science_utilities/wavespectra/estimators/mem.py")
    ctx.absorb(its)
    # ------------------------------------------------------------------ R06.7 module-level solver defaults stay defaults
    from ..sharedstate import shared_default_rule
    shared_default_rule(ctx, "R06.7", ("wavespectra.estimators",))
    ctx.require_count("R06.7", 1)
    # ------------------------------------------------------------------ R06.8 every frequency is solved from its own moments
    # "the variants agree" and "rotating the input rotates the output" are statements per frequency bin: nothing may be handed from
    # one bin (or one point) to the next - a warm start makes the result of a bin depend on its neighbour (loop rule shared with C05)
    from .c05 import batch_loops_rule
    batch_loops_rule(ctx, "R06.8", p, [("wavespectra.estimators.mem.mem", "point"),
                                       ("wavespectra.estimators.mem2.mem2_scipy_root_finder", "point"),
                                       ("wavespectra.estimators.mem2.mem2_newton", "point"),
                                       ("wavespectra.estimators.mem2._mem2_newton_point", "single")])
    ctx.require_count("R06.8", 4)
    ctx.require_count("R06.6", 3)
    ctx.require_count("R06.1", 8)
    ctx.require_count("R06.2", 20)
    ctx.require_count("R06.3", 5)
    ctx.require_count("R06.4", 3)
    ctx.require_count("R06.5", 3)
