"""C15 -- spectrum objects: no aliasing or mutation of operands; copies, flatten order, load dispatch, concatenation."""
from __future__ import annotations

import ast

import sympy as sp

from .. import terms as T
from ..terms import P, op, Str, fname
from ..interp import Interp, Obj, DatasetVal
from ..effects import Effects, Write
from ..mini import must_fire
from .common import CLS_1D, CLS_2D, CLS_WS, SPEC, spec_interp, spectrum_self
from .fc import own_walk, calls, call_name

ALLOWED_MUTATORS = {
    "fillna": "documented in-place fill of the spectral variables",
    "__setitem__": "explicit item assignment on the wrapper",
    "__init__": "constructor",
}
EXPLANATION = (
    "Effect and alias analysis (engine E4) of every method of DatasetWrapper / WaveSpectrum / FrequencySpectrum / "
    "FrequencyDirectionSpectrum (per concrete receiver class) and of the module-level spectrum operations: a local name "
    "may alias an operand itself, an xarray object stored in it, or a numpy view of its data (`.values`, indexing, "
    "reshape); item assignment, attribute rebinding, calls of mutating methods (closed transitively) and handing a view "
    "to a kernel that writes its argument are writes to that operand. Every public operation must have an empty "
    "may-write set on self and on its other operands, except the documented in-place mutators (fillna, __setitem__) and "
    "writes reachable only through an alias created under an opt-in flag whose default is False (multiply(inplace=True)). "
    "Further structural clauses: copy(deep=True)/__deepcopy__ reach Dataset.copy(deep=True) and arithmetic operates on "
    "such a copy; flatten unravels and reshapes with one order (C) and one length; load_spectrum_from_netcdf dispatches "
    "on the presence of the direction coordinate to exactly the two classes; concatenate_spectra concatenates every "
    "variable along the same dim in input order and returns the input class. Not decided: bit-for-bit equality of round "
    "trips and 'element i is the i-th input' (xarray semantics)."
)


def opt_in(w: Write, m) -> bool:
    """the write happens only through an alias created under `if <flag>` where <flag> is a parameter defaulting to False"""
    flags = [g for g in w.alias_guards if g.isidentifier()]
    if not flags:
        return False
    names = [a.arg for a in m.node.args.args]
    defaults = m.node.args.defaults
    dmap = dict(zip(names[len(names) - len(defaults):], defaults))
    return all(isinstance(dmap.get(fl), ast.Constant) and dmap[fl].value is False for fl in flags)


def operand_rule(ctx, rule, p, targets):
    """targets: list of (Function, receiver class or None)"""
    ef = Effects(p)
    n = 0
    for f, cls in targets:
        s = ef.summary(f, cls)
        cname = (cls.name + "." if cls is not None else "") + f.name
        bad = []
        tolerated = []
        for w in s.writes:
            if f.name in ALLOWED_MUTATORS and w.root == "self" and w.kind in ("item-store", "rebind", "mutator-call") \
                    or (f.name == "__setitem__" and w.root == "self"):
                tolerated.append(w)
                continue
            if opt_in(w, f) and w.kind != "buffer-store":
                # an opt-in mutator may rebind the variables of its own object; an in-place update of the stored arrays also changes
                # every spectrum that shares the buffer (the objects it was sliced from), which never opted in
                tolerated.append(w)
                continue
            bad.append(w)
        n += 1
        if bad:
            seen = set()
            for w in bad:
                key = (w.root, w.kind, w.text)
                if key in seen:
                    continue
                seen.add(key)
                extra = ""
                if w.kind == "buffer-store" and f.name in ALLOWED_MUTATORS:
                    extra = " - a documented mutator must rebind the variable; writing into the numpy buffer also changes every spectrum that shares it (views from isel/flatten/shallow copies)"
                ctx.bad(rule, f"{cname}[{w.root}]", f"the operation may modify its operand `{w.root}`: {w.kind} {w.text}" + extra
                        + (f" (via {w.via})" if w.via else ""), f.loc(w.node), derived=w.text,
                        required="operands are left unchanged; results are new objects")
        else:
            why = "may-write set on operands is empty"
            if tolerated and f.name in ALLOWED_MUTATORS:
                why = ALLOWED_MUTATORS[f.name]
            elif tolerated:
                why = "writes to self only through an alias created under an opt-in flag that defaults to False"
            ctx.ok(rule, cname, why, f.loc())
    return n


POSITIVE = {"m.py": "import numpy as np\n\nclass S:\n    def __init__(self, dataset):\n        self.dataset = dataset\n"
                    "    def scale(self, c):\n        out = self\n        out.dataset['e'] = out.dataset['e'] * c\n        return out\n"
                    "    def zero_tail(self):\n        v = self.dataset['e'].values\n        v[-1] = 0.0\n        return S(self.dataset)\n"}


def run(ctx):
    ctx.explanation = EXPLANATION
    p = ctx.program
    ctx.trust("xarray: DataArray.values / indexing / reshape may expose the operand's buffer; fillna/where/copy/arithmetic return new data",
              "Dataset.copy(deep=True) copies the data")
    # ---- R15.1 operand immutability
    targets = []
    for cq in (CLS_1D, CLS_2D):
        c = p.get_class(cq)
        seen = set()
        for k in c.mro():
            for name, m in k.methods.items():
                if name in seen:
                    continue
                seen.add(name)
                targets.append((m, c))
    base = p.get_class(SPEC + "DatasetWrapper")
    for name, m in base.methods.items():
        targets.append((m, base))
    for q in ("wavespectra.operations.concatenate_spectra", "wavespectra.operations.integrate_spectral_data",
              SPEC + "fill_zeros_or_nan_in_tail", SPEC + "cumulative_frequency_interpolation_1d_variable",
              SPEC + "create_1d_spectrum", SPEC + "create_2d_spectrum", SPEC + "create_spectrum_dataset",
              SPEC + "load_spectrum_from_netcdf", "wavespectra.timeseries.create_fourier_amplitudes",
              "wavespectra.timeseries.surface_timeseries"):
        targets.append((p.get_function(q), None))
    operand_rule(ctx, "R15.1", p, targets)
    ctx.functions_analysed.update({m.qualname: 1 for m, _ in targets})
    must_fire(ctx, "R15.1", POSITIVE,
              lambda sub, mp: operand_rule(sub, "R15.1", mp, [(f, f.cls) for f in mp.all_functions if f.cls is not None]),
              "write through an alias / a .values view of self")

    # ---- R15.2 copies
    dw = p.get_class(SPEC + "DatasetWrapper")
    dc = dw.find_method("__deepcopy__")
    cp = dw.find_method("copy")
    sc = dw.find_method("__copy__")
    okd = dc is not None and any(isinstance(c, ast.Call) and ast.unparse(c.func) == "self.dataset.copy" and any(
        k.arg == "deep" and isinstance(k.value, ast.Constant) and k.value.value is True for k in c.keywords) for c in calls(dc.node))
    rets = [n for n in own_walk(dc.node) if isinstance(n, ast.Return)] if dc else []
    from .fc import substitute_defs
    SAME_CLASS = ("self.__class__", "type(self)")

    def ctor_of(fn_node, r):
        """constructor expression of `return <ctor>(...)` with local aliases (cls = type(self)) resolved"""
        v = substitute_defs(fn_node, r.value, {"self"}) if r.value is not None else None
        return ast.unparse(v.func) if isinstance(v, ast.Call) else None
    okd = okd and all(ctor_of(dc.node, r) in SAME_CLASS for r in rets)
    ctx.expect(okd, "R15.2", "DatasetWrapper.__deepcopy__", "a deep copy is a new object of the same class over Dataset.copy(deep=True)",
               dc.loc() if dc else "")
    okc = False
    if cp is not None:
        defaults = dict(zip([a.arg for a in cp.node.args.args][-len(cp.node.args.defaults):], cp.node.args.defaults))
        d = defaults.get("deep")
        ifs = [n for n in own_walk(cp.node) if isinstance(n, ast.If) and ast.unparse(n.test) == "deep"]
        okc = isinstance(d, ast.Constant) and d.value is True and len(ifs) == 1 \
            and "self.__deepcopy__" in ast.unparse(ast.Module(body=ifs[0].body, type_ignores=[])) \
            and "self.__copy__" in ast.unparse(ast.Module(body=ifs[0].orelse, type_ignores=[]))
    ctx.expect(okc, "R15.2", "DatasetWrapper.copy", "copy() is deep by default and dispatches to __deepcopy__ / __copy__", cp.loc() if cp else "")
    for name in ("__add__", "__sub__", "__neg__"):
        m = p.get_method(CLS_WS, name)
        la = [n for n in own_walk(m.node) if isinstance(n, ast.Assign) and isinstance(n.targets[0], ast.Name)]
        made = [n for n in la if "self.copy(deep=True)" in ast.unparse(n.value)]
        rets = [n for n in own_walk(m.node) if isinstance(n, ast.Return)]
        ok = len(made) == 1 and all(isinstance(r.value, ast.Name) and r.value.id == made[0].targets[0].id for r in rets)
        stores = [n for n in own_walk(m.node) if isinstance(n, ast.Assign) and isinstance(n.targets[0], ast.Subscript)]
        ok = ok and all(ast.unparse(s_.targets[0]).startswith(made[0].targets[0].id + ".dataset[") for s_ in stores) if made else False
        ctx.expect(ok, "R15.2", f"WaveSpectrum.{name}", "the result is built on a deep copy of self and only the copy is assigned to", m.loc())

    # ---- R15.3 flatten / load / concatenate
    fl = p.get_method(CLS_WS, "flatten")
    orders = set()
    shapes = []
    for c in calls(fl.node):
        nm = ast.unparse(c.func)
        if nm.endswith(".reshape") or nm in ("np.reshape", "np.unravel_index", "np.ravel_multi_index"):
            o = next((k.value for k in c.keywords if k.arg == "order"), None)
            orders.add(ast.unparse(o) if o is not None else "'C'")
            if nm.endswith(".reshape"):
                shapes.append(ast.unparse(c.args[0]) if c.args else "")
    n_calls = len([c for c in calls(fl.node) if ast.unparse(c.func).endswith(".reshape")])
    unr = [c for c in calls(fl.node) if ast.unparse(c.func) == "np.unravel_index"]
    ok_order_syntax = len(orders) == 1 and n_calls >= 2 and len(unr) == 1
    # one length: decided on the extracted terms, so the way the locals are computed does not matter
    WSQ = CLS_WS
    itf = spec_interp(p, {WSQ + ".space_time_shape": "stshape", WSQ + ".spectral_shape": "spshape"})
    rf = itf.call_function(fl, [spectrum_self(p, CLS_1D)], {}, None)
    vals = []
    if isinstance(rf, Obj) and isinstance(rf.fields.get("dataset"), DatasetVal):
        vals = [T.to_term(v) for v in rf.fields["dataset"].items.values()]
    resh = [x for v in vals for x in T.find_ops(v, "reshape")]
    unrs = [x for v in vals for x in T.find_ops(v, "unravel_index")]
    # one order, decided on what reaches the result (wherever the index table is built): every reshape and every unravelling
    # that feeds the flattened dataset carries the same order argument
    t_orders = {x.args[2] for x in resh if len(x.args) > 2} | {u.args[2] for u in unrs if len(u.args) > 2}
    ok_order = ok_order_syntax or (len(t_orders) == 1 and len(resh) >= 2 and bool(unrs) and not (orders - {T.show(o) for o in t_orders} - {"'C'"}))
    # the coordinates may also be expanded over the leading grid with np.meshgrid(..., indexing="ij") and reshaped: row-major like the
    # data (the default "xy" indexing walks the first two axes column-major and is a violation)
    mesh = [x for v in vals for x in T.find_ops(v, "meshgrid")]
    mesh_ij = [m for m in mesh if any(isinstance(a, sp.Tuple) and len(a.args) == 2 and a.args[0] == Str("indexing") and a.args[1] == Str("ij")
                                      for a in m.args)]
    if mesh and not unrs:
        ok_order = len(mesh_ij) == len(mesh) and t_orders == {Str("C")} and len(resh) >= 3
    ctx.expect(ok_order, "R15.3", "WaveSpectrum.flatten[one order]",
               "coordinates are unravelled and data reshaped with the same (C) memory order", fl.loc(),
               derived=str(sorted(orders | {T.show(o) for o in t_orders})))
    firsts = {x.args[1].args[0] for x in resh if isinstance(x.args[1], sp.Tuple) and x.args[1].args}
    oks = len(resh) >= 2 and len(firsts) == 1 and len({u.args[1] for u in unrs}) == 1 and bool(unrs)
    detail = ""
    Lt_many = None
    if oks:
        Lt = next(iter(firsts))
        St = unrs[0].args[1]
        S0 = [x for x in T.find_ops(Lt, "stshape")]
        single = [c for c in T.subterms(Lt) if fname(c) == "eq" and T.find_ops(c, "stshape")]
        if S0 and len(single) == 1:
            many = {single[0]: False}
            one = {single[0]: True}
            # a single spectrum has no space-time dimension to unravel: there the unravel shape is (1,) or not used at all
            oks = T.equivalent(T.assume(Lt, many), op("prod", S0[0], T.NONE_T)) == T.Verdict.EQUAL and T.assume(Lt, one) == 1 \
                and T.assume(St, many) == S0[0] and T.assume(St, one) in (sp.Tuple(sp.Integer(1)), S0[0])
            if oks:
                Lt_many = T.assume(Lt, many)
        else:
            oks = S0 and T.equivalent(Lt, op("prod", S0[0], T.NONE_T)) == T.Verdict.EQUAL and St == S0[0]
        idxs = {T.show(u.args[0], 80) for u in unrs}
        oks = bool(oks) and all(fname(u.args[0]) == "arange" and u.args[0].args[-1] in (Lt, Lt_many) and (
            len(u.args[0].args) == 1 or u.args[0].args[0] == 0) for u in unrs)
        detail = f"length {T.show(Lt, 120)}; unravel over {T.show(St, 120)}; indices {sorted(idxs)}"
    if mesh and not unrs and len(firsts) == 1:
        # meshgrid form: coordinate grids and data are all reshaped to the one flattened length
        Lt = next(iter(firsts))
        S0 = [x for x in T.find_ops(Lt, "stshape")]
        single = [c for c in T.subterms(Lt) if fname(c) == "eq" and T.find_ops(c, "stshape")]
        many = {single[0]: False} if len(single) == 1 else {}
        one = {single[0]: True} if len(single) == 1 else None
        oks = bool(S0) and T.equivalent(T.assume(Lt, many), op("prod", S0[0], T.NONE_T)) == T.Verdict.EQUAL \
            and (one is None or T.assume(Lt, one) == 1) and len(mesh_ij) == len(mesh)
        detail = f"length {T.show(Lt, 120)}; coordinates expanded with meshgrid(indexing='ij') and reshaped to that length"
    ctx.expect(bool(oks), "R15.3", "WaveSpectrum.flatten[one length]",
               "the flattened length is the product of the space-time shape (1 for a single spectrum) for coordinates, spectral and "
               "non-spectral variables alike, and the coordinates are unravelled over that same shape", fl.loc(), derived=detail)
    ctx.absorb(itf)
    # load dispatch
    it = spec_interp(p)
    ld = p.get_function(SPEC + "load_spectrum_from_netcdf")
    tests = [n for n in own_walk(ld.node) if isinstance(n, ast.If)]
    import re as _re
    t0 = ast.unparse(substitute_defs(ld.node, tests[0].test, set())) if len(tests) == 1 else ""
    okl = len(tests) == 1 and bool(_re.fullmatch(r"(NAME_D|'direction') in xarray\.open_dataset\(.*\)\.coords", t0))
    if okl:
        tst = tests[0]
        rets_ = [n for n in own_walk(ld.node) if isinstance(n, ast.Return) and isinstance(n.value, ast.Call)]
        in_body = lambda r: any(r is x for b_ in tst.body for x in ast.walk(b_))  # noqa: E731
        two_d = [r for r in rets_ if ast.unparse(r.value.func) == "FrequencyDirectionSpectrum"]
        one_d = [r for r in rets_ if ast.unparse(r.value.func) == "FrequencySpectrum"]
        body_returns = bool(tst.body) and isinstance(tst.body[-1], ast.Return)
        # with a direction coordinate: only the 2-D constructor; without: only the 1-D one (else branch or fall-through)
        okl = bool(two_d) and bool(one_d) and all(in_body(r) for r in two_d) and not any(in_body(r) for r in one_d) \
            and body_returns and len(two_d) + len(one_d) == len(rets_)
    ctx.expect(okl, "R15.3", "load_spectrum_from_netcdf[dispatch]",
               "a file with a direction coordinate loads as a 2-D spectrum, anything else as a 1-D spectrum", ld.loc())
    sv = p.get_method(CLS_WS, "save_as_netcdf")
    ctx.expect(any(ast.unparse(c.func) == "self.dataset.to_netcdf" for c in calls(sv.node)), "R15.3", "WaveSpectrum.save_as_netcdf",
               "the whole dataset (all variables and coordinates) is written", sv.loc())
    # concatenate: decided on the extracted result for two symbolic inputs (list comprehension or loop, the same term)
    cc = p.get_function("wavespectra.operations.concatenate_spectra")
    from ..interp import make_self
    for cls_q in (CLS_1D, CLS_2D):
        itc = spec_interp(p)
        dimv = P("dim")
        itc.nonnull.add(dimv)
        A = make_self(p, cls_q, fields={"dataset": P("dsA")})
        B = make_self(p, cls_q, fields={"dataset": P("dsB")})
        rc = itc.call_function(cc, [[A, B], dimv], {}, None)
        cname = cls_q.rsplit(".", 1)[-1]
        okr = isinstance(rc, Obj) and rc.cls is A.cls
        ctx.expect(okr, "R15.3", f"concatenate_spectra[result class,{cname}]", "the result has the class of the inputs", cc.loc())
        if cls_q != CLS_1D:
            ctx.absorb(itc)
            continue
        dsr = rc.fields.get("dataset") if isinstance(rc, Obj) else None
        fam = [(T.to_term(k), T.to_term(v)) for k, v in dsr.items.items() if not isinstance(k, str)] if isinstance(dsr, DatasetVal) else []
        fam = [(k, v) for k, v in fam if fname(k) == "elem"]
        okc = okall = False
        if len(fam) == 1:
            k, v = fam[0]
            inner = v.args[1] if fname(v) == "guarded" else v
            guard = v.args[0] if fname(v) == "guarded" else T.TRUE_T
            want = op("concat", sp.Tuple(op("item", P("dsA"), k), op("item", P("dsB"), k)), dimv)
            # the dimension variable itself is left out either by a guard at the store or by filtering the names beforehand
            prefiltered = fname(k) == "elem" and fname(k.args[0]) == "comp_list" and len(k.args[0].args) == 3 and k.args[0].args[2] in (
                T.CMP("ne", dimv, k.args[0].args[0]), T.CMP("ne", k.args[0].args[0], dimv))
            okc = T.equivalent(inner, want) == T.Verdict.EQUAL and (guard in (T.CMP("ne", k, dimv), T.NOT(T.CMP("eq", k, dimv)))
                                                                     or (guard == T.TRUE_T and prefiltered))
            okall = len(k.args) >= 1 and k.args[0] in (T.to_term(A), T.to_term(A.fields["dataset"]) if hasattr(A, "fields") else None)
        # a definite "wrong" needs the concatenation to be understood: a concat of per-variable entries of the inputs.  Pieces
        # gathered through containers the engine does not follow (lists in a dict keyed by a symbolic name) are not a verdict.
        understood = False
        if len(fam) == 1:
            inner_ = fam[0][1].args[1] if fname(fam[0][1]) == "guarded" else fam[0][1]
            understood = fname(inner_) == "concat" and isinstance(inner_.args[0], sp.Tuple) and len(inner_.args[0].args) >= 1 and all(
                fname(x) == "item" and x.args[0] in (P("dsA"), P("dsB")) for x in inner_.args[0].args)
            kk = fam[0][0]
            if not okall and fname(kk) == "elem" and fname(kk.args[0]) == "comp_list" and len(kk.args[0].args) == 3 \
                    and kk.args[0].args[0] == op("elem", kk.args[0].args[1]) and kk.args[0].args[1] == T.to_term(A):
                # the names are first gathered as [name for name in first if name != dim]
                okall = kk.args[0].args[2] in (T.CMP("ne", dimv, op("elem", T.to_term(A))), T.CMP("ne", op("elem", T.to_term(A)), dimv))
        ctx.expect(okc if (okc or understood or not fam) else None, "R15.3", "concatenate_spectra[order and dim]",
                   "every variable is concatenated over the inputs in their given order along the one requested dimension", cc.loc(),
                   derived=T.show(fam[0][1], 200) if fam else "no per-variable entry")
        ctx.expect(okall if (okall or understood or not fam) else None, "R15.3", "concatenate_spectra[all variables]",
                   "all variables of the (first) input are concatenated", cc.loc(),
                   derived=T.show(fam[0][0], 120) if fam else "")
        ctx.absorb(itc)
    # __getitem__ splits spectral / space-time indices; isel/sel apply to every variable
    for name in ("isel", "sel"):
        m = dw.find_method(name)
        loops = [n for n in own_walk(m.node) if isinstance(n, ast.For) and ast.unparse(n.iter) == "self.dataset"]
        rets = [n for n in own_walk(m.node) if isinstance(n, ast.Return)]
        ok = len(loops) == 1 and all(ctor_of(m.node, r) in SAME_CLASS for r in rets) and f".{name}(" in ast.unparse(loops[0])
        ctx.expect(ok, "R15.3", f"DatasetWrapper.{name}", "selection is applied to every variable and returns a new object of the same class", m.loc())
    # ---- R15.4 no unsynchronised derived state on the objects this property queries (shared rule, see statecache.py)
    from ..statecache import instance_memo_rule as _memo, positive_example as _memo_pos
    _memo(ctx, "R15.4", [p.get_class("wavespectra.spectrum.FrequencySpectrum"), p.get_class("wavespectra.spectrum.FrequencyDirectionSpectrum")], "spectrum classes")
    _memo_pos(ctx, "R15.4")
    ctx.require_count("R15.4", 2)
    # ---- R15.5 the dataset interpolators hand back a new dataset on every path.  WaveSpectrum.interpolate / interpolate_frequency
    # wrap what they return and fill missing values *in place* on the wrapper: a path that returns the operand's own dataset (a
    # "nothing to do" shortcut) makes that in-place step, and every later in-place operation on the result, change the operand
    dsm = p.modules.get("interpolate.dataset")
    n55 = 0
    for f in ([f for f in p.all_functions if f.module is dsm and f.cls is None and f.parent is None] if dsm is not None else []):
        rebound = {t.id for n in own_walk(f.node) if isinstance(n, (ast.Assign, ast.AugAssign, ast.AnnAssign))
                   for t in (n.targets if isinstance(n, ast.Assign) else [n.target]) if isinstance(t, ast.Name)}
        rets = [n for n in own_walk(f.node) if isinstance(n, ast.Return) and n.value is not None]
        if not rets or not f.params:
            continue
        n55 += 1
        handed_back = [r for r in rets if isinstance(r.value, ast.Name) and r.value.id in f.params and r.value.id not in rebound]
        ctx.expect(not handed_back, "R15.5", f"{f.name}[new dataset on every path]",
                   "no path returns the dataset it was given: the spectrum methods fill missing values in place on what comes back",
                   f.loc(handed_back[0]) if handed_back else f.loc(),
                   derived="; ".join(f"line {r.lineno}: {ast.unparse(r)}" for r in handed_back) or f"{len(rets)} return(s), none of a parameter")
    ctx.require_count("R15.5", 3)
    ctx.require_count("R15.1", 150)
    ctx.require_count("R15.2", 5)
    ctx.require_count("R15.3", 9)
