"""C15 -- spectrum objects: no aliasing or mutation of operands; copies, flatten order, load dispatch, concatenation."""
from __future__ import annotations

import ast

import sympy as sp

from .. import terms as T
from ..terms import P, op, Str, fname
from ..interp import Interp, Obj, DatasetVal
from ..effects import Effects, Write
from ..mini import must_fire
from .common import CLS_1D, CLS_2D, CLS_WS, SPEC, spec_interp, spectrum_self
from .fc import own_walk, calls, call_name

ALLOWED_MUTATORS = {
    "fillna": "documented in-place fill of the spectral variables",
    "__setitem__": "explicit item assignment on the wrapper",
    "__init__": "constructor",
}
EXPLANATION = (
    "Effect and alias analysis (engine E4) of every method of DatasetWrapper / WaveSpectrum / FrequencySpectrum / "
    "FrequencyDirectionSpectrum (per concrete receiver class) and of the module-level spectrum operations: a local name "
    "may alias an operand itself, an xarray object stored in it, or a numpy view of its data (`.values`, indexing, "
    "reshape); item assignment, attribute rebinding, calls of mutating methods (closed transitively) and handing a view "
    "to a kernel that writes its argument are writes to that operand. Every public operation must have an empty "
    "may-write set on self and on its other operands, except the documented in-place mutators (fillna, __setitem__) and "
    "writes reachable only through an alias created under an opt-in flag whose default is False (multiply(inplace=True)). "
    "Further structural clauses: copy(deep=True)/__deepcopy__ reach Dataset.copy(deep=True) and arithmetic operates on "
    "such a copy; flatten unravels and reshapes with one order (C) and one length; load_spectrum_from_netcdf dispatches "
    "on the presence of the direction coordinate to exactly the two classes; concatenate_spectra concatenates every "
    "variable along the same dim in input order and returns the input class. Not decided: bit-for-bit equality of round "
    "trips and 'element i is the i-th input' (xarray semantics)."
)


def opt_in(w: Write, m) -> bool:
    """the write happens only through an alias created under `if <flag>` where <flag> is a parameter defaulting to False"""
    flags = [g for g in w.alias_guards if g.isidentifier()]
    if not flags:
        return False
    names = [a.arg for a in m.node.args.args]
    defaults = m.node.args.defaults
    dmap = dict(zip(names[len(names) - len(defaults):], defaults))
    return all(isinstance(dmap.get(fl), ast.Constant) and dmap[fl].value is False for fl in flags)


def operand_rule(ctx, rule, p, targets):
    """targets: list of (Function, receiver class or None)"""
    ef = Effects(p)
    n = 0
    for f, cls in targets:
        s = ef.summary(f, cls)
        cname = (cls.name + "." if cls is not None else "") + f.name
        bad = []
        tolerated = []
        for w in s.writes:
            if f.name in ALLOWED_MUTATORS and w.root == "self" and w.kind in ("item-store", "rebind", "mutator-call") \
                    or (f.name == "__setitem__" and w.root == "self"):
                tolerated.append(w)
                continue
            if opt_in(w, f):
                tolerated.append(w)
                continue
            bad.append(w)
        n += 1
        if bad:
            seen = set()
            for w in bad:
                key = (w.root, w.kind, w.text)
                if key in seen:
                    continue
                seen.add(key)
                extra = ""
                if w.kind == "buffer-store" and f.name in ALLOWED_MUTATORS:
                    extra = " - a documented mutator must rebind the variable; writing into the numpy buffer also changes every spectrum that shares it (views from isel/flatten/shallow copies)"
                ctx.bad(rule, f"{cname}[{w.root}]", f"the operation may modify its operand `{w.root}`: {w.kind} {w.text}" + extra
                        + (f" (via {w.via})" if w.via else ""), f.loc(w.node), derived=w.text,
                        required="operands are left unchanged; results are new objects")
        else:
            why = "may-write set on operands is empty"
            if tolerated and f.name in ALLOWED_MUTATORS:
                why = ALLOWED_MUTATORS[f.name]
            elif tolerated:
                why = "writes to self only through an alias created under an opt-in flag that defaults to False"
            ctx.ok(rule, cname, why, f.loc())
    return n


POSITIVE = {"m.py": "import numpy as np\n\nclass S:\n    def __init__(self, dataset):\n        self.dataset = dataset\n"
                    "    def scale(self, c):\n        out = self\n        out.dataset['e'] = out.dataset['e'] * c\n        return out\n"
                    "    def zero_tail(self):\n        v = self.dataset['e'].values\n        v[-1] = 0.0\n        return S(self.dataset)\n"}


def run(ctx):
    ctx.explanation = EXPLANATION
    p = ctx.program
    ctx.trust("xarray: DataArray.values / indexing / reshape may expose the operand's buffer; fillna/where/copy/arithmetic return new data",
              "Dataset.copy(deep=True) copies the data")
    # ---- R15.1 operand immutability
    targets = []
    for cq in (CLS_1D, CLS_2D):
        c = p.get_class(cq)
        seen = set()
        for k in c.mro():
            for name, m in k.methods.items():
                if name in seen:
                    continue
                seen.add(name)
                targets.append((m, c))
    base = p.get_class(SPEC + "DatasetWrapper")
    for name, m in base.methods.items():
        targets.append((m, base))
    for q in ("wavespectra.operations.concatenate_spectra", "wavespectra.operations.integrate_spectral_data",
              SPEC + "fill_zeros_or_nan_in_tail", SPEC + "cumulative_frequency_interpolation_1d_variable",
              SPEC + "create_1d_spectrum", SPEC + "create_2d_spectrum", SPEC + "create_spectrum_dataset",
              SPEC + "load_spectrum_from_netcdf", "wavespectra.timeseries.create_fourier_amplitudes",
              "wavespectra.timeseries.surface_timeseries"):
        targets.append((p.get_function(q), None))
    operand_rule(ctx, "R15.1", p, targets)
    ctx.functions_analysed.update({m.qualname: 1 for m, _ in targets})
    must_fire(ctx, "R15.1", POSITIVE,
              lambda sub, mp: operand_rule(sub, "R15.1", mp, [(f, f.cls) for f in mp.all_functions if f.cls is not None]),
              "write through an alias / a .values view of self")

    # ---- R15.2 copies
    dw = p.get_class(SPEC + "DatasetWrapper")
    dc = dw.find_method("__deepcopy__")
    cp = dw.find_method("copy")
    sc = dw.find_method("__copy__")
    okd = dc is not None and any(isinstance(c, ast.Call) and ast.unparse(c.func) == "self.dataset.copy" and any(
        k.arg == "deep" and isinstance(k.value, ast.Constant) and k.value.value is True for k in c.keywords) for c in calls(dc.node))
    rets = [n for n in own_walk(dc.node) if isinstance(n, ast.Return)] if dc else []
    from .fc import substitute_defs
    SAME_CLASS = ("self.__class__", "type(self)")

    def ctor_of(fn_node, r):
        """constructor expression of `return <ctor>(...)` with local aliases (cls = type(self)) resolved"""
        v = substitute_defs(fn_node, r.value, {"self"}) if r.value is not None else None
        return ast.unparse(v.func) if isinstance(v, ast.Call) else None
    okd = okd and all(ctor_of(dc.node, r) in SAME_CLASS for r in rets)
    ctx.expect(okd, "R15.2", "DatasetWrapper.__deepcopy__", "a deep copy is a new object of the same class over Dataset.copy(deep=True)",
               dc.loc() if dc else "")
    okc = False
    if cp is not None:
        defaults = dict(zip([a.arg for a in cp.node.args.args][-len(cp.node.args.defaults):], cp.node.args.defaults))
        d = defaults.get("deep")
        ifs = [n for n in own_walk(cp.node) if isinstance(n, ast.If) and ast.unparse(n.test) == "deep"]
        okc = isinstance(d, ast.Constant) and d.value is True and len(ifs) == 1 \
            and "self.__deepcopy__" in ast.unparse(ast.Module(body=ifs[0].body, type_ignores=[])) \
            and "self.__copy__" in ast.unparse(ast.Module(body=ifs[0].orelse, type_ignores=[]))
    ctx.expect(okc, "R15.2", "DatasetWrapper.copy", "copy() is deep by default and dispatches to __deepcopy__ / __copy__", cp.loc() if cp else "")
    for name in ("__add__", "__sub__", "__neg__"):
        m = p.get_method(CLS_WS, name)
        la = [n for n in own_walk(m.node) if isinstance(n, ast.Assign) and isinstance(n.targets[0], ast.Name)]
        made = [n for n in la if "self.copy(deep=True)" in ast.unparse(n.value)]
        rets = [n for n in own_walk(m.node) if isinstance(n, ast.Return)]
        ok = len(made) == 1 and all(isinstance(r.value, ast.Name) and r.value.id == made[0].targets[0].id for r in rets)
        stores = [n for n in own_walk(m.node) if isinstance(n, ast.Assign) and isinstance(n.targets[0], ast.Subscript)]
        ok = ok and all(ast.unparse(s_.targets[0]).startswith(made[0].targets[0].id + ".dataset[") for s_ in stores) if made else False
        ctx.expect(ok, "R15.2", f"WaveSpectrum.{name}", "the result is built on a deep copy of self and only the copy is assigned to", m.loc())

    # ---- R15.3 flatten / load / concatenate
    fl = p.get_method(CLS_WS, "flatten")
    orders = set()
    shapes = []
    for c in calls(fl.node):
        nm = ast.unparse(c.func)
        if nm.endswith(".reshape") or nm in ("np.reshape", "np.unravel_index", "np.ravel_multi_index"):
            o = next((k.value for k in c.keywords if k.arg == "order"), None)
            orders.add(ast.unparse(o) if o is not None else "'C'")
            if nm.endswith(".reshape"):
                shapes.append(ast.unparse(c.args[0]) if c.args else "")
    n_calls = len([c for c in calls(fl.node) if ast.unparse(c.func).endswith(".reshape")])
    unr = [c for c in calls(fl.node) if ast.unparse(c.func) == "np.unravel_index"]
    ctx.expect(len(orders) == 1 and n_calls >= 2 and len(unr) == 1, "R15.3", "WaveSpectrum.flatten[one order]",
               "coordinates are unravelled and data reshaped with the same (C) memory order", fl.loc(), derived=str(sorted(orders)))
    from .fc import local_assignments as _la
    fla = _la(fl.node)
    rs = [c for c in calls(fl.node) if ast.unparse(c.func).endswith(".reshape") and c.args]
    shp = [substitute_defs(fl.node, c.args[0], {"self"}) for c in rs]
    tup = [x for x in shp if isinstance(x, ast.Tuple) and x.elts and isinstance(x.elts[0], ast.Name)]
    lens = {x.elts[0].id for x in tup}
    oks = len(tup) == len(shp) >= 2 and len(lens) == 1
    if oks:
        L = next(iter(lens))
        plain = [x for x in tup if len(x.elts) == 1]
        spec_ = [x for x in tup if len(x.elts) == 2 and isinstance(x.elts[1], ast.Starred)
                 and ast.unparse(x.elts[1].value) == "self.spectral_shape()"]
        S = ast.unparse(unr[0].args[1]) if unr and len(unr[0].args) > 1 else None
        ldefs = [ast.unparse(d[1]) for d in fla.get(L, []) if d[0] == "assign"]
        sdefs = [ast.unparse(d[1]) for d in fla.get(S or "", []) if d[0] == "assign"]
        oks = bool(plain) and bool(spec_) and len(plain) + len(spec_) == len(tup) and S is not None \
            and f"np.prod({S})" in ldefs and "self.space_time_shape()" in sdefs
    ctx.expect(bool(oks), "R15.3", "WaveSpectrum.flatten[one length]",
               "the flattened length is the product of the space-time shape for coordinates, spectral and non-spectral variables alike",
               fl.loc(), derived=str([ast.unparse(x) for x in shp]))
    # load dispatch
    it = spec_interp(p)
    ld = p.get_function(SPEC + "load_spectrum_from_netcdf")
    tests = [n for n in own_walk(ld.node) if isinstance(n, ast.If)]
    import re as _re
    t0 = ast.unparse(substitute_defs(ld.node, tests[0].test, set())) if len(tests) == 1 else ""
    okl = len(tests) == 1 and bool(_re.fullmatch(r"(NAME_D|'direction') in xarray\.open_dataset\(.*\)\.coords", t0)) \
        and "FrequencyDirectionSpectrum(" in ast.unparse(ast.Module(body=tests[0].body, type_ignores=[])) \
        and "FrequencySpectrum(" in ast.unparse(ast.Module(body=tests[0].orelse, type_ignores=[])) \
        and "FrequencyDirectionSpectrum(" not in ast.unparse(ast.Module(body=tests[0].orelse, type_ignores=[]))
    ctx.expect(okl, "R15.3", "load_spectrum_from_netcdf[dispatch]",
               "a file with a direction coordinate loads as a 2-D spectrum, anything else as a 1-D spectrum", ld.loc())
    sv = p.get_method(CLS_WS, "save_as_netcdf")
    ctx.expect(any(ast.unparse(c.func) == "self.dataset.to_netcdf" for c in calls(sv.node)), "R15.3", "WaveSpectrum.save_as_netcdf",
               "the whole dataset (all variables and coordinates) is written", sv.loc())
    # concatenate
    cc = p.get_function("wavespectra.operations.concatenate_spectra")
    concat = [c for c in calls(cc.node) if ast.unparse(c.func) == "xarray.concat"]
    okc = False
    if len(concat) == 1:
        a0 = concat[0].args[0] if concat[0].args else None
        dimkw = next((k.value for k in concat[0].keywords if k.arg == "dim"), None)
        vloop = [n for n in own_walk(cc.node) if isinstance(n, ast.For) and concat[0] in list(ast.walk(n)) and isinstance(n.target, ast.Name)]
        vname = vloop[0].target.id if len(vloop) == 1 else "?"
        okc = isinstance(a0, ast.ListComp) and len(a0.generators) == 1 and ast.unparse(a0.generators[0].iter) == cc.params[0] \
            and not a0.generators[0].ifs and isinstance(a0.generators[0].target, ast.Name) \
            and ast.unparse(a0.elt) == f"{a0.generators[0].target.id}.dataset[{vname}]" and dimkw is not None \
            and ast.unparse(dimkw) == cc.params[1]
    ctx.expect(okc, "R15.3", "concatenate_spectra[order and dim]",
               "every variable is concatenated over the inputs in their given order along the one requested dimension", cc.loc())
    rets = [n for n in own_walk(cc.node) if isinstance(n, ast.Return)]
    okr = bool(rets) and all(ctor_of(cc.node, r) == f"type({cc.params[0]}[0])" for r in rets)
    ctx.expect(okr, "R15.3", "concatenate_spectra[result class]", "the result has the class of the inputs", cc.loc())
    loops = [n for n in own_walk(cc.node) if isinstance(n, ast.For) and ast.unparse(n.iter) == "spectra[0]"]
    ctx.expect(len(loops) == 1, "R15.3", "concatenate_spectra[all variables]", "all variables of the inputs are concatenated", cc.loc())
    # __getitem__ splits spectral / space-time indices; isel/sel apply to every variable
    for name in ("isel", "sel"):
        m = dw.find_method(name)
        loops = [n for n in own_walk(m.node) if isinstance(n, ast.For) and ast.unparse(n.iter) == "self.dataset"]
        rets = [n for n in own_walk(m.node) if isinstance(n, ast.Return)]
        ok = len(loops) == 1 and all(ctor_of(m.node, r) in SAME_CLASS for r in rets) and f".{name}(" in ast.unparse(loops[0])
        ctx.expect(ok, "R15.3", f"DatasetWrapper.{name}", "selection is applied to every variable and returns a new object of the same class", m.loc())
    # ---- R15.4 no unsynchronised derived state on the objects this property queries (shared rule, see statecache.py)
    from ..statecache import instance_memo_rule as _memo, positive_example as _memo_pos
    _memo(ctx, "R15.4", [p.get_class("wavespectra.spectrum.FrequencySpectrum"), p.get_class("wavespectra.spectrum.FrequencyDirectionSpectrum")], "spectrum classes")
    _memo_pos(ctx, "R15.4")
    ctx.require_count("R15.4", 2)
    ctx.require_count("R15.1", 150)
    ctx.require_count("R15.2", 5)
    ctx.require_count("R15.3", 9)
