"""C04 -- peak parameters locate the maximum of e(f) inside the requested band."""
from __future__ import annotations

import sympy as sp

from .. import terms as T
from ..terms import P, op, Str
from .. import envres
from .common import (CLS_1D, CLS_2D, spectrum_self, spec_interp, norm_sel, FMIN, FMAX, OO, F, mean_direction_ref,
                     spread_ref, peak_index_ref, at_index, depth_ref)

KDISP = "wavetheory.lineardispersion.inverse_intrinsic_dispersion_relation"
EXPLANATION = (
    "TermFlow evaluates peak_index, peak_frequency, peak_period, peak_angular_frequency, peak_direction, "
    "peak_directional_spread, peak_wavenumber, peak_wave_speed and wave_age on both spectrum classes and compares "
    "with: index = argmax_f(where(band, e, 0)) (numpy/xarray argmax = first maximum), frequency = f[index], period = "
    "1/frequency, angular = 2*pi*frequency, direction/spread from (a1,b1) at that index, wavenumber = the dispersion "
    "solver applied to (2*pi*f[index], depth with NaN->inf), wave speed = 2*pi*fp/kp. Decided: argmax (not argmin/"
    "last), mask and fill value, which density is searched (the class's own e), band forwarding, rad/s vs Hz operand, "
    "depth property vs raw variable; the dispersion solver itself (closed forms, Newton update, exit only when all elements meet the relative tolerance) is checked as in C07. Not decided: tie-breaking beyond the trusted argmax semantics and the 1e-3 "
    "dispersion residual (C07)."
)


def run(ctx):
    ctx.explanation = EXPLANATION
    p = ctx.program
    ctx.trust("argmax(dim) returns the first index of the maximum", "DataArray.where(cond, other)")
    kf = p.get_function(KDISP)
    for cls in (CLS_1D, CLS_2D):
        cname = cls.split(".")[-1]
        it = spec_interp(p, opaque={KDISP: "kdisp"})
        me = spectrum_self(p, cls)
        e1d = it.get_attr(me, "e", None)
        a1 = it.get_attr(me, "a1", None)
        b1 = it.get_attr(me, "b1", None)

        def call(name, *args, **kw):
            f = p.get_method(cls, name)
            if f.is_property:
                return it.call_function(f, [me], {}, None), f
            return it.call_function(f, [me] + list(args), kw, None), f

        Z = sp.Integer(0)
        idx = peak_index_ref(e1d)
        idx0 = peak_index_ref(e1d, Z, OO)
        r, f = call("peak_index", FMIN, FMAX)
        ctx.equiv("R04.1", f"{cname}.peak_index", r, idx, f.loc(), "argmax_f(where(band, e, 0))", interp=it)
        r, f = call("peak_index")
        ctx.equiv("R04.1", f"{cname}.peak_index[default band]", r, idx0, f.loc(), interp=it)

        fp = at_index(F, idx)
        r, f = call("peak_frequency", FMIN, FMAX)
        ctx.equiv("R04.2", f"{cname}.peak_frequency", r, fp, f.loc(), "grid frequency at the peak index",
                  norm=norm_sel, interp=it)
        r, f = call("peak_period", FMIN, FMAX)
        ctx.equiv("R04.2", f"{cname}.peak_period", r, 1 / fp, f.loc(), norm=norm_sel, interp=it)
        r, f = call("peak_angular_frequency", FMIN, FMAX)
        ctx.equiv("R04.2", f"{cname}.peak_angular_frequency", r, 2 * sp.pi * fp, f.loc(), norm=norm_sel, interp=it)
        r, f = call("peak_frequency")
        ctx.equiv("R04.2", f"{cname}.peak_frequency[default band]", r, at_index(F, idx0), f.loc(),
                  norm=norm_sel, interp=it)

        a, b = at_index(a1, idx), at_index(b1, idx)
        r, f = call("peak_direction", FMIN, FMAX)
        ctx.equiv("R04.2", f"{cname}.peak_direction", r, mean_direction_ref(a, b), f.loc(), norm=norm_sel, interp=it)
        r, f = call("peak_directional_spread", FMIN, FMAX)
        ctx.equiv("R04.2", f"{cname}.peak_directional_spread", r, spread_ref(a, b), f.loc(), norm=norm_sel, interp=it)

        # R04.3 wavenumber at the peak
        r, f = call("peak_wavenumber")
        r = T.to_term(r)
        ks = T.find_ops(r, "kdisp")
        if len(ks) != 1 or ks[0] != r:
            ctx.unsure("R04.3", f"{cname}.peak_wavenumber", "result is not a single call of the dispersion solver",
                       f.loc(), derived=r)
        else:
            w_arg, d_arg = r.args[0], r.args[1]
            ctx.equiv("R04.3", f"{cname}.peak_wavenumber[frequency operand]", w_arg,
                      at_index(2 * sp.pi * F, idx0), f.loc(), "angular frequency (rad/s) at the peak index",
                      norm=norm_sel, interp=it)
            ctx.equiv("R04.3", f"{cname}.peak_wavenumber[depth operand]", d_arg, depth_ref(), f.loc(),
                      "depth with missing values read as deep water", norm=norm_sel, interp=it)
            # remaining solver arguments are the solver's own defaults
            defaults = it.call_function(kf, [P("w"), P("d")], {}, None)
            ctx.expect(tuple(r.args[2:]) == tuple(T.to_term(defaults).args[2:]), "R04.3",
                       f"{cname}.peak_wavenumber[solver settings]", "gravity / iteration count / tolerance left at the solver defaults",
                       f.loc(), derived=sp.Tuple(*r.args[2:]), required=sp.Tuple(*T.to_term(defaults).args[2:]))
            kp = r
            r2, f2 = call("peak_wave_speed")
            ctx.equiv("R04.3", f"{cname}.peak_wave_speed", r2, 2 * sp.pi * at_index(F, idx0) / kp, f2.loc(),
                      norm=norm_sel, interp=it)
            u = P("windspeed")
            r2, f2 = call("wave_age", u)
            ctx.equiv("R04.3", f"{cname}.wave_age", r2, 2 * sp.pi * at_index(F, idx0) / kp / u, f2.loc(),
                      norm=norm_sel, interp=it)
        envres.check_ext_used(ctx, it, "R04.4", cname)
        ctx.absorb(it)
        ctx.notes.extend(it.unknown_notes[:5])
    # the peak wavenumber is only as good as the dispersion solver: its closed forms and Newton step (rules shared with C07)
    from . import c07
    with ctx.renamed({"R07.1": "R04.5", "R07.2": "R04.5"}):
        c07.dispersion_rules(ctx)
    # ---- R04.6 direction bin widths and directional integration of the 2-D class (shared with C02)
    from .c02 import direction_rules as _dir_rules
    with ctx.renamed({"R02.1": "R04.6", "R02.2": "R04.6", "R02.3": "R04.6"}):
        _dir_rules(ctx)
    ctx.require_count("R04.6", 8)
    # ---- R04.7 no unsynchronised derived state on the objects this property queries (shared rule, see statecache.py)
    from ..statecache import instance_memo_rule as _memo, positive_example as _memo_pos
    _memo(ctx, "R04.7", [p.get_class("wavespectra.spectrum.FrequencySpectrum"), p.get_class("wavespectra.spectrum.FrequencyDirectionSpectrum")], "spectrum classes")
    _memo_pos(ctx, "R04.7")
    ctx.require_count("R04.7", 2)
    ctx.require_count("R04.5", 14)
    ctx.require_count("R04.1", 4)
    ctx.require_count("R04.2", 12)
    ctx.require_count("R04.3", 10)
