"""Shared structure finders for the file-cache rules (C18, C19)."""
from __future__ import annotations

import ast
from typing import Dict, List, Optional, Set, Tuple

from ..model import Program, Function, Class

FCM = "filecache.cache_object"
FC = FCM + ".FileCache"
FCC = FCM + ".FileCacheConfig"


def dotted(e: ast.AST) -> Optional[str]:
    if isinstance(e, ast.Name):
        return e.id
    if isinstance(e, ast.Attribute):
        b = dotted(e.value)
        return None if b is None else b + "." + e.attr
    if isinstance(e, ast.Call):
        b = dotted(e.func)
        return None if b is None else b + "()"
    if isinstance(e, ast.Subscript):
        b = dotted(e.value)
        return None if b is None else b + "[]"
    return None


def own_walk(node: ast.AST):
    """walk excluding nested function definitions"""
    stack = list(ast.iter_child_nodes(node))
    while stack:
        n = stack.pop()
        if isinstance(n, (ast.FunctionDef, ast.AsyncFunctionDef)):
            continue
        yield n
        stack.extend(ast.iter_child_nodes(n))


def calls(node: ast.AST, own=True):
    for n in (own_walk(node) if own else ast.walk(node)):
        if isinstance(n, ast.Call):
            yield n


def call_name(c: ast.Call) -> str:
    return dotted(c.func) or ""


def resolve_ext(p: Program, f: Function, c: ast.Call) -> str:
    """fully qualified name of a library callee when resolvable, else the dotted source text"""
    r = p.resolve_expr(f.module, c.func) if isinstance(c.func, (ast.Name, ast.Attribute)) else None
    if isinstance(r, tuple) and r[0] == "ext":
        return r[1]
    return call_name(c)


def local_assignments(func_node) -> Dict[str, List[ast.AST]]:
    """name -> list of ('assign', value) | ('for', iter, position) | ('with', ctx)"""
    out: Dict[str, List] = {}
    for n in own_walk(func_node):
        if isinstance(n, ast.Assign):
            for t in n.targets:
                if isinstance(t, ast.Name):
                    out.setdefault(t.id, []).append(("assign", n.value))
                elif isinstance(t, (ast.Tuple, ast.List)):
                    for i, e in enumerate(t.elts):
                        if isinstance(e, ast.Name):
                            out.setdefault(e.id, []).append(("unpack", n.value, i))
        elif isinstance(n, ast.AnnAssign) and isinstance(n.target, ast.Name) and n.value is not None:
            out.setdefault(n.target.id, []).append(("assign", n.value))
        elif isinstance(n, ast.NamedExpr) and isinstance(n.target, ast.Name):
            out.setdefault(n.target.id, []).append(("assign", n.value))
        elif isinstance(n, (ast.For, ast.comprehension)):
            t = n.target
            if isinstance(t, ast.Name):
                out.setdefault(t.id, []).append(("for", n.iter, None))
            elif isinstance(t, (ast.Tuple, ast.List)):
                for i, e in enumerate(t.elts):
                    if isinstance(e, ast.Name):
                        out.setdefault(e.id, []).append(("for", n.iter, i))
        elif isinstance(n, ast.withitem) and isinstance(n.optional_vars, ast.Name):
            out.setdefault(n.optional_vars.id, []).append(("with", n.context_expr))
    return out


WRITE_MODES = ("w", "a", "x", "+")


def is_write_mode(mode_node: Optional[ast.AST]) -> Optional[bool]:
    if mode_node is None:
        return False
    if isinstance(mode_node, ast.Constant) and isinstance(mode_node.value, str):
        return any(ch in mode_node.value for ch in WRITE_MODES)
    return None


def destructive_sinks(p: Program, f: Function) -> List[Tuple[ast.Call, ast.AST, str]]:
    """(call, path-argument, kind) for every file-system mutation in f"""
    out = []
    try:
        f = normalise_pathlib(p, f)      # Path(s).unlink() / .replace(d) / .rename(d) read as the os calls on s
    except Exception:
        pass
    for c in calls(f.node):
        name = resolve_ext(p, f, c)
        if name in ("os.remove", "os.unlink", "os.rmdir", "shutil.rmtree") and c.args:
            out.append((c, c.args[0], name))
        elif name in ("os.replace", "os.rename", "shutil.move", "shutil.copyfile", "shutil.copy", "shutil.copy2") \
                and len(c.args) >= 2:
            out.append((c, c.args[1], name + ":dst"))
            if name in ("os.replace", "os.rename", "shutil.move"):
                out.append((c, c.args[0], name + ":src"))
        elif name == "open" and c.args:
            mode = c.args[1] if len(c.args) > 1 else next((k.value for k in c.keywords if k.arg == "mode"), None)
            w = is_write_mode(mode)
            if w or w is None:
                out.append((c, c.args[0], "open:write"))
        elif isinstance(c.func, ast.Attribute) and c.func.attr in ("touch", "unlink", "write_text", "write_bytes") \
                and isinstance(c.func.value, ast.Call) and resolve_ext(p, f, c.func.value) in ("pathlib.Path", "Path"):
            if c.func.value.args:
                out.append((c, c.func.value.args[0], "Path." + c.func.attr))
    return out


def whole_axis_range(func_node, loop: ast.For) -> Tuple[bool, str]:
    """Is the loop's iteration space a whole array axis?  Accepted: range(N) / prange(N) / numba.prange(N) with N one of
    X.shape[k], len(X), or a local bound exactly once to one of those (directly or as element k of `... = X.shape`).
    Returns (ok, description of the extent)."""
    it = loop.iter
    if not (isinstance(it, ast.Call) and ast.unparse(it.func) in ("range", "prange", "numba.prange") and not it.keywords):
        return False, ast.unparse(it)
    if len(it.args) == 2 and isinstance(it.args[0], ast.Constant) and it.args[0].value == 0:
        stop = it.args[1]
    elif len(it.args) == 1:
        stop = it.args[0]
    else:
        return False, ast.unparse(it)
    la = local_assignments(func_node)

    def extent(e, depth=0) -> Optional[str]:
        if isinstance(e, ast.Subscript) and isinstance(e.value, ast.Attribute) and e.value.attr == "shape" \
                and isinstance(e.slice, (ast.Constant, ast.UnaryOp)):
            return ast.unparse(e)
        if isinstance(e, ast.Call) and isinstance(e.func, ast.Name) and e.func.id == "len" and len(e.args) == 1:
            return ast.unparse(e)
        if isinstance(e, ast.Name) and depth < 3:
            defs = la.get(e.id, [])
            if len(defs) != 1:
                return None
            d = defs[0]
            if d[0] == "assign":
                return extent(d[1], depth + 1)
            if d[0] == "unpack" and isinstance(d[1], ast.Attribute) and d[1].attr == "shape":
                return f"{ast.unparse(d[1])}[{d[2]}]"
        return None

    ex = extent(stop)
    return (ex is not None), (ex or ast.unparse(it))


def mentions_through_defs(func_node, expr: ast.AST, pred, depth: int = 4, _seen=None) -> bool:
    """Does `expr`, or the defining expression of any local name it reads (followed through single or multiple
    assignments, up to `depth` levels), contain a node satisfying `pred`?  Local names are not anchors: rules ask
    what a name *is*, not what it is called."""
    _seen = _seen if _seen is not None else set()
    for n in ast.walk(expr):
        if pred(n):
            return True
    if depth <= 0:
        return False
    la = local_assignments(func_node)
    for n in ast.walk(expr):
        if isinstance(n, ast.Name) and isinstance(n.ctx, ast.Load) and n.id in la and n.id not in _seen:
            _seen.add(n.id)
            for d in la[n.id]:
                if d[0] in ("assign", "unpack") and mentions_through_defs(func_node, d[1], pred, depth - 1, _seen):
                    return True
    return False


def substitute_defs(func_node, expr: ast.expr, stop: Set[str], depth: int = 6) -> ast.expr:
    """Copy of `expr` in which every local name with exactly one plain assignment in the function (and not in `stop`) is
    replaced by its defining expression, recursively."""
    import copy
    la = local_assignments(func_node)
    a_ = func_node.args
    stop = set(stop) | {x.arg for x in a_.posonlyargs + a_.args + a_.kwonlyargs}     # parameters are never substituted

    class Sub(ast.NodeTransformer):
        def __init__(self, d):
            self.d = d

        def visit_Name(self, n):
            if isinstance(n.ctx, ast.Load) and n.id not in stop and self.d > 0:
                defs = la.get(n.id, [])
                if len(defs) == 1 and defs[0][0] == "assign":
                    return Sub(self.d - 1).visit(copy.deepcopy(defs[0][1]))
            return n
    return ast.fix_missing_locations(Sub(depth).visit(copy.deepcopy(expr)))


def returned_name(func_node) -> Optional[str]:
    """the local name returned by the last `return <name>` of the function (None if it returns something else)"""
    rets = [n for n in own_walk(func_node) if isinstance(n, ast.Return) and n.value is not None]
    if rets and isinstance(rets[-1].value, ast.Name):
        return rets[-1].value.id
    return None


def name_bound_to_call(func_node, callee_suffix: str) -> Optional[str]:
    """the local name bound (by assignment or walrus) to the result of a call whose dotted name ends with callee_suffix"""
    for n in own_walk(func_node):
        tgt, val = None, None
        if isinstance(n, ast.NamedExpr):
            tgt, val = n.target, n.value
        elif isinstance(n, ast.Assign) and len(n.targets) == 1:
            tgt, val = n.targets[0], n.value
        if isinstance(tgt, ast.Name) and isinstance(val, ast.Call) and call_name(val).endswith(callee_suffix):
            return tgt.id
    return None


def carried_locals(loop: ast.For, ignore: Set[str] = frozenset()) -> List[Tuple[str, int]]:
    """Local names that an iteration of `loop` may read before assigning them although the loop body assigns them on some
    path: their value then comes from an earlier iteration (or from before the loop).  Definite-assignment dataflow on the
    CFG of one iteration.  Returns (name, line of the read)."""
    from ..cfg import CFG, definitely_assigned, stmt_uses, stmt_defs
    # one iteration, wrapped in a single-pass loop so that `continue` / `break` have a target
    once = ast.For(target=ast.Name(id="_once_", ctx=ast.Store()), iter=ast.List(elts=[ast.Constant(0)], ctx=ast.Load()),
                   body=loop.body, orelse=[], lineno=loop.lineno, col_offset=0)
    mini = ast.FunctionDef(name="body", args=ast.arguments(posonlyargs=[], args=[], kwonlyargs=[], kw_defaults=[], defaults=[]),
                           body=[once], decorator_list=[], lineno=loop.lineno, col_offset=0)
    cfg = CFG(mini)
    assigned = set()
    for st in cfg.stmts:
        assigned |= stmt_defs(st)
    targets = {n.id for n in ast.walk(loop.target) if isinstance(n, ast.Name)}
    IN = definitely_assigned(cfg, set(targets))
    out = []
    seen = set()
    for st in cfg.stmts:
        for u in stmt_uses(st):
            if u.id in assigned and u.id not in IN[st] and u.id not in targets and u.id not in ignore and u.id not in seen:
                # an augmented assignment `x += ...` reads x by design (accumulator): reported as well, the caller decides
                seen.add(u.id)
                out.append((u.id, getattr(u, "lineno", loop.lineno)))
    return out


def loop_locals_used_after(func_node) -> List[Tuple[str, ast.For, ast.stmt]]:
    """(name, loop, statement) for every local that is bound only inside a `for` loop (its target or an assignment in its body)
    and read by a statement that follows the loop in the same block: that statement sees the value of the last iteration only."""
    out = []

    def names_bound(loop: ast.For) -> Set[str]:
        s = {n.id for n in ast.walk(loop.target) if isinstance(n, ast.Name)}
        for st in loop.body:
            for n in ast.walk(st):
                if isinstance(n, ast.Name) and isinstance(n.ctx, ast.Store):
                    s.add(n.id)
        return s

    def block(stmts: List[ast.stmt], bound_before: Set[str]):
        seen_bound = set(bound_before)
        for i, st in enumerate(stmts):
            if isinstance(st, ast.For):
                inner = names_bound(st) - seen_bound
                for later in stmts[i + 1:]:
                    for n in ast.walk(later):
                        if isinstance(n, ast.Name) and isinstance(n.ctx, ast.Load) and n.id in inner:
                            out.append((n.id, st, later))
                            inner = inner - {n.id}
                    # a later plain re-assignment ends the exposure
                    for n in ast.walk(later):
                        if isinstance(n, ast.Name) and isinstance(n.ctx, ast.Store):
                            inner = inner - {n.id}
            for fld in ("body", "orelse", "finalbody"):
                sub = getattr(st, fld, None)
                if isinstance(sub, list) and sub and isinstance(sub[0], ast.stmt):
                    block(sub, set(seen_bound))
            if isinstance(st, ast.Try):
                for h in st.handlers:
                    block(h.body, set(seen_bound))
            if not isinstance(st, ast.For):
                for n in ast.walk(st):
                    if isinstance(n, ast.Name) and isinstance(n.ctx, ast.Store):
                        seen_bound.add(n.id)

    a = func_node.args
    block(func_node.body, {x.arg for x in a.posonlyargs + a.args + a.kwonlyargs})
    return out


def inline_statement_calls(p: Program, f: Function, depth: int = 2) -> ast.AST:
    """Copy of f's syntax tree in which every *statement* call `helper(a, b)` of a function of the same package whose body
    returns nothing is replaced by that helper's body (parameters substituted by the argument expressions, helper locals
    suffixed).  Rules about the order of effects inside a function then see through helper extraction."""
    import copy

    def subst_params(body: List[ast.stmt], mapping: Dict[str, ast.expr], suffix: str) -> List[ast.stmt]:
        locals_ = set()
        for st in body:
            for n in ast.walk(st):
                if isinstance(n, ast.Name) and isinstance(n.ctx, ast.Store):
                    locals_.add(n.id)

        class R(ast.NodeTransformer):
            def visit_Name(self, n):
                if n.id in mapping and isinstance(n.ctx, ast.Load):
                    return copy.deepcopy(mapping[n.id])
                if n.id in locals_ and n.id not in mapping:
                    return ast.copy_location(ast.Name(id=n.id + suffix, ctx=n.ctx), n)
                return n
        return [ast.fix_missing_locations(R().visit(copy.deepcopy(st))) for st in body]

    counter = [0]

    def expand(stmts: List[ast.stmt], module, d: int) -> List[ast.stmt]:
        out = []
        for st in stmts:
            if d > 0 and isinstance(st, ast.Expr) and isinstance(st.value, ast.Call) and isinstance(st.value.func, ast.Name) \
                    and not st.value.keywords:
                callee = p.resolve_name(module, st.value.func.id)
                if isinstance(callee, Function) and isinstance(callee.node, ast.FunctionDef) \
                        and len(callee.params) == len(st.value.args) and not callee.node.args.vararg and not callee.node.args.kwarg \
                        and not any(isinstance(n, ast.Return) and n.value is not None for n in own_walk(callee.node)):
                    counter[0] += 1
                    body = [s for s in callee.node.body if not (isinstance(s, ast.Expr) and isinstance(s.value, ast.Constant)
                                                                 and isinstance(s.value.value, str))]
                    mapped = subst_params(body, dict(zip(callee.params, st.value.args)), f"__inl{counter[0]}")
                    for m in mapped:
                        ast.copy_location(m, st)
                    out += expand(mapped, callee.module, d - 1)
                    continue
            for fld in ("body", "orelse", "finalbody"):
                sub = getattr(st, fld, None)
                if isinstance(sub, list) and sub and isinstance(sub[0], ast.stmt):
                    setattr(st, fld, expand(sub, module, d))
            if isinstance(st, ast.Try):
                for h in st.handlers:
                    h.body = expand(h.body, module, d)
            out.append(st)
        return out

    node = copy.deepcopy(f.node)
    node.body = expand(node.body, f.module, depth)
    return ast.fix_missing_locations(node)


def _shallow_expr_copy(e: ast.AST, keep_identity: ast.AST) -> ast.AST:
    """copy of an expression tree in which the node `keep_identity` is the same object (so it can be found and replaced)"""
    import copy
    if e is keep_identity:
        return e
    c = copy.copy(e)
    for fld, val in ast.iter_fields(e):
        if isinstance(val, ast.AST):
            setattr(c, fld, _shallow_expr_copy(val, keep_identity))
        elif isinstance(val, list):
            setattr(c, fld, [_shallow_expr_copy(x, keep_identity) if isinstance(x, ast.AST) else x for x in val])
    return c


def inline_value_calls(p: Program, f: Function, depth: int = 2, keep=()) -> Function:
    """Copy of f in which `targets = helper(args)`, `targets = self.helper(args)` and `return helper(args)` are replaced by the
    helper's body when the helper (same package, or a function nested in f) has exactly one `return`, as its last statement
    (possibly inside a trailing `with` block).  The call is *specialised*: arguments are bound by position, keyword and
    default; parameters are substituted by the argument expressions; helper locals are suffixed; `if` statements whose test
    becomes a constant (`None is not None`, `False`, a function name `is not None`) are folded; a self-reassignment directly
    after the first assignment (`x = a; x = g(x)`) is fused into one.  The returned expression is assigned to the targets (or
    returned).  Syntax-tree rules about one function's bookkeeping then see through helper extraction and through helpers
    shared between siblings; positions of inlined statements are those of the call."""
    import copy

    counter = [0]
    nested = {n.name: n for n in ast.walk(f.node) if isinstance(n, ast.FunctionDef) and n is not f.node}

    def helper_of(call: ast.Call, module, generator=False):
        if any(isinstance(a, ast.Starred) for a in call.args) or any(k.arg is None for k in call.keywords):
            return None, None
        skip = 0
        node = None
        if isinstance(call.func, ast.Name) and call.func.id in nested:
            node, hmod, hname = nested[call.func.id], module, call.func.id
        elif isinstance(call.func, ast.Name):
            callee = p.resolve_name(module, call.func.id)
            if isinstance(callee, Function) and isinstance(callee.node, ast.FunctionDef) and callee is not f:
                node, hmod, hname = callee.node, callee.module, callee.name
        elif isinstance(call.func, ast.Attribute) and isinstance(call.func.value, ast.Name) and call.func.value.id == "self" and f.cls:
            callee = f.cls.find_method(call.func.attr)
            if isinstance(callee, Function) and isinstance(callee.node, ast.FunctionDef) and not callee.is_property and callee is not f:
                node, hmod, hname = callee.node, callee.module, callee.name
                skip = 1
        # only private helpers (leading underscore) and local functions are implementation detail; public functions are vocabulary
        if node is None or hname in keep or not (hname.startswith("_") or hname in nested):
            return None, None
        a = node.args
        if a.vararg or a.kwarg:
            return None, None
        formals = [x.arg for x in a.posonlyargs + a.args][skip:]
        defaults = dict(zip(reversed([x.arg for x in a.posonlyargs + a.args]), reversed(a.defaults)))
        for x, d in zip(a.kwonlyargs, a.kw_defaults):
            formals.append(x.arg)
            if d is not None:
                defaults[x.arg] = d
        if len(call.args) > len(formals):
            return None, None
        mapping = dict(zip(formals, call.args))
        for k in call.keywords:
            if k.arg not in formals or k.arg in mapping:
                return None, None
            mapping[k.arg] = k.value
        for x in formals:
            if x not in mapping:
                if x not in defaults:
                    return None, None
                mapping[x] = defaults[x]
        body = [s_ for s_ in node.body if not (isinstance(s_, ast.Expr) and isinstance(s_.value, ast.Constant)
                                               and isinstance(s_.value.value, str))]
        # a trailing `with ...:` only scopes a context (error state, lock): its statements are the tail of the body
        while body and isinstance(body[-1], ast.With):
            body = body[:-1] + list(body[-1].body)
        rets = [n for n in own_walk(node) if isinstance(n, ast.Return)]
        is_gen = any(isinstance(n, (ast.Yield, ast.YieldFrom)) for n in own_walk(node))
        if generator:
            if not is_gen or rets or any(isinstance(n, ast.YieldFrom) for n in own_walk(node)):
                return None, None
            return hmod, (body, mapping)
        if is_gen:
            return None, None
        if len(rets) != 1 or not body or body[-1] is not rets[0] or rets[0].value is None:
            single = single_exit(body)
            if single is None:
                return None, None
            body = single
        return hmod, (body, mapping)

    def single_exit(body):
        """A body with early returns rewritten to one exit: `return v` becomes `_result = v; _returned = True`, and whatever
        follows a statement that may return runs under `if not _returned:`; the body ends with `return _result`.  Returns inside
        loops or bare `return` are not handled (None)."""
        def has_ret(st):
            return any(isinstance(n, ast.Return) for n in own_walk(st)) or isinstance(st, ast.Return)
        for n in [x for st in body for x in ast.walk(st)]:
            if isinstance(n, (ast.For, ast.While)) and any(isinstance(m, ast.Return) for m in ast.walk(n)):
                return None
            if isinstance(n, ast.Return) and n.value is None:
                return None
        if not any(has_ret(st) for st in body):
            return None

        def conv(stmts):
            out = []
            for i, st in enumerate(stmts):
                if isinstance(st, ast.Return):
                    out.append(ast.copy_location(ast.Assign(targets=[ast.Name(id="_result", ctx=ast.Store())], value=copy.deepcopy(st.value)), st))
                    out.append(ast.copy_location(ast.Assign(targets=[ast.Name(id="_returned", ctx=ast.Store())],
                                                            value=ast.Constant(value=True)), st))
                    return out
                if not has_ret(st):
                    out.append(copy.deepcopy(st))
                    continue
                st2 = copy.copy(st)
                for fld in ("body", "orelse", "finalbody"):
                    sub = getattr(st, fld, None)
                    if isinstance(sub, list) and sub and isinstance(sub[0], ast.stmt):
                        setattr(st2, fld, conv(sub))
                if isinstance(st, ast.Try):
                    st2.handlers = []
                    for h in st.handlers:
                        h2 = copy.copy(h)
                        h2.body = conv(h.body)
                        st2.handlers.append(h2)
                out.append(st2)
                rest = conv(stmts[i + 1:])
                if rest:
                    out.append(ast.copy_location(ast.If(test=ast.UnaryOp(op=ast.Not(), operand=ast.Name(id="_returned", ctx=ast.Load())),
                                                        body=rest, orelse=[]), stmts[i + 1]))
                return out
            return out
        new = [ast.Assign(targets=[ast.Name(id="_returned", ctx=ast.Store())], value=ast.Constant(value=False)),
               ast.Assign(targets=[ast.Name(id="_result", ctx=ast.Store())], value=ast.Constant(value=None))]
        new += conv(body)
        new.append(ast.Return(value=ast.Name(id="_result", ctx=ast.Load())))
        for m in new:
            for sub in ast.walk(m):
                if not hasattr(sub, "lineno"):
                    ast.copy_location(sub, body[0])
        return new

    def subst(body, mapping, suffix, direct=None):
        direct = direct or {}
        locals_ = set()
        for st in body:
            for n in ast.walk(st):
                if isinstance(n, ast.Name) and isinstance(n.ctx, ast.Store):
                    locals_.add(n.id)

        class R(ast.NodeTransformer):
            def visit_Name(self, n):
                if n.id in direct:
                    return ast.copy_location(ast.Name(id=direct[n.id], ctx=n.ctx), n)
                if n.id in mapping and n.id not in locals_:
                    return copy.deepcopy(mapping[n.id])
                if n.id in locals_ or n.id in mapping:
                    return ast.copy_location(ast.Name(id=n.id + suffix, ctx=n.ctx), n)
                return n
        return [R().visit(copy.deepcopy(st)) for st in body]

    def const_test(e, module):
        """True / False when the test is decided by the specialisation, else None"""
        def nonnull(x):
            if isinstance(x, ast.Constant):
                return x.value is not None
            if isinstance(x, (ast.Lambda, ast.Tuple, ast.List, ast.Dict)):
                return True
            if isinstance(x, ast.Name) and (x.id in nested or isinstance(p.resolve_name(module, x.id), Function)):
                return True
            if isinstance(x, ast.Attribute) and isinstance(x.value, ast.Name) and x.value.id in ("np", "numpy"):
                return True
            return None
        if isinstance(e, ast.Constant) and isinstance(e.value, bool):
            return e.value
        if isinstance(e, ast.UnaryOp) and isinstance(e.op, ast.Not):
            r = const_test(e.operand, module)
            return None if r is None else (not r)
        if isinstance(e, ast.Compare) and len(e.ops) == 1 and isinstance(e.ops[0], (ast.Is, ast.IsNot)) \
                and isinstance(e.comparators[0], ast.Constant) and e.comparators[0].value is None:
            nn = nonnull(e.left)
            if nn is None:
                return None
            return (not nn) if isinstance(e.ops[0], ast.Is) else nn
        return None

    def fold(stmts, module):
        out = []
        for st in stmts:
            for fld in ("body", "orelse", "finalbody"):
                sub = getattr(st, fld, None)
                if isinstance(sub, list) and sub and isinstance(sub[0], ast.stmt):
                    setattr(st, fld, fold(sub, module) or [ast.copy_location(ast.Pass(), st)])
            if isinstance(st, ast.If):
                c = const_test(st.test, module)
                if c is True:
                    out += st.body
                    continue
                if c is False:
                    out += [s_ for s_ in st.orelse if not isinstance(s_, ast.Pass)]
                    continue
            out.append(st)
        return out

    def fuse(stmts):
        """x = a; x = g(x)  ->  x = g(a)   (adjacent plain assignments of one name, a without calls that could have effects
        other than reading)"""
        out = []
        for st in stmts:
            for fld in ("body", "orelse", "finalbody"):
                sub = getattr(st, fld, None)
                if isinstance(sub, list) and sub and isinstance(sub[0], ast.stmt):
                    setattr(st, fld, fuse(sub))
            prev = out[-1] if out else None
            if isinstance(st, ast.Assign) and len(st.targets) == 1 and isinstance(st.targets[0], ast.Name) \
                    and isinstance(prev, ast.Assign) and len(prev.targets) == 1 and isinstance(prev.targets[0], ast.Name) \
                    and prev.targets[0].id == st.targets[0].id:
                nm = st.targets[0].id
                uses = [n for n in ast.walk(st.value) if isinstance(n, ast.Name) and n.id == nm]
                if len(uses) == 1:
                    class S(ast.NodeTransformer):
                        def visit_Name(self, n):
                            return copy.deepcopy(prev.value) if n.id == nm else n
                    out[-1] = ast.copy_location(ast.Assign(targets=[st.targets[0]], value=S().visit(copy.deepcopy(st.value))), prev)
                    continue
            out.append(st)
        return out

    def inline_generator(st, call, module):
        hmod, info = helper_of(call, module, generator=True)
        if hmod is None:
            return None
        body, mapping = info
        counter[0] += 1
        suffix = f"__inl{counter[0]}"
        acc = f"_yielded{suffix}"
        pre = [ast.Assign(targets=[ast.Name(id=acc, ctx=ast.Store())], value=ast.List(elts=[], ctx=ast.Load()))]
        stored = {n.id for s_ in body for n in ast.walk(s_) if isinstance(n, ast.Name) and isinstance(n.ctx, ast.Store)}
        for k in list(mapping):
            if k in stored:
                pre.append(ast.Assign(targets=[ast.Name(id=k + suffix, ctx=ast.Store())], value=copy.deepcopy(mapping[k])))
        mapped = subst(body, mapping, suffix)

        class Y(ast.NodeTransformer):
            def visit_Expr(self, n):
                if isinstance(n.value, ast.Yield) and n.value.value is not None:
                    return ast.Expr(value=ast.Call(func=ast.Attribute(value=ast.Name(id=acc, ctx=ast.Load()), attr="append", ctx=ast.Load()),
                                                   args=[n.value.value], keywords=[]))
                return self.generic_visit(n)
        mapped = [Y().visit(m) for m in mapped]
        if any(isinstance(n, (ast.Yield, ast.YieldFrom)) for m in mapped for n in ast.walk(m)):
            return None
        res = ast.Name(id=acc, ctx=ast.Load())
        last = ast.Assign(targets=copy.deepcopy(st.targets), value=res) if isinstance(st, ast.Assign) else ast.Return(value=res)
        new = pre + mapped + [last]
        for m in new:
            for sub in ast.walk(m):
                ast.copy_location(sub, st)
        return fold(new, hmod), hmod

    def expand(stmts, module, d):
        out = []
        stmts = list(stmts)
        k_ = 0
        while k_ < len(stmts):
            st = stmts[k_]
            k_ += 1
            # a helper called in a loop header, a test or as a bare statement is first bound to a fresh local
            hoist = None
            if d > 0 and isinstance(st, ast.For) and isinstance(st.iter, ast.Call):
                hoist = ("iter", st.iter)
            elif d > 0 and isinstance(st, ast.If):
                inner = [c for c in ast.walk(st.test) if isinstance(c, ast.Call) and helper_of(c, module)[0] is not None]
                # the first operand evaluated (`if helper(..)`, `if not helper(..)`, `if helper(..) and x`): binding it first keeps the order
                first = st.test
                while isinstance(first, (ast.UnaryOp, ast.BoolOp, ast.Compare)):
                    first = first.operand if isinstance(first, ast.UnaryOp) else (first.values[0] if isinstance(first, ast.BoolOp) else first.left)
                if len(inner) == 1 and inner[0] is first:
                    hoist = ("test", inner[0])
            elif d > 0 and isinstance(st, ast.Expr) and isinstance(st.value, ast.Call):
                hoist = ("value", st.value)
            if hoist is not None and helper_of(hoist[1], module)[0] is not None:
                counter[0] += 1
                tmp = f"_call{counter[0]}"
                bind = ast.Assign(targets=[ast.Name(id=tmp, ctx=ast.Store())], value=hoist[1])
                for sub in ast.walk(bind):
                    if not hasattr(sub, "lineno"):
                        ast.copy_location(sub, st)
                ast.copy_location(bind, st)
                if hoist[0] == "value":
                    stmts[k_ - 1:k_] = [bind]
                else:
                    st2 = copy.copy(st)
                    repl = ast.copy_location(ast.Name(id=tmp, ctx=ast.Load()), hoist[1])
                    if getattr(st, hoist[0]) is hoist[1]:
                        setattr(st2, hoist[0], repl)
                    else:
                        target_call = hoist[1]

                        class RC(ast.NodeTransformer):
                            def visit_Call(self, n):
                                return repl if n is target_call else self.generic_visit(n)
                        # transform a shallow-copied test so the original tree is untouched
                        setattr(st2, hoist[0], RC().visit(_shallow_expr_copy(getattr(st, hoist[0]), target_call)))
                    stmts[k_ - 1:k_] = [bind, st2]
                k_ -= 1
                continue
            # `xs = list(gen(args))` / `return list(gen(args))` with gen a private generator: its body with every `yield v` read as
            # `acc.append(v)`
            if d > 0 and isinstance(st, (ast.Assign, ast.Return)) and isinstance(st.value, ast.Call) and isinstance(st.value.func, ast.Name) \
                    and st.value.func.id in ("list", "tuple") and len(st.value.args) == 1 and isinstance(st.value.args[0], ast.Call) \
                    and not st.value.keywords:
                gen_new = inline_generator(st, st.value.args[0], module)
                if gen_new is not None:
                    new, hmod = gen_new
                    out += expand(new, hmod, d - 1)
                    continue
            call = None
            if d > 0 and isinstance(st, ast.Assign) and isinstance(st.value, ast.Call):
                call = st.value
            elif d > 0 and isinstance(st, ast.Return) and isinstance(st.value, ast.Call):
                call = st.value
            if call is not None:
                hmod, info = helper_of(call, module)
                if hmod is not None:
                    body, mapping = info
                    counter[0] += 1
                    suffix = f"__inl{counter[0]}"
                    # parameters reassigned in the helper become locals initialised from the argument
                    pre = []
                    stored = {n.id for s_ in body for n in ast.walk(s_) if isinstance(n, ast.Name) and isinstance(n.ctx, ast.Store)}
                    for k in list(mapping):
                        if k in stored:
                            pre.append(ast.Assign(targets=[ast.Name(id=k + suffix, ctx=ast.Store())], value=copy.deepcopy(mapping[k])))
                    # the helper's result locals become the caller's targets directly (`a, b = helper()` with `return x, y`)
                    direct = {}
                    rv = body[-1].value
                    if isinstance(st, ast.Assign) and len(st.targets) == 1:
                        tg = st.targets[0]
                        rn = [rv] if isinstance(rv, ast.Name) else (list(rv.elts) if isinstance(rv, ast.Tuple) else [])
                        tn = [tg] if isinstance(tg, ast.Name) else (list(tg.elts) if isinstance(tg, ast.Tuple) else [])
                        if rn and len(rn) == len(tn) and all(isinstance(x, ast.Name) for x in rn + tn) \
                                and len({x.id for x in rn}) == len(rn) and not ({x.id for x in rn} & set(mapping)):
                            others = (stored | set(mapping)) - {x.id for x in rn}
                            if not ({x.id for x in tn} & others):
                                direct = {r_.id: t_.id for r_, t_ in zip(rn, tn)}
                    mapped = subst(body, mapping, suffix, direct)
                    tail = mapped[-1]
                    if direct:
                        new = pre + mapped[:-1]
                    else:
                        if isinstance(st, ast.Assign):
                            last = ast.Assign(targets=copy.deepcopy(st.targets), value=tail.value)
                        else:
                            last = ast.Return(value=tail.value)
                        new = pre + mapped[:-1] + [last]
                    for m in new:
                        for sub in ast.walk(m):
                            ast.copy_location(sub, st)
                    new = fold(new, hmod)
                    out += expand(new, hmod, d - 1)
                    continue
            for fld in ("body", "orelse", "finalbody"):
                sub = getattr(st, fld, None)
                if isinstance(sub, list) and sub and isinstance(sub[0], ast.stmt):
                    setattr(st, fld, expand(sub, module, d))
            if isinstance(st, ast.Try):
                for h in st.handlers:
                    h.body = expand(h.body, module, d)
            out.append(st)
        return out

    node = copy.deepcopy(f.node)
    nested = {n.name: n for n in ast.walk(node) if isinstance(n, ast.FunctionDef) and n is not node}
    node.body = fuse(expand(node.body, f.module, depth))
    ast.fix_missing_locations(node)
    g = copy.copy(f)
    g.node = node
    return g


def normalise_mapping_loops(f: Function, mapping: str) -> Function:
    """Copy of f in which `for k, v in M.items():` / `for k, v in M.data_vars.items():` (M the named parameter, an xarray
    Dataset or a dict) reads `for k in M:` with `v = M[k]` as the first statement of the body; `for k in M.data_vars:` and
    `for k in M.keys():` read `for k in M:`.  Iterating a Dataset yields its data variables, so these are the same loops."""
    import copy
    node = copy.deepcopy(f.node)
    for n in ast.walk(node):
        if not isinstance(n, ast.For):
            continue
        it = n.iter
        src = None
        pairs = False
        if isinstance(it, ast.Call) and isinstance(it.func, ast.Attribute) and not it.args and not it.keywords \
                and it.func.attr in ("items", "keys"):
            src, pairs = it.func.value, it.func.attr == "items"
        elif isinstance(it, ast.Attribute) and it.attr == "data_vars":
            src = it
        if src is None:
            continue
        if isinstance(src, ast.Attribute) and src.attr == "data_vars":
            src = src.value
        if not (isinstance(src, ast.Name) and src.id == mapping):
            continue
        if pairs:
            if not (isinstance(n.target, ast.Tuple) and len(n.target.elts) == 2 and all(isinstance(e, ast.Name) for e in n.target.elts)):
                continue
            k, v = n.target.elts
            bind = ast.Assign(targets=[ast.Name(id=v.id, ctx=ast.Store())],
                              value=ast.Subscript(value=ast.Name(id=mapping, ctx=ast.Load()), slice=ast.Name(id=k.id, ctx=ast.Load()),
                                                  ctx=ast.Load()))
            for sub in ast.walk(bind):
                ast.copy_location(sub, n.target)
            n.target = ast.copy_location(ast.Name(id=k.id, ctx=ast.Store()), n.target)
            n.body = [bind] + n.body
        elif not isinstance(n.target, ast.Name):
            continue
        n.iter = ast.copy_location(ast.Name(id=mapping, ctx=ast.Load()), it)
    ast.fix_missing_locations(node)
    g = copy.copy(f)
    g.node = node
    return g


def scenario_paths(stmts: List[ast.stmt], env: Dict[str, bool], test_oracle, event_of_call, take_handlers: bool = False,
                   event_of_stmt=None):
    """Path-sensitive walk of a statement list under a *scenario*: `test_oracle(expr, env)` gives the truth of a test or of an
    assigned value in the scenario (True / False / None = both ways), locals assigned a known truth value are tracked in `env`,
    `event_of_call(call)` names the calls of interest.  Returns the (env, events) reached at the end of the list on every
    path consistent with the scenario; a `return` / `continue` / `break` ends a path with the event "exit".
    Loops inside the list are walked once (their body may or may not run)."""
    def truth(test, e):
        if isinstance(test, ast.Name):
            return e.get(test.id)
        if isinstance(test, ast.Constant) and isinstance(test.value, bool):
            return test.value
        if isinstance(test, ast.UnaryOp) and isinstance(test.op, ast.Not):
            v = truth(test.operand, e)
            return None if v is None else (not v)
        if isinstance(test, ast.BoolOp):
            vs = [truth(v, e) for v in test.values]
            if isinstance(test.op, ast.And):
                return False if any(v is False for v in vs) else (True if all(v is True for v in vs) else None)
            return True if any(v is True for v in vs) else (False if all(v is False for v in vs) else None)
        if isinstance(test, ast.Call) and isinstance(test.func, ast.Name) and test.func.id == "bool" and len(test.args) == 1:
            return truth(test.args[0], e)
        return test_oracle(test, e)

    def walk(sts, e, ev):
        states = [(dict(e), list(ev))]
        for st in sts:
            nxt = []
            for e1, ev1 in states:
                if ev1 and ev1[-1] == "exit":
                    nxt.append((e1, ev1))
                else:
                    nxt += step(st, e1, ev1)
            states = nxt
        return states

    def step(st, e, ev):
        if not isinstance(st, (ast.If, ast.Try, ast.For, ast.While, ast.With)):
            for c in [n for n in ast.walk(st) if isinstance(n, ast.Call)]:
                k = event_of_call(c)
                if k:
                    ev = ev + [k]
            if event_of_stmt is not None:
                k = event_of_stmt(st)
                if k:
                    ev = ev + [k]
        if isinstance(st, (ast.Assign, ast.AnnAssign)) and getattr(st, "value", None) is not None:
            tgs = st.targets if isinstance(st, ast.Assign) else [st.target]
            e = dict(e)
            for tg in tgs:
                if isinstance(tg, ast.Name):
                    tv = truth(st.value, e)
                    if tv is None:
                        e.pop(tg.id, None)
                    else:
                        e[tg.id] = tv
                elif isinstance(tg, (ast.Tuple, ast.List)):
                    for x in tg.elts:
                        if isinstance(x, ast.Name):
                            e.pop(x.id, None)
            return [(e, ev)]
        if isinstance(st, ast.If):
            tv = truth(st.test, e)
            out = []
            if tv is not False:
                out += walk(st.body, e, ev)
            if tv is not True:
                out += walk(st.orelse, e, ev)
            return out
        if isinstance(st, ast.Try):
            out = walk(st.body + st.orelse + st.finalbody, e, ev)
            if take_handlers:
                for h in st.handlers:
                    out += walk(h.body + st.finalbody, e, ev)
            return out
        if isinstance(st, ast.With):
            return walk(st.body, e, ev)
        if isinstance(st, (ast.For, ast.While)):
            return walk(st.body, e, ev) + [(dict(e), list(ev))]
        if isinstance(st, ast.Raise):
            return [(e, ev + ["raise", "exit"])]
        if isinstance(st, ast.Return):
            v = st.value.value if isinstance(st.value, ast.Constant) else ("?" if st.value is not None else None)
            return [(e, ev + [f"return:{v}", "exit"])]
        if isinstance(st, (ast.Continue, ast.Break)):
            return [(e, ev + ["exit"])]
        return [(e, ev)]

    return walk(stmts, env, [])


def normalise_pathlib(p: Program, f: Function) -> Function:
    """Copy of f in which file operations written through a pathlib.Path of a known string are spelled with the os functions the
    rules know: for `q = Path(s)` (bound once) or `Path(s)` used directly, `q.replace(d)` -> `os.replace(s, d)`, `q.rename(d)` ->
    `os.rename(s, d)`, `q.unlink()` -> `os.remove(s)`, `q.exists()` -> `os.path.exists(s)`.  Same effects on the same paths."""
    import copy
    la = local_assignments(f.node)

    def path_source(recv):
        c = recv
        if isinstance(recv, ast.Name):
            defs = [d for d in la.get(recv.id, []) if d[0] == "assign"]
            if len(defs) != 1:
                return None
            c = defs[0][1]
        if isinstance(c, ast.Call) and len(c.args) == 1 and not c.keywords and resolve_ext(p, f, c) in ("pathlib.Path", "Path"):
            return c.args[0]
        return None

    def os_call(name, args, like):
        fn = ast.Attribute(value=ast.Name(id="os", ctx=ast.Load()), attr=name, ctx=ast.Load())
        if name == "exists":
            fn = ast.Attribute(value=ast.Attribute(value=ast.Name(id="os", ctx=ast.Load()), attr="path", ctx=ast.Load()), attr="exists",
                               ctx=ast.Load())
        new = ast.Call(func=fn, args=args, keywords=[])
        for sub in ast.walk(new):
            ast.copy_location(sub, like)
        return new

    class R(ast.NodeTransformer):
        def visit_Call(self, n):
            self.generic_visit(n)
            if isinstance(n.func, ast.Attribute) and n.func.attr in ("replace", "rename", "unlink", "exists"):
                src = path_source(n.func.value)
                if src is not None:
                    if n.func.attr in ("replace", "rename") and len(n.args) == 1:
                        return os_call(n.func.attr, [copy.deepcopy(src), n.args[0]], n)
                    if n.func.attr == "unlink" and not n.args:
                        return os_call("remove", [copy.deepcopy(src)], n)
                    if n.func.attr == "exists" and not n.args:
                        return os_call("exists", [copy.deepcopy(src)], n)
            return n
    # nothing to rewrite: hand back f itself (its nodes are the ones other analyses - CFGs, dominators - are keyed on)
    if not any(isinstance(n, ast.Call) and isinstance(n.func, ast.Attribute) and n.func.attr in ("replace", "rename", "unlink", "exists")
               and path_source(n.func.value) is not None for n in ast.walk(f.node)):
        return f
    node = R().visit(copy.deepcopy(f.node))
    ast.fix_missing_locations(node)
    g = copy.copy(f)
    g.node = node
    return g
