"""C07 -- dispersion relation, its Newton inverse, group velocity, spectrum wiring."""
from __future__ import annotations

import sympy as sp

from .. import terms as T
from ..terms import P, op, Str, CMP, fname
from ..interp import Interp
from .. import envres
from .common import (CLS_1D, CLS_2D, spectrum_self, spec_interp, norm_sel, F, LD, identity_hooks, omega_ref, ratio_ref,
                     erase_broadcast, depth_ref)

EXPLANATION = (
    "TermFlow evaluates the closed forms (intrinsic_dispersion_relation, phase_velocity, "
    "ratio_group_velocity_to_phase_velocity, intrinsic_group_velocity) and compares with sqrt(g*k*tanh(k*d)), omega/k, "
    "where(kd>5, 1/2, 1/2+kd/sinh(2kd)) and n*c. For the Newton inverse the loop summary (values before the loop, one "
    "symbolic body, exit condition) is compared clause by clause: regime-based first guess, residual omega(k)-w, "
    "update k - residual/derivative with the derivative equal to the group-velocity ratio times w/k (sibling-consistent, "
    "same kd>5 switch), residual re-evaluated at the new iterate, early exit only under all(|residual|/w < tolerance), "
    "defaults 10 iterations / 1e-3. Spectrum wiring: wavenumber = solver(2*pi*f, depth NaN->inf), group_velocity = "
    "cg(wavenumber, depth), wavelength = 2*pi/k, wave_speed = 2*pi*f/k. Not decided: positivity, the 1e-3 residual, "
    "monotonicity, asymptotes, the 2e-3 group-velocity agreement (numerical behaviour of an iteration)."
)


def dispersion_rules(ctx):
    """R07.1 closed forms and R07.2 Newton inverse (shared with C04: the peak wavenumber rests on this solver)"""
    p = ctx.program
    ctx.trust("np.where(c, a, b) selects elementwise", "np.all(x) is the conjunction over all elements")
    it = identity_hooks(Interp(p))
    k, d, g, w = P("k"), P("d"), P("g"), P("w")
    fn = lambda n: p.get_function(LD + n)  # noqa: E731

    f = fn("intrinsic_dispersion_relation")
    r = it.call_function(f, [k, d, g], {}, None)
    ctx.equiv("R07.1", "intrinsic_dispersion_relation", r, omega_ref(k, d, g), f.loc(), interp=it)
    f = fn("phase_velocity")
    r = it.call_function(f, [k, d, g], {}, None)
    ctx.equiv("R07.1", "phase_velocity", r, omega_ref(k, d, g) / k, f.loc(), interp=it)
    f = fn("ratio_group_velocity_to_phase_velocity")
    r = it.call_function(f, [k, d, g], {}, None)
    ctx.equiv("R07.1", "ratio_group_velocity_to_phase_velocity", r, ratio_ref(k, d), f.loc(), interp=it)
    f = fn("intrinsic_group_velocity")
    r = it.call_function(f, [k, d, g], {}, None)
    ctx.equiv("R07.1", "intrinsic_group_velocity", r, ratio_ref(k, d) * omega_ref(k, d, g) / k, f.loc(), interp=it)
    # default gravity is the module constant GRAV = 9.81
    r = it.call_function(f, [k, d], {}, None)
    G = sp.Rational("9.81")
    ctx.equiv("R07.1", "intrinsic_group_velocity[default gravity]", r, ratio_ref(k, d) * omega_ref(k, d, G) / k,
              f.loc(), interp=it)

    # R07.2 Newton inverse
    f = fn("inverse_intrinsic_dispersion_relation")
    maxiter, tol = P("maxiter"), P("tol")
    it2 = identity_hooks(Interp(p))
    it2.call_function(f, [w, d, g, maxiter, tol], {}, None)
    loops = [L for L in it2.loops if L.func == f.qualname]
    C = "inverse_intrinsic_dispersion_relation"
    if len(loops) != 1:
        ctx.unsure("R07.2", C, f"expected one iteration loop, found {len(loops)}", f.loc())
    else:
        L = loops[0]
        # identify the iterate and the residual among the carried variables by their initial values
        k0 = op("where", CMP("gt", w, sp.sqrt(g / d)), w**2 / g, w / sp.sqrt(g * d))
        iterate = residual = None
        # the iterate is identified by its role, not by its first guess: a carried variable k with a carried companion e whose
        # value before the loop is omega(k_before) - w
        cands = [(nm, v) for nm, v in L.carried.items() if v[1] is not None]
        for nk, (ok_, sk, fk) in cands:
            for ne, (oe, se, fe) in cands:
                if ne != nk and T.equivalent(oe, omega_ref(T.to_term(ok_), d, g) - w) == T.Verdict.EQUAL:
                    iterate = (nk, T.to_term(ok_), sk, fk)
        rotated = False
        if iterate is None:
            for nk, (ok_, sk, fk) in cands:
                e_k = omega_ref(sk, d, g) - w
                dk = op("where", CMP("gt", sk * d, sp.Integer(5)), sp.Rational(1, 2) * w / sk,
                        (sp.Rational(1, 2) + sk * d / sp.sinh(2 * sk * d)) * w / sk)
                if T.equivalent(fk, sk - e_k / dk) == T.Verdict.EQUAL:
                    iterate = (nk, T.to_term(ok_), sk, fk)
                    rotated = True
        if iterate is None:
            names = {n: T.show(v[0], 120) for n, v in L.carried.items()}
            ctx.unsure("R07.2", C + "[first guess]", "no loop-carried iterate with a companion residual omega(k) - w was identified",
                       L.loc, derived=str(names))
        else:
            from ..signs import SignAnalysis, POS, show as _show
            sa_ = SignAnalysis([(lambda t: t in (w, d, g), POS, "w > 0, depth > 0, g > 0")])
            sg = sa_.sign(iterate[1])
            same_as_doc = T.equivalent(iterate[1], k0) == T.Verdict.EQUAL
            swapped = T.equivalent(iterate[1], op("where", CMP("gt", w, sp.sqrt(g / d)), w / sp.sqrt(g * d), w**2 / g)) == T.Verdict.EQUAL
            if swapped:
                ctx.bad("R07.2", C + "[first guess]", "the deep-water estimate w^2/g is used where w <= sqrt(g/d) (shallow) and the shallow-water "
                        "estimate w/sqrt(g d) where the water is deep: the iteration starts far from the root in both regimes and does not "
                        "reach the tolerance within the iteration budget for large and small kd", L.loc, derived=iterate[1], required=k0)
            else:
                ctx.expect(True if (sg == POS or same_as_doc) else (False if not sg & POS else None), "R07.2", C + "[first guess]",
                           "the Newton iteration starts from a positive wavenumber (here the regime-based guess "
                           "where(w > sqrt(g/d), w^2/g, w/sqrt(g*d)))" if same_as_doc else
                           f"the Newton iteration starts from a positive wavenumber (sign set {_show(sg)})", L.loc,
                           derived=iterate[1], required="k_0 > 0")
            k0 = iterate[1]
            kc = iterate[2]
            for name, (orig, sym, fin) in L.carried.items():
                if sym is None or name == iterate[0]:
                    continue
                if T.equivalent(orig, omega_ref(k0, d, g) - w) == T.Verdict.EQUAL:
                    residual = (name, orig, sym, fin)
            if residual is None and rotated:
                # rotated loop: each pass evaluates the residual of the current iterate, tests it, and only then steps
                e_here = omega_ref(kc, d, g) - w
                ctx.ok("R07.2", C + "[initial residual]", "residual = omega(k) - w evaluated from the current iterate in every pass", L.loc,
                       derived=e_here)
                ctx.ok("R07.2", C + "[update]", "k <- k - residual / (n(kd) * w / k), n switching at kd > 5", L.loc, derived=iterate[3])
                want_here = op("all", CMP("lt", sp.Abs(e_here) / w, tol), T.NONE_T)
                conj_of = lambda c: list(c.args) if fname(c) == "and_" else [c]  # noqa: E731
                conv = [b for b in L.break_conds if any(T.equivalent(x, want_here) == T.Verdict.EQUAL for x in conj_of(b))]
                other = [b for b in L.break_conds if b not in conv]
                cnts = {v[1]: v for nm, v in L.carried.items() if v[1] is not None and nm != iterate[0]
                        and T.to_term(v[0]) == 0 and sp.expand(T.to_term(v[2]) - v[1] - 1) == 0}
                wc = L.iter.args[0] if fname(L.iter) == "while" else None
                budget = [b for b in other if fname(b) == "ge" and b.args[0] in cnts and b.args[1] == maxiter]
                if wc is not None and wc != T.TRUE_T:
                    budget += [x for x in conj_of(wc) if fname(x) == "lt" and x.args[0] in cnts and x.args[1] == maxiter]
                    extra_w = [x for x in conj_of(wc) if x not in budget]
                else:
                    extra_w = []
                if fname(L.iter) == "range":
                    budget += [L.iter] if L.iter in (op("range", sp.Integer(0), maxiter), op("range", maxiter)) else []
                ctx.expect(True if (conv and len(other) == len([b for b in budget if b in other]) and not extra_w) else None, "R07.2", C + "[exit]",
                           "the iteration is left only when every element satisfies |residual|/w < tolerance for the iterate that is "
                           "returned, or when the iteration budget is used up", L.loc, derived=sp.Tuple(*L.break_conds))
                ctx.ok("R07.2", C + "[residual update]", "the residual tested is that of the iterate returned", L.loc, derived=e_here)
                ctx.expect(True if budget else None, "R07.2", C + "[iteration bound]",
                           "loop bounded by maximum_number_of_iterations (counter from 0, +1 per pass)", L.loc, derived=sp.Tuple(*budget))
            elif residual is None:
                ctx.bad("R07.2", C + "[initial residual]", "no carried residual equals omega(k_guess) - w", L.loc,
                        required=omega_ref(k0, d, g) - w)
            else:
                ctx.ok("R07.2", C + "[initial residual]", "residual = omega(k_guess) - w", L.loc, derived=residual[1])
                ec = residual[2]
                deriv = ratio_ref(kc, d) * w / kc
                # where(c, a*x, b*x) spelled with the factor inside both arms
                deriv_inside = op("where", CMP("gt", kc * d, sp.Integer(5)), sp.Rational(1, 2) * w / kc,
                                  (sp.Rational(1, 2) + kc * d / sp.sinh(2 * kc * d)) * w / kc)
                new_k = kc - ec / deriv_inside
                v = T.equivalent(iterate[3], new_k)
                if v != T.Verdict.EQUAL:
                    v2 = T.equivalent(iterate[3], kc - ec / deriv)
                    v = v2 if v2 == T.Verdict.EQUAL else v
                if v != T.Verdict.EQUAL:
                    # the exact derivative d omega / dk without the deep-water switch is the same Newton step
                    try:
                        exact = sp.diff(omega_ref(kc, d, g), kc)
                        step = sp.simplify((kc - T.to_term(iterate[3])) * exact - ec)
                        if step == 0:
                            v = T.Verdict.EQUAL
                    except Exception:
                        pass
                ctx.expect(True if v == T.Verdict.EQUAL else (None if v == T.Verdict.UNKNOWN else False), "R07.2",
                           C + "[update]", "k <- k - residual / (n(kd) * w / k), n switching at kd > 5 like "
                           "ratio_group_velocity_to_phase_velocity", L.loc, derived=iterate[3], required=new_k)
                ctx.equiv("R07.2", C + "[residual update]", residual[3], omega_ref(iterate[3], d, g) - w, L.loc,
                          "residual re-evaluated at the new iterate", interp=it2)
                want_exit = op("all", CMP("lt", sp.Abs(residual[3]) / w, tol), T.NONE_T)
                if fname(L.iter) == "while":
                    # while not <flag> and <counter> < budget:  flag := all(|res|/w < tol) at the end of the pass, counter += 1
                    cond = L.iter.args[0]
                    conj = list(cond.args) if fname(cond) == "and_" else [cond]
                    flags = [(nm, v) for nm, v in L.carried.items() if v[1] is not None and T.NOT(v[1]) in conj]
                    cnts = [(nm, v) for nm, v in L.carried.items() if v[1] is not None and CMP("lt", v[1], maxiter) in conj]
                    strip_bool = lambda t: t.args[0] if fname(t) == "bool" and len(t.args) == 1 else t  # noqa: E731
                    okx = len(flags) == 1 and T.to_term(flags[0][1][0]) == T.FALSE_T and not L.break_conds \
                        and T.equivalent(strip_bool(T.to_term(flags[0][1][2])), want_exit) == T.Verdict.EQUAL
                    ctx.expect(okx, "R07.2", C + "[exit]", "the iteration stops only when every element satisfies |residual|/w < tolerance "
                               "(flag tested by the loop condition)", L.loc, derived=cond)
                    okb = len(cnts) == 1 and T.to_term(cnts[0][1][0]) == 0 and sp.expand(T.to_term(cnts[0][1][2]) - cnts[0][1][1] - 1) == 0 \
                        and len(conj) == 2
                    ctx.expect(okb, "R07.2", C + "[iteration bound]", "loop bounded by maximum_number_of_iterations (counter from 0, +1 per pass)",
                               L.loc, derived=cond)
                elif len(L.break_conds) != 1:
                    ctx.unsure("R07.2", C + "[exit]", f"expected exactly one early exit, found {len(L.break_conds)}", L.loc)
                else:
                    ctx.equiv("R07.2", C + "[exit]", L.break_conds[0], want_exit, L.loc,
                              "early exit only when every element satisfies |residual|/w < tolerance", interp=it2)
                    ctx.expect(L.iter == op("range", sp.Integer(0), maxiter) or L.iter == op("range", maxiter), "R07.2",
                               C + "[iteration bound]", "loop bounded by maximum_number_of_iterations", L.loc, derived=L.iter)
        # the returned value is the iterate
        r = it2.call_function(f, [w, d, g, maxiter, tol], {}, None)
        rt = T.to_term(r)
        leaves = []

        def collect(t):
            if fname(t) == "ite":
                collect(t.args[1])
                collect(t.args[2])
            else:
                leaves.append(t)
        collect(rt)
        okres = iterate is not None and bool(leaves)
        for lf in leaves:
            if fname(lf) == "loopfix" and iterate is not None and lf.args[0] == iterate[1]:
                continue
            if fname(lf) == "whilefix" and iterate is not None and lf.args[3] == iterate[2]:
                continue
            # value of the iterate on the path that leaves the loop early
            states = [x for x in T.find_ops(lf, "loopstate") if iterate is not None and x.args[0] == iterate[1]
                      and x.args[2] == T.Str(iterate[0])]
            if not states:
                okres = False
        ctx.expect(okres, "R07.2", C + "[result]", "the function returns the iterate (on early exit: the iterate just computed)",
                   f.loc(), derived=rt)
    # defaults
    b = it2.bind(f, [w, d], {}, __import__("osuverif.interp", fromlist=["Env"]).Env(it2, f, f.module))
    ctx.expect(b.get("tolerance") == sp.Rational(1, 1000), "R07.2", C + "[default tolerance]",
               "default relative tolerance is 1e-3", f.loc(), derived=b.get("tolerance"), required="1/1000")
    ctx.expect(b.get("maximum_number_of_iterations") == sp.Integer(10), "R07.2", C + "[default iterations]",
               "default iteration bound is 10", f.loc(), derived=b.get("maximum_number_of_iterations"))
    ctx.expect(b.get("grav") == sp.Rational("9.81"), "R07.2", C + "[default gravity]", "default gravity 9.81", f.loc(),
               derived=b.get("grav"))

    ctx.absorb(it)
    ctx.absorb(it2)
    return it, it2


def run(ctx):
    ctx.explanation = EXPLANATION
    p = ctx.program
    it, it2 = dispersion_rules(ctx)
    k, d, g, w = P("k"), P("d"), P("g"), P("w")
    # R07.3 spectrum wiring
    KD = LD + "inverse_intrinsic_dispersion_relation"
    CG = LD + "intrinsic_group_velocity"
    for cls in (CLS_1D, CLS_2D):
        cname = cls.split(".")[-1]
        it3 = spec_interp(p, opaque={KD: "kdisp", CG: "cg"})
        me = spectrum_self(p, cls)
        norm = lambda t: erase_broadcast(norm_sel(t))  # noqa: E731
        r = T.to_term(it3.get_attr(me, "depth", None))
        fdep = p.get_method(cls, "depth")
        ctx.equiv("R07.3", f"{cname}.depth", r, depth_ref(), fdep.loc(), "missing depth reads as deep water", interp=it3)
        kk = T.to_term(it3.get_attr(me, "wavenumber", None))
        fw = p.get_method(cls, "wavenumber")
        if fname(kk) != "kdisp":
            ctx.unsure("R07.3", f"{cname}.wavenumber", "not a single call of the dispersion solver", fw.loc(), derived=kk)
            continue
        ctx.equiv("R07.3", f"{cname}.wavenumber[frequency operand]", kk.args[0], 2 * sp.pi * F, fw.loc(),
                  "solver receives angular frequency 2*pi*f", norm=norm, interp=it3)
        ctx.equiv("R07.3", f"{cname}.wavenumber[depth operand]", kk.args[1], depth_ref(), fw.loc(),
                  "solver receives the per-point depth with NaN -> inf", norm=norm, interp=it3)
        dflt = T.to_term(it3.call_function(p.get_function(KD), [P("w"), P("d")], {}, None))
        ctx.expect(tuple(kk.args[2:]) == tuple(dflt.args[2:]), "R07.3", f"{cname}.wavenumber[solver settings]",
                   "solver defaults (gravity, 10 iterations, 1e-3) not overridden", fw.loc(), derived=sp.Tuple(*kk.args[2:]))
        cg = T.to_term(it3.get_attr(me, "group_velocity", None))
        fg = p.get_method(cls, "group_velocity")
        if fname(cg) != "cg":
            ctx.unsure("R07.3", f"{cname}.group_velocity", "not a call of intrinsic_group_velocity", fg.loc(), derived=cg)
        else:
            ctx.equiv("R07.3", f"{cname}.group_velocity[wavenumber operand]", cg.args[0], kk, fg.loc(), norm=norm, interp=it3)
            ctx.equiv("R07.3", f"{cname}.group_velocity[depth operand]", cg.args[1], depth_ref(), fg.loc(), norm=norm, interp=it3)
            ctx.expect(cg.args[2] == sp.Rational("9.81"), "R07.3", f"{cname}.group_velocity[gravity]", "default gravity",
                       fg.loc(), derived=cg.args[2])
        r = it3.get_attr(me, "wavelength", None)
        ctx.equiv("R07.3", f"{cname}.wavelength", r, 2 * sp.pi / kk, p.get_method(cls, "wavelength").loc(), norm=norm, interp=it3)
        fws = p.get_method(cls, "wave_speed")
        r = it3.call_function(fws, [me], {}, None)
        ctx.equiv("R07.3", f"{cname}.wave_speed", r, 2 * sp.pi * F / kk, fws.loc(), norm=norm, interp=it3)
        envres.check_ext_used(ctx, it3, "R07.4", cname)
        ctx.absorb(it3)
        ctx.notes.extend(it3.unknown_notes[:5])
    ctx.absorb(it)
    ctx.absorb(it2)
    # ---- R07.5 no unsynchronised derived state on the objects this property queries (shared rule, see statecache.py)
    from ..statecache import instance_memo_rule as _memo, positive_example as _memo_pos
    _memo(ctx, "R07.5", [p.get_class("wavespectra.spectrum.FrequencySpectrum"), p.get_class("wavespectra.spectrum.FrequencyDirectionSpectrum")], "spectrum classes")
    _memo_pos(ctx, "R07.5")
    ctx.require_count("R07.5", 2)
    ctx.require_count("R07.1", 5)
    ctx.require_count("R07.2", 10)
    ctx.require_count("R07.3", 18)
