"""C11 -- wind inversion closes the source-term balance (structural clauses)."""
from __future__ import annotations

import sympy as sp

from .. import terms as T
from ..terms import P, op, Str, fname, CMP
from ..interp import FuncVal, Obj
from ..callgraph import CallGraph
from .. import binding
from ..mini import must_fire
from .kernels import (WB, E, GRID, PAR, DEPTH, Z0, FI, DI, kernel_interp, grid)
from .c02 import match_nested_sum, full_range

NR = WB + "solvers.numba_newton_raphson"
WIND = WB + "st4_wind_input._st4_wind_generation_point"
WI = WB + "wind_inversion."
EXPLANATION = (
    "TermFlow evaluates the inversion's point functions with the Newton solver, the roughness estimate and the point "
    "source functions kept opaque. Decided: (1) zero shortcut - bulk rate == 0 returns (0, first-guess direction) before "
    "any solve; (2) the residual handed to the solver is integral(generation(u10)) - target - integral(dE/dt over bins "
    "with positive generation) with generation evaluated at the iterate's speed, the guess direction and the roughness "
    "estimated for that speed, integrals weighted by the grid's df*dd, and the target handed down is minus the integrated "
    "dissipation, so a root is generation + dissipation - dE/dt|active = 0; (3) without direction iteration the returned "
    "direction is the dissipation-weighted direction on every path; (4) the speed is 0, NaN or the solver's result with "
    "hard bounds (0, inf) started from the caller's guess; (5) every keyword call lexically inside `try:` in a "
    "nopython-jitted function binds identically by position and by name (numba 0.67 binds such keywords positionally - "
    "the defect that made the inversion return NaN for every input); (6) the public entry points wire generation / "
    "dissipation functions, parameter sets, grid, first guess and rate of change into the kernels. R11.3 also checks the dissipation-weighted mean direction itself (all bins, wavenumber weights, atan2(ky,kx) in degrees mod 360) and R11.7 the solver bracket bookkeeping. Not decided: that the "
    "balance closes to 0.01 m/s and that a root exists (numerical behaviour of the iteration)."
)

POSITIVE_R115 = {"m.py": "import numba\n\n@numba.njit()\ndef callee(x, a=1, b=2.0, c=3.0):\n    return x\n\n"
                         "@numba.njit()\ndef caller(x):\n    try:\n        y = callee(x, b=2.0)\n    except:\n"
                         "        y = 0.0\n    return y\n"}


def direction_step_rule(ctx, rule):
    """shared with C09 (rotation covariance of the estimated wind direction needs the same wrap)"""
    p = ctx.program
    f = p.get_function(WI + "_u10_from_bulk_rate_point")
    windfn = FuncVal(p.get_function(WIND))
    tailfn = P("tailfn")
    bulk, u10g, dirg, dEdt = P("bulk_rate"), P("guess_u10"), P("guess_direction"), P("dEdt")
    # with direction iteration: the step from the current direction to the new stress direction is measured along the shortest arc,
    # ((new - old + 180) mod 360) - 180 with the floored modulo (a remainder that keeps the sign of its dividend does not wrap a
    # step that crosses north counter-clockwise, and the iteration is then relaxed towards the opposite direction)
    it_d = kernel_interp(p, {NR: "newton", WB + "stress._total_stress_point": "total_stress"})
    it_d.call_function(f, [bulk, E, u10g, dirg, DEPTH, GRID, PAR, windfn, tailfn, dEdt, True], {}, None)
    dloops = [L for L in it_d.loops if L.func == f.qualname]
    steps = []
    for L in dloops:
        for nm, (o_, sy_, fin_) in L.carried.items():
            if sy_ is None or T.to_term(o_) != dirg:
                continue
            for a_ in {x.args[0] for x in T.subterms(T.to_term(fin_)) if isinstance(x, sp.Abs)}:
                steps.append((L, sy_, a_))
    if not steps:
        ctx.unsure(rule, "_u10_from_bulk_rate_point[direction step]", "direction iteration with a step size test not found", f.loc())
    for L, dsym, a_ in steps[:1]:
        pm = T.find_ops(a_, "pymod")
        okd = len(pm) == 1 and sp.expand(a_ - (pm[0] - 180)) == 0 and pm[0].args[1] == 360
        if okd:
            news = [x for x in T.find_ops(pm[0].args[0], "item") if fname(x.args[0]) == "total_stress"]
            NEW = sp.Symbol("new_direction")
            inner = sp.expand(pm[0].args[0].xreplace({x: NEW for x in news}) - 180 + dsym - NEW)
            okd = len(news) == 1 and inner == 0
        ctx.expect(okd, rule, "_u10_from_bulk_rate_point[direction step]",
                   "the change of direction is ((new - old + 180) mod 360) - 180 with Python's floored modulo: the shortest arc, signed",
                   L.loc, derived=a_, required="pymod(new - old + 180, 360) - 180")
    ctx.absorb(it_d)


def run(ctx):
    ctx.explanation = EXPLANATION
    p = ctx.program
    ctx.trust("numba 0.67 binds keyword arguments positionally for calls lexically inside try in nopython code "
              "(established by experiment, DESIGN section 6 D15)")
    windfn = FuncVal(p.get_function(WIND))
    tailfn = P("tailfn")
    bulk, u10g, dirg, dEdt = P("bulk_rate"), P("guess_u10"), P("guess_direction"), P("dEdt")

    # ---- R11.1 / R11.3 / R11.4 _u10_from_bulk_rate_point
    f = p.get_function(WI + "_u10_from_bulk_rate_point")
    direction_step_rule(ctx, "R11.3")
    it = kernel_interp(p, {NR: "newton", WB + "stress._total_stress_point": "total_stress"})
    r = it.call_function(f, [bulk, E, u10g, dirg, DEPTH, GRID, PAR, windfn, tailfn, dEdt, False], {}, None)
    if not (isinstance(r, tuple) and len(r) == 2):
        ctx.unsure("R11.1", "_u10_from_bulk_rate_point", "does not return (u10, direction)", f.loc())
    else:
        u, d = T.to_term(r[0]), T.to_term(r[1])
        zero_c = CMP("eq", bulk, 0)
        ok = fname(u) == "ite" and u.args[0] == zero_c and u.args[1] == 0
        ctx.expect(ok, "R11.1", "_u10_from_bulk_rate_point[zero shortcut]",
                   "bulk rate == 0 returns speed 0 before any solve", f.loc(), derived=T.show(u, 200))
        ctx.expect(d == dirg, "R11.3", "_u10_from_bulk_rate_point[direction without iteration]",
                   "without direction iteration the returned direction is the first-guess direction on every path",
                   f.loc(), derived=d, required=dirg)
        rest = u.args[2] if ok else u
        leaves = []

        def collect(t):
            if fname(t) == "ite":
                collect(t.args[1])
                collect(t.args[2])
            else:
                leaves.append(t)
        collect(rest)
        newtons = []
        bad_leaves = []
        for lf in leaves:
            if lf == T.NAN_T:
                continue
            ns = T.find_ops(lf, "newton")
            if fname(lf) in ("loopfix", "newton") and ns:
                newtons += ns
            else:
                bad_leaves.append(lf)
        ctx.expect(not bad_leaves and bool(newtons), "R11.4", "_u10_from_bulk_rate_point[result]",
                   "the speed is 0, NaN (solver failure) or the solver's result", f.loc(),
                   derived=str([T.show(x, 80) for x in bad_leaves]) if bad_leaves else "NaN | newton(...)")
        for n in newtons[:1]:
            nf = p.get_function(NR)
            names = nf.params
            got = dict(zip(names, n.args))
            ctx.expect(got.get("hard_bounds") == sp.Tuple(sp.Integer(0), sp.oo), "R11.4",
                       "_u10_from_bulk_rate_point[hard bounds]", "the solver is confined to (0, inf)", f.loc(),
                       derived=got.get("hard_bounds"))
            ctx.expect(got.get("function") == T.to_term(FuncVal(p.get_function(WI + "_u10_iteration_function"))), "R11.4",
                       "_u10_from_bulk_rate_point[residual function]", "the solver iterates on _u10_iteration_function",
                       f.loc(), derived=got.get("function"))
            ctx.expect(got.get("atol") == sp.Rational(1, 100) and got.get("max_iterations", 0) != 0 and
                       got.get("max_iterations").is_Integer and got.get("max_iterations") >= 10, "R11.4",
                       "_u10_from_bulk_rate_point[solver settings]",
                       "absolute step tolerance 0.01 m/s and an integer iteration budget reach the solver's own parameters",
                       f.loc(), derived=str({k: T.show(v, 30) for k, v in got.items() if k in (
                           "max_iterations", "aitken_acceleration", "atol", "rtol", "numerical_stepsize")}))
            # argument tuple wiring to the residual function
            rf = p.get_function(WI + "_u10_iteration_function")
            fa = got.get("function_arguments")
            want_names = rf.params[1:]
            if isinstance(fa, sp.Tuple) and len(fa.args) == len(want_names):
                m = dict(zip(want_names, fa.args))
                okw = m.get("variance_density") == E and m.get("depth") == DEPTH and m.get("spectral_grid") == GRID \
                    and m.get("parameters") == PAR and m.get("bulk_rate") == bulk and m.get("time_derivative_spectrum") == dEdt \
                    and m.get("wind_source_term_function") == T.to_term(windfn) and m.get("tail_stress_parametrization_function") == tailfn
                ctx.expect(okw, "R11.2", "_u10_from_bulk_rate_point[residual arguments]",
                           "the argument tuple lines up with the residual function's parameters (spectrum, depth, functions, "
                           "grid, parameters, target, dE/dt)", f.loc(), derived=str({k: T.show(v, 30) for k, v in m.items()}))
            else:
                ctx.bad("R11.2", "_u10_from_bulk_rate_point[residual arguments]",
                        "argument tuple does not match the residual function's arity", f.loc(), derived=fa)
    ctx.absorb(it)

    # ---- R11.2 residual
    f = p.get_function(WI + "_u10_iteration_function")
    it = kernel_interp(p, {WB + "stress._roughness_estimate_point": "roughness_point", WIND: "windfn"})
    u10, ug, dg, mem0 = P("u10"), P("speed_guess"), P("direction_guess"), P("roughness_memory")
    r = T.to_term(it.call_function(f, [u10, [mem0], E, (ug, dg, "u10"), DEPTH, windfn, tailfn, GRID, PAR, bulk, dEdt], {}, None))
    z = CMP("eq", u10, 0)
    ok0 = fname(r) == "ite" and r.args[0] == z and r.args[1] == -bulk
    ctx.expect(ok0, "R11.2", "_u10_iteration_function[u10 == 0]", "at zero wind the residual is minus the target", f.loc(),
               derived=T.show(r, 120))
    body = r.args[2] if ok0 else r
    gens = T.find_ops(body, "windfn")
    if len(gens) != 1:
        ctx.bad("R11.2", "_u10_iteration_function[generation]", "the residual does not evaluate the wind input exactly once",
                f.loc(), derived=str(len(gens)))
    else:
        g = gens[0]
        wind_t = sp.Tuple(u10, dg, Str("u10"))
        rp = T.find_ops(g, "roughness_point")
        okg = g.args[0] == E and g.args[1] == wind_t and g.args[2] == DEPTH and len(rp) == 1 and g.args[3] == rp[0] \
            and g.args[4] == GRID and g.args[5] == PAR
        okr = len(rp) == 1 and rp[0].args[0] == mem0 and rp[0].args[1] == E and rp[0].args[2] == wind_t and rp[0].args[3] == DEPTH
        ctx.expect(okg and okr, "R11.2", "_u10_iteration_function[generation]",
                   "generation is evaluated at the iterate's speed, the guess direction and the roughness estimated for that wind",
                   f.loc(), derived=T.show(g, 200))
        fstep, dstep = grid("frequency_step"), grid("direction_step")
        # body == SUM gen*df*dd - bulk - SUM ite(gen>0, dEdt*dd*df, 0)
        body = _vector_sums_as_loops(body, (g, E, dEdt), (fstep, dstep))
        parts = list(body.args) if isinstance(body, sp.Add) else [body]
        sums = [a for a in parts if T.find_ops(a, "loopsum")]
        rest = sp.Add(*[a for a in parts if a not in sums])
        ctx.expect(sp.expand(rest + bulk) == 0, "R11.2", "_u10_iteration_function[target]",
                   "the target bulk rate enters with coefficient -1", f.loc(), derived=rest)
        pos = [a for a in sums if not a.could_extract_minus_sign()]
        neg_ = [a for a in sums if a.could_extract_minus_sign()]
        okp = okn = False
        if len(pos) == 1:
            m = match_nested_sum(pos[0], 2)
            if m:
                X, ((fv, fr), (dv, dr)) = m
                okp = sp.expand(X - op("item", g, sp.Tuple(fv, dv)) * op("item", fstep, fv) * op("item", dstep, dv)) == 0 \
                    and full_range(fr, (g, E, dEdt), (0, -2)) and full_range(dr, (g, E, dEdt), (1, -1))
        if len(neg_) == 1:
            m = match_nested_sum(-neg_[0], 2)
            if m:
                X, ((fv, fr), (dv, dr)) = m
                okr = full_range(fr, (g, E, dEdt), (0, -2)) and full_range(dr, (g, E, dEdt), (1, -1))
                gi = op("item", g, sp.Tuple(fv, dv))
                want = T.ITE(CMP("gt", gi, 0), op("item", dEdt, sp.Tuple(fv, dv)) * op("item", dstep, dv) * op("item", fstep, fv), 0)
                okn = okr and T.equivalent(X, want) == T.Verdict.EQUAL
        ctx.expect(okp, "R11.2", "_u10_iteration_function[integrated generation]",
                   "+ sum_f sum_d generation[f,d]*df*dd", f.loc(), derived=T.show(pos[0], 160) if pos else "missing")
        ctx.expect(okn, "R11.2", "_u10_iteration_function[active-region dE/dt]",
                   "- sum over bins with generation > 0 of dEdt[f,d]*df*dd", f.loc(), derived=T.show(neg_[0], 160) if neg_ else "missing")
    ctx.absorb(it)

    # ---- R11.2/3 _u10_from_spectra_point: negated dissipation target and dissipation direction
    f = p.get_function(WI + "_u10_from_spectra_point")
    it = kernel_interp(p, {WB + "dissipation._bulk_dissipation_direction_point": "dissdir", WI + "_u10_from_bulk_rate_point": "u10_from_bulk"})
    pg, pd, dissfn, di = P("parameters_generation"), P("parameters_dissipation"), P("dissfn"), P("direction_iteration")
    r = it.call_function(f, [E, u10g, DEPTH, windfn, tailfn, dissfn, pg, pd, GRID, dEdt, di], {}, None)
    calls = T.find_ops(T.to_term(r), "u10_from_bulk")
    dd = op("dissdir", E, DEPTH, dissfn, GRID, pd)
    if len(calls) != 1 or not isinstance(r, tuple):
        ctx.unsure("R11.2", "_u10_from_spectra_point", "single call of _u10_from_bulk_rate_point not found", f.loc())
    else:
        c = calls[0]
        names = p.get_function(WI + "_u10_from_bulk_rate_point").params
        m = dict(zip(names, c.args))
        ctx.expect(m.get("bulk_rate") == -op("item", dd, sp.Integer(1)), "R11.2", "_u10_from_spectra_point[target]",
                   "the target handed down is minus the integrated dissipation (computed with the dissipation parameter set)",
                   f.loc(), derived=m.get("bulk_rate"), required=-op("item", dd, sp.Integer(1)))
        ctx.expect(m.get("guess_direction") == op("item", dd, sp.Integer(0)), "R11.3", "_u10_from_spectra_point[direction]",
                   "the direction guess is the dissipation-weighted mean wave direction", f.loc(), derived=m.get("guess_direction"))
        okw = m.get("variance_density") == E and m.get("guess_u10") == u10g and m.get("depth") == DEPTH and m.get("spectral_grid") == GRID \
            and m.get("parameters") == pg and m.get("time_derivative_spectrum") == dEdt and m.get("direction_iteration") == di \
            and m.get("wind_source_term_function") == T.to_term(windfn) and m.get("tail_stress_parametrization_function") == tailfn
        ctx.expect(okw, "R11.2", "_u10_from_spectra_point[wiring]",
                   "spectrum, first guess, depth, grid, generation parameters, functions, dE/dt and the iteration flag reach "
                   "their own parameters", f.loc(), derived=str({k: T.show(v, 30) for k, v in m.items()}))
        ctx.expect(T.to_term(r[0]) == op("item", c, sp.Integer(0)) and T.to_term(r[1]) == op("item", c, sp.Integer(1)), "R11.3",
                   "_u10_from_spectra_point[result]", "returns the (speed, direction) pair unchanged", f.loc())
    ctx.absorb(it)

    # ---- R11.3 the dissipation-weighted mean direction itself: all bins, wavenumber weights, minus sign, atan2(ky, kx)
    f = p.get_function(WB + "dissipation._bulk_dissipation_direction_point")
    it = kernel_interp(p, {})
    dfn = P("dissfn")
    r = it.call_function(f, [E, DEPTH, dfn, GRID, PAR], {}, None)
    tag = "_bulk_dissipation_direction_point"
    if not (isinstance(r, tuple) and len(r) == 2):
        ctx.unsure("R11.3", tag, "does not return (direction, bulk)", f.loc())
    else:
        dterm, bterm = T.to_term(r[0]), T.to_term(r[1])
        S = T.find_ops(bterm, "apply")
        S = S[0] if S else None
        at = T.find_ops(dterm, "atan2") or sorted(dterm.atoms(sp.atan2), key=str)
        okshape = S is not None and len(at) == 1 and \
            T.equivalent(dterm, op("pymod", 180 * at[0] / sp.pi, 360)) == T.Verdict.EQUAL
        ctx.expect(okshape, "R11.3", tag + "[degrees in [0, 360)]",
                   "direction == (atan2(ky, kx) * 180/pi) % 360", f.loc(), derived=T.show(dterm, 120))
        if okshape:
            ky, kx = at[0].args
            fstep, dstep = grid("frequency_step"), grid("direction_step")
            kd = T.find_ops(dterm, "kdisp")
            okk = len(kd) == 1 and kd[0].args[0] == grid("radian_frequency") and kd[0].args[1] == DEPTH
            ctx.expect(okk, "R11.3", tag + "[wavenumber]", "wavenumbers come from the dispersion relation at the grid's radian "
                       "frequencies and the point's depth", f.loc(), derived=str([T.show(k, 80) for k in kd]))
            for nm, comp, h in (("kx", kx, sp.cos), ("ky", ky, sp.sin)):
                m = match_nested_sum(comp, 2)
                if m is None or not okk:
                    ctx.bad("R11.3", tag + f"[{nm}]", "component is not a double sum over frequency and direction", f.loc(), derived=comp)
                    continue
                X, ((fv, fr), (dv, dr)) = m
                want = -op("item", S, sp.Tuple(fv, dv)) * op("item", kd[0], fv) * op("item", h(grid("radian_direction")), dv) \
                    * op("item", fstep, fv) * op("item", dstep, dv)
                ctx.equiv("R11.3", tag + f"[{nm}]", X, want, f.loc(),
                          f"{nm} == - sum_f sum_d k[f]*{h.__name__}(theta[d])*S[f,d]*df[f]*dtheta[d] (S <= 0 is the dissipation)", interp=it)
                ctx.expect(full_range(fr, (E, S), (0, -2)) and full_range(dr, (E, S), (1, -1)), "R11.3", tag + f"[{nm} over all bins]",
                           "the weighted sum runs over every frequency and every direction bin", f.loc(), derived=sp.Tuple(fr, dr))
            mb = match_nested_sum(bterm, 2)
            okb = False
            if mb:
                X, ((fv, fr), (dv, dr)) = mb
                okb = sp.expand(X - op("item", S, sp.Tuple(fv, dv)) * op("item", fstep, fv) * op("item", dstep, dv)) == 0 \
                    and full_range(fr, (E, S), (0, -2)) and full_range(dr, (E, S), (1, -1))
            ctx.expect(okb, "R11.2", tag + "[integrated dissipation]", "bulk == sum_f sum_d S[f,d]*df[f]*dtheta[d] over all bins",
                       f.loc(), derived=T.show(bterm, 160))
    ctx.absorb(it)

    # ---- R11.5 numba try/keyword binding over everything reachable from the public entry points
    cg = CallGraph(p)
    roots = [p.get_function("wavephysics.windestimate.estimate_u10_from_source_terms"),
             p.get_function(WI + "windspeed_and_direction_from_spectra")]
    reach = cg.reachable(roots)
    jitted_try = [g for g in reach if g.jitted and any(True for _ in binding.try_bodies(g))]
    n = binding.numba_try_keyword_rule(ctx, "R11.5", cg, reach)
    must_fire(ctx, "R11.5", POSITIVE_R115,
              lambda sub, mp: binding.numba_try_keyword_rule(sub, "R11.5", CallGraph(mp), mp.all_functions),
              "keyword call inside try in a jitted function")
    anchor = p.get_function(WI + "_u10_from_bulk_rate_point")
    ctx.expect(anchor in reach and anchor.jitted, "R11.5", "reachability[_u10_from_bulk_rate_point]",
               "the jitted solver wrapper is reachable from the public entry points and is analysed", anchor.loc())
    # every call inside its try is checked even when it has no keywords: positional calls are always safe
    for g in jitted_try:
        ctx.ok("R11.5", f"{g.qualname}[try blocks analysed]", "try blocks of this jitted function were scanned", g.loc())

    # ---- R11.6 public wiring
    wf = p.get_function(WI + "windspeed_and_direction_from_spectra")
    from .common import spectrum_self, CLS_2D, spec_interp
    it = spec_interp(p, {WI + "_u10_from_spectra": "kernel", WB + "source_term._numba_parameters": "numba_parameters",
                         WB + "source_term._spectral_grid": "spectral_grid"})
    gen = Obj(p.get_class(WB + "generation.WindGeneration"), {"_wind_source_term_function": P("gen_fn"),
              "_tail_stress_parametrization_function": P("tail_fn"), "_parameters": {"g": P("gp")}, "name": "g"}, "generation")
    dis = Obj(p.get_class(WB + "dissipation.Dissipation"), {"_dissipation_function": P("dis_fn"), "_parameters": {"d": P("dp")},
              "name": "d"}, "dissipation")
    bal = Obj(p.get_class(WB + "balance.SourceTermBalance"), {"generation": gen, "dissipation": dis}, "balance")
    spec = spectrum_self(p, CLS_2D)
    guess = P("guess_u10")
    dspec = Obj(p.get_class(CLS_2D), {"dataset": P("ds_dt")}, "dEdt")
    it.nonnull.add(T.to_term(dspec))
    r = it.call_function(wf, [bal, guess, spec], {"time_derivative_spectrum": dspec, "direction_iteration": P("flag")}, None)
    ks = T.find_ops(T.to_term(r), "kernel")
    if len(ks) < 1:
        ctx.unsure("R11.6", "windspeed_and_direction_from_spectra", "kernel call not found", wf.loc(), derived=T.to_term(r))
    else:
        k = ks[0]
        names = p.get_function(WI + "_u10_from_spectra").params
        m = dict(zip(names, k.args))
        okw = m.get("variance_density") == T.to_term(it.get_attr(spec, "variance_density", None)) and m.get("guess_u10") == guess \
            and m.get("depth") == T.to_term(it.get_attr(spec, "depth", None)) \
            and m.get("wind_source_term_function") == P("gen_fn") and m.get("tail_stress_parametrization_function") == P("tail_fn") \
            and m.get("dissipation_source_term_function") == P("dis_fn") \
            and fname(m.get("parameters_generation")) == "numba_parameters" and fname(m.get("parameters_dissipation")) == "numba_parameters" \
            and m.get("parameters_generation") != m.get("parameters_dissipation") \
            and P("gp") in m.get("parameters_generation").free_symbols and P("dp") in m.get("parameters_dissipation").free_symbols \
            and fname(m.get("spectral_grid")) == "spectral_grid" and m.get("direction_iteration") == P("flag") \
            and m.get("time_derivative_spectrum") == op("item", P("ds_dt"), Str("variance_density"))
        ctx.expect(okw, "R11.6", "windspeed_and_direction_from_spectra[wiring]",
                   "generation/tail/dissipation functions, their own parameter sets, the spectrum's grid, the first guess, the "
                   "rate-of-change values and the iteration flag reach the kernel", wf.loc(),
                   derived=str({kk: T.show(v, 40) for kk, v in m.items()}))
    ctx.absorb(it)
    ef = p.get_function("wavephysics.windestimate.estimate_u10_from_source_terms")
    it = spec_interp(p, {WI + "windspeed_and_direction_from_spectra": "inversion",
                         "wavephysics.windestimate.estimate_u10_from_spectrum": "first_guess"})
    r = T.to_term(it.call_function(ef, [spec, bal, dspec, P("flag")], {}, None))
    if fname(r) != "inversion":
        ctx.unsure("R11.6", "estimate_u10_from_source_terms", "does not return the inversion's dataset", ef.loc(), derived=r)
    else:
        names = wf.params
        m = dict(zip(names, r.args))
        fg = m.get("guess_u10")
        okg = fname(fg) == "item" and fg.args[1] == Str("u10") and fname(fg.args[0]) == "first_guess" \
            and fg.args[0].args[0] == T.to_term(spec) and fg.args[0].args[1] == Str("peak") \
            and Str("going_to_counter_clockwise_east") in fg.args[0].args
        ctx.expect(okg and m.get("balance") == T.to_term(bal) and m.get("spectrum") == T.to_term(spec)
                   and m.get("time_derivative_spectrum") == T.to_term(dspec) and m.get("direction_iteration") == P("flag"),
                   "R11.6", "estimate_u10_from_source_terms[wiring]",
                   "first guess = equilibrium-range U10 (peak method, going-to convention); balance, spectrum, dE/dt and the "
                   "iteration flag forwarded", ef.loc(), derived=str({kk: T.show(v, 60) for kk, v in m.items()}))
    ctx.absorb(it)
    # ---- R11.7 bracket bookkeeping of the solver that drives the inversion
    from ..pairs import paired_update_rule
    paired_update_rule(ctx, "R11.7", p.get_function(WB + "solvers.numba_newton_raphson"), "root_bounds", "func_at_bounds",
                       "iterates", "func_evals", "function", 4)
    # ---- R11.8 no unsynchronised derived state on the objects this property queries (shared rule, see statecache.py)
    from ..statecache import instance_memo_rule as _memo, positive_example as _memo_pos
    _memo(ctx, "R11.8", [p.get_class("wavephysics.balance.source_term.SourceTerm"), p.get_class("wavephysics.balance.balance.SourceTermBalance")], "source-term classes")
    _memo_pos(ctx, "R11.8")
    ctx.require_count("R11.8", 2)
    ctx.require_count("R11.7", 7)
    ctx.require_count("R11.1", 1)
    ctx.require_count("R11.2", 9)
    ctx.require_count("R11.3", 10)
    ctx.require_count("R11.4", 4)
    ctx.require_count("R11.5", 3)
    ctx.require_count("R11.6", 2)


def _vector_sums_as_loops(t, arrays2d, arrays1d):
    """np.sum(<element-wise expression over the (frequency, direction) grid>) written as the double loop it abbreviates, so that
    one rule covers both spellings.  2-D operands are the listed arrays, 1-D operands broadcast along the last axis unless an
    axis was inserted (x[:, None], np.expand_dims(x, 1))."""
    from ..terms import NONE_T
    fv, dv = sp.Symbol("~f"), sp.Symbol("~d")
    full = op("slc", NONE_T, NONE_T, NONE_T)

    def elem(x):
        if x.is_number:
            return x
        if x in arrays2d:
            return op("item", x, sp.Tuple(fv, dv))
        if x in arrays1d:
            return op("item", x, dv)
        f_ = fname(x)
        if f_ == "expand_dims" and x.args[0] in arrays1d and x.args[1].is_Integer:
            return op("item", x.args[0], fv if int(x.args[1]) in (1, -1) else dv)
        if f_ == "item" and x.args[0] in arrays1d and isinstance(x.args[1], sp.Tuple) and len(x.args[1].args) == 2:
            a, b = x.args[1].args
            if a == full and b == NONE_T:
                return op("item", x.args[0], fv)
            if a == NONE_T and b == full:
                return op("item", x.args[0], dv)
        if isinstance(x, (sp.Add, sp.Mul)):
            return x.func(*[elem(a) for a in x.args])
        if isinstance(x, sp.Pow) and x.args[1].is_number:
            return elem(x.args[0]) ** x.args[1]
        if f_ in ("where", "ite") and len(x.args) == 3:
            return T.ITE(elem(x.args[0]), elem(x.args[1]), elem(x.args[2]))
        if f_ in ("lt", "ge", "eq", "ne") and len(x.args) == 2:
            return CMP(f_, elem(x.args[0]), elem(x.args[1]))
        raise ValueError(x)

    def fn(n):
        if fname(n) in ("sum", "nansum") and len(n.args) == 2 and n.args[1] == NONE_T and any(a in n.args[0].free_symbols or n.args[0].has(a)
                                                                                             for a in arrays2d):
            try:
                X = elem(n.args[0])
            except ValueError:
                return None
            ref = next(a for a in arrays2d if n.args[0].has(a))
            inner = op("loopsum", X, dv, op("range", op("item", op("shape", ref), sp.Integer(1))))
            return op("loopsum", inner, fv, op("range", op("item", op("shape", ref), sp.Integer(0))))
        return None
    return T.rewrite(T.to_term(t), fn)
