"""C09 -- joint-rotation covariance: unit consistency and frame typing at every place directions enter."""
from __future__ import annotations

import sympy as sp

from .. import terms as T
from ..terms import P, op, Str, fname
from ..interp import FuncVal
from ..libmodel import element_of
from ..frames import (UnitAnalysis, FrameAnalysis, DEG, RAD, NOUNIT, UTOP, INV, ZERO_T, ANG, CS)
from .kernels import (WB, E, GRID, PAR, DEPTH, Z0, U, THW, FI, DI, kernel_interp, par, grid, wind)

NR = WB + "solvers.numba_newton_raphson"
EXPLANATION = (
    "TermFlow extracts the terms computed at the six places where directions enter (ST4 input mask, saturation band, "
    "cumulative breaking, stress vector incl. viscous part, WAM tail stress, dissipation-weighted direction) plus the "
    "direction iteration of the wind inversion, with the ST4 input / WAM tail / ST4 dissipation functions inlined. "
    "Two type systems run over the terms. Units: wind direction and bin widths are degrees, radian_direction is "
    "radians, pi/180 and 180/pi convert, trigonometric functions need radians, % 360 needs degrees, % 2pi radians, "
    "sums/comparisons need agreeing units. Frames: the wind direction and radian_direction rotate (weight 1), "
    "everything else is invariant; invariant outputs (rates at a bin, bulk rates, stress magnitude, roughness "
    "residual) must type INV - directions may enter only through relative angles or through X^2+Y^2 of a covariant "
    "pair; direction outputs must be atan2(north, east) of a pair whose north part is the east part with cos->sin, "
    "converted to degrees and wrapped with % 360. These are necessary conditions of the rotation/mirror relation; "
    "the relation between two runs and whole-bin bookkeeping are not decided."
)


def useeds():
    return [
        (lambda t: t == THW, DEG, "wind direction (wind[1]) is in degrees"),
        (lambda t: t == grid("radian_direction"), RAD, "spectral_grid['radian_direction'] is in radians"),
        (lambda t: t == grid("direction_step"), DEG, "spectral_grid['direction_step'] is in degrees"),
        (lambda t: t == par("saturation_integration_width_degrees"), DEG, "saturation_integration_width_degrees is in degrees"),
        (lambda t: t == P("direction"), DEG, "the direction iterate of the inversion is in degrees"),
        (lambda t: t == P("new_direction"), DEG, "stress direction is in degrees"),
    ]


def fseeds():
    return [
        (lambda t: t == THW, ANG(1), "the wind direction rotates with the frame"),
        (lambda t: t == grid("radian_direction"), ANG(1), "the direction grid rotates with the frame"),
        (lambda t: t == P("direction"), ANG(1), "direction iterate rotates"),
        (lambda t: t == P("new_direction"), ANG(1), "stress direction rotates"),
    ]


def check_term(ctx, tag, term, want, loc, want_unit=None):
    """units consistent; frame type == want (INV / ANG(1))"""
    term = T.strip_never(T.to_term(term))
    ua = UnitAnalysis(useeds())
    u = ua.unit(term)
    for msg, t in ua.problems:
        ctx.bad("R09.1", f"{tag}[units: {msg}]", msg, loc, derived=t)
    if not ua.problems:
        ctx.ok("R09.1", f"{tag}[units]", f"{ua.checked} angle operations unit-consistent (result unit {u})", loc)
    if want_unit is not None:
        ctx.expect(u == want_unit, "R09.1", f"{tag}[result unit]", f"result is an angle in {want_unit}", loc, derived=u)
    fa = FrameAnalysis(fseeds())
    ty = fa.ftype(term)
    for msg, t in fa.problems:
        ctx.bad("R09.2", f"{tag}[frame: {msg}]", msg, loc, derived=t)
    if ty == ZERO_T:
        ty = want
    if ty == want:
        ctx.ok("R09.2", f"{tag}[frame]", f"frame type {ty}: " + ("unchanged under joint rotation" if want == INV
               else "shifts by the rotation angle") + f" ({fa.pairs_checked} covariant pairs matched)", loc)
    elif ty[0] == "unknown":
        ctx.unsure("R09.2", f"{tag}[frame]", f"frame type not derivable: {ty[1]}", loc, derived=T.show(term, 300), required=str(want))
    elif ty[0] == "mixed":
        if not fa.problems:
            ctx.bad("R09.2", f"{tag}[frame]", f"not covariant: {ty[1]}", loc, derived=T.show(term, 300), required=str(want))
    else:
        ctx.bad("R09.2", f"{tag}[frame]", f"frame type {ty} where {want} is required", loc, derived=T.show(term, 300),
                required=str(want))
    for d in ua.used + fa.used:
        ctx.assume(d)


def run(ctx):
    ctx.explanation = EXPLANATION
    p = ctx.program
    ctx.trust("cos/sin/exp(i x) take radians; np.arctan2 returns radians", "a sum over all direction bins is invariant under a "
              "cyclic relabelling of the bins when its summand is")
    it = kernel_interp(p, {NR: "newton"})
    windq = WB + "st4_wind_input._st4_wind_generation_point"
    tailq = WB + "wam_tail_stress.tail_stress_parametrization_wam"
    dissq = WB + "st4_wave_breaking.st4_dissipation_breaking"
    windfn, tailfn, dissfn = (FuncVal(p.get_function(q)) for q in (windq, tailq, dissq))

    # 1. wind input at a bin
    f = p.get_function(windq)
    r = it.call_function(f, [E, wind(), DEPTH, Z0, GRID, PAR], {}, None)
    check_term(ctx, "st4_wind_input[rate at a bin]", element_of(it, r, (FI, DI)), INV, f.loc())
    # 2./3. saturation band and cumulative term
    f = p.get_function(dissq)
    r = it.call_function(f, [E, DEPTH, GRID, PAR], {}, None)
    check_term(ctx, "st4_dissipation[rate at a bin]", element_of(it, r, (FI, DI)), INV, f.loc())
    # 4. WAM tail stress components
    f = p.get_function(tailq)
    r = it.call_function(f, [E, wind(), DEPTH, Z0, GRID, PAR], {}, None)
    if isinstance(r, tuple) and len(r) == 2:
        east, north = (T.strip_never(T.to_term(x)) for x in r)
        fa = FrameAnalysis(fseeds())
        te, tn = fa.ftype(east), fa.ftype(north)
        ok = te == CS("cos", 1) and tn == CS("sin", 1) and fa.is_pair(east, north)
        ctx.expect(ok, "R09.2", "wam_tail_stress[(east, north)]",
                   "the returned pair is (cos-component, sin-component) of one vector: north == east with cos->sin",
                   f.loc(), derived=f"east:{te} north:{tn}")
        for msg, t in fa.problems:
            ctx.bad("R09.2", f"wam_tail_stress[frame: {msg}]", msg, f.loc(), derived=t)
        ua = UnitAnalysis(useeds())
        ua.unit(east)
        ua.unit(north)
        for msg, t in ua.problems:
            ctx.bad("R09.1", f"wam_tail_stress[units: {msg}]", msg, f.loc(), derived=t)
        if not ua.problems:
            ctx.ok("R09.1", "wam_tail_stress[units]", f"{ua.checked} angle operations unit-consistent", f.loc())
    else:
        ctx.unsure("R09.2", "wam_tail_stress", "does not return an (east, north) pair", f.loc())
    # wave supported stress components
    f = p.get_function(WB + "stress._wave_supported_stress_point")
    r = it.call_function(f, [P("wind_input"), DEPTH, GRID, E, wind(), Z0, tailfn, PAR], {}, None)
    if isinstance(r, tuple) and len(r) == 2:
        east, north = (T.strip_never(T.to_term(x)) for x in r)
        fa = FrameAnalysis(fseeds())
        te, tn = fa.ftype(east), fa.ftype(north)
        ctx.expect(te == CS("cos", 1) and tn == CS("sin", 1) and fa.is_pair(east, north), "R09.2",
                   "_wave_supported_stress_point[(east, north)]",
                   "resolved + tail stress: north == east with cos->sin", f.loc(), derived=f"east:{te} north:{tn}")
    else:
        ctx.unsure("R09.2", "_wave_supported_stress_point", "does not return a pair", f.loc())
    # 5. total stress: magnitude invariant, direction covariant in degrees
    f = p.get_function(WB + "stress._total_stress_point")
    r = it.call_function(f, [Z0, E, wind(), DEPTH, windfn, tailfn, GRID, PAR], {}, None)
    if isinstance(r, tuple) and len(r) == 2:
        check_term(ctx, "_total_stress_point[magnitude]", r[0], INV, f.loc())
        check_term(ctx, "_total_stress_point[direction]", r[1], ANG(1), f.loc(), want_unit=DEG)
        d = T.strip_never(T.to_term(r[1]))
        mods = [m for m in T.find_ops(d, "pymod") if m.args[1] == 360]
        outer = [m for m in mods if any(isinstance(x, sp.atan2) for x in T.subterms(m.args[0]))]
        ctx.expect(bool(outer), "R09.2", "_total_stress_point[direction wrap]",
                   "the direction is atan2(north, east) in degrees wrapped with % 360", f.loc(), derived=T.show(d, 200))
    else:
        ctx.unsure("R09.2", "_total_stress_point", "does not return (magnitude, direction)", f.loc())
    # tail-stress wrapper used by WindGeneration.tail_stress: direction in degrees
    f = p.get_function(WB + "stress._tail_supported_stress")
    r = it.call_function(f, [P("variance_density"), (P("wind_speed"), P("wind_dir"), "u10"), P("depths"), P("roughness"),
                             P("tail_fn"), GRID, PAR], {}, None)
    if isinstance(r, tuple) and len(r) == 2:
        ua = UnitAnalysis(useeds())
        u = ua.unit(T.strip_never(T.to_term(r[1])))
        for msg, t in ua.problems:
            ctx.bad("R09.1", f"_tail_supported_stress[units: {msg}]", msg, f.loc(), derived=t)
        ctx.expect(u == DEG and not ua.problems, "R09.1", "_tail_supported_stress[direction unit]",
                   "the reported tail-stress direction is atan2 converted to degrees before % 360", f.loc(), derived=u)
    else:
        ctx.unsure("R09.1", "_tail_supported_stress", "does not return (magnitude, direction)", f.loc())
    # roughness residual (stress balance) is invariant
    f = p.get_function(WB + "stress._stress_iteration_function")
    r = it.call_function(f, [P("log_z0"), E, wind(), DEPTH, windfn, tailfn, GRID, PAR, P("work")], {}, None)
    check_term(ctx, "_stress_iteration_function[residual]", r, INV, f.loc())
    # 6. dissipation weighted direction
    f = p.get_function(WB + "dissipation._bulk_dissipation_direction_point")
    r = it.call_function(f, [E, DEPTH, dissfn, GRID, PAR], {}, None)
    if isinstance(r, tuple) and len(r) == 2:
        check_term(ctx, "_bulk_dissipation_direction_point[direction]", r[0], ANG(1), f.loc(), want_unit=DEG)
        check_term(ctx, "_bulk_dissipation_direction_point[bulk]", r[1], INV, f.loc())
    else:
        ctx.unsure("R09.2", "_bulk_dissipation_direction_point", "does not return (direction, bulk)", f.loc())
    # 7. direction iteration of the inversion: delta invariant, update covariant
    f = p.get_function(WB + "wind_inversion._u10_from_bulk_rate_point")
    it2 = kernel_interp(p, {NR: "newton", WB + "stress._total_stress_point": "total_stress"})
    it2.hooks[WB + "stress._total_stress_point"] = lambda _it, fn, a, k, e, n: (P("stress_magnitude"), P("new_direction"))
    it2.call_function(f, [P("bulk"), E, P("u10_guess"), P("direction"), DEPTH, GRID, PAR, windfn, tailfn, P("dEdt"), True], {}, None)
    loops = [L for L in it2.loops if L.func == f.qualname]
    # the iterated direction is the loop-carried local that starts as the caller's direction guess (whatever it is called)
    dcar = [v for v in (loops[0].carried.values() if len(loops) == 1 else []) if v[1] is not None and T.to_term(v[0]) == P("direction")]
    if len(loops) != 1 or len(dcar) != 1:
        ctx.unsure("R09.2", "_u10_from_bulk_rate_point[direction iteration]", "direction iteration loop not found", f.loc())
    else:
        orig, sym, fin = dcar[0]
        fin = T.to_term(fin).xreplace({sym: P("direction")}) if sym is not None else T.to_term(fin)
        check_term(ctx, "_u10_from_bulk_rate_point[direction update]", fin, ANG(1), loops[0].loc, want_unit=DEG)
    ctx.absorb(it)
    ctx.absorb(it2)
    ctx.notes.extend((it.unknown_notes + it2.unknown_notes)[:6])
    # ---- R09.3 no unsynchronised derived state on the objects this property queries (shared rule, see statecache.py)
    from ..statecache import instance_memo_rule as _memo, positive_example as _memo_pos
    _memo(ctx, "R09.3", [p.get_class("wavephysics.balance.source_term.SourceTerm"), p.get_class("wavephysics.balance.balance.SourceTermBalance")], "source-term classes")
    _memo_pos(ctx, "R09.3")
    ctx.require_count("R09.3", 2)
    # ---- R09.4 the wind direction estimate turns with the sea: the direction iteration must step along the shortest arc wherever
    # north lies between the old and the new direction (shared rule, see c11.direction_step_rule)
    from .c11 import direction_step_rule
    direction_step_rule(ctx, "R09.4")
    ctx.require_count("R09.4", 1)
    ctx.require_count("R09.1", 9)
    ctx.require_count("R09.2", 11)
