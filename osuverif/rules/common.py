"""Shared vocabulary of the spectrum rules: receivers, canonical atoms and reference formulas."""
from __future__ import annotations

import sympy as sp

from .. import terms as T
from ..terms import op, Str, P, AND, CMP, fname
from ..interp import Interp, Obj, make_self

SPEC = "wavespectra.spectrum."
CLS_1D = SPEC + "FrequencySpectrum"
CLS_2D = SPEC + "FrequencyDirectionSpectrum"
CLS_WS = SPEC + "WaveSpectrum"
WRAPDIFF = "tools.math.wrapped_difference"

DS = P("ds")
FMIN = P("fmin")
FMAX = P("fmax")
OO = sp.oo


def dsv(name: str) -> sp.Basic:
    return op("item", DS, Str(name))


F = dsv("frequency")
E = dsv("variance_density")
D = dsv("direction")


def spectrum_self(program, cls_qual: str) -> Obj:
    return make_self(program, cls_qual, fields={"dataset": DS})


def spec_interp(program, opaque=None) -> Interp:
    o = {WRAPDIFF: "wrapdiff"}
    if opaque:
        o.update(opaque)
    return Interp(program, opaque=o)


def band(fmin=FMIN, fmax=FMAX) -> sp.Basic:
    return AND(CMP("ge", F, fmin), CMP("lt", F, fmax))


def SEL(x, idx):
    return op("sel", x, idx)


def TRAPZ_F(y):
    return op("trapz", y, Str("frequency"))


def FILL0(x):
    return op("fillna", x, sp.Integer(0))


def norm_sel(t: sp.Basic) -> sp.Basic:
    """Selection erasure: ``x.isel({"frequency": i})``, ``x[i]`` and ``x[{"frequency": i}]`` denote the same
    selection along the frequency axis when ``i`` is a mask/index derived from the frequency grid; the
    integration coordinate of a trapezoid may be spelled as the axis name or as the (selected) frequency
    coordinate itself."""

    def fn(n):
        f = fname(n)
        if f == "isel" and n.args[1] == Str("frequency"):
            return op("sel", n.args[0], n.args[2])
        if f == "item" and not T.is_str_symbol(n.args[1]) and not n.args[1].is_number and fname(n.args[1]) != "slc" \
                and not isinstance(n.args[1], sp.Tuple):
            return op("sel", n.args[0], n.args[1])
        if f == "trapz":
            x = n.args[1]
            if x == F or (fname(x) == "sel" and x.args[0] == F):
                return op("trapz", n.args[0], Str("frequency"))
        return None

    t = T.rewrite(t, fn)

    # an element-wise function of arrays selected at an index is that function of the selected arrays:
    # (atan2(b, a) * 180/pi)[i] == atan2(b[i], a[i]) * 180/pi
    def push(n):
        if fname(n) == "sel" and len(n.args) == 2:
            inner, idx = n.args
            if isinstance(inner, (sp.Add, sp.Mul)) or isinstance(inner, (sp.atan2, sp.Pow, sp.cos, sp.sin, sp.exp, sp.log, sp.Abs)) \
                    or fname(inner) == "pymod":
                new_args = [a if (a.is_number or not a.has(DS)) else push(op("sel", a, idx)) or op("sel", a, idx) for a in inner.args]
                try:
                    return inner.func(*new_args)
                except Exception:
                    return None
        return None
    return T.rewrite(t, push)


def moment_ref(e1d, n, fmin=FMIN, fmax=FMAX):
    R = band(fmin, fmax)
    return TRAPZ_F(FILL0(SEL(e1d, R) * SEL(F, R) ** n))


def definite(interp: Interp, t) -> bool:
    if T.has_unknown(t):
        return False
    names = {fname(s) for s in T.subterms(T.to_term(t))}
    return not (names & interp.unmodelled)


# ---------------------------------------------------------------------------- direction formulas
def mean_direction_ref(a, b):
    return sp.atan2(b, a) * 180 / sp.pi


def spread_ref(a, b):
    return sp.sqrt(2 - 2 * sp.sqrt(a**2 + b**2)) * 180 / sp.pi


def weighted_ref(prop, e1d, fmin=FMIN, fmax=FMAX):
    R = band(fmin, fmax)
    return TRAPZ_F(SEL(FILL0(prop), R) * SEL(e1d, R)) / moment_ref(e1d, sp.Integer(0), fmin, fmax)


def peak_index_ref(e1d, fmin=FMIN, fmax=FMAX):
    return op("argmax", op("where", band(fmin, fmax), e1d, sp.Integer(0)), Str("frequency"))


def at_index(x, idx):
    return op("sel", x, idx)


def depth_ref():
    d = dsv("depth")
    return op("where", op("isnull", d), sp.oo, d)


# ---------------------------------------------------------------------------- dispersion
LD = "wavetheory.lineardispersion."


def identity_hooks(it: Interp):
    """atleast_1d is value preserving (shape only)."""
    it.hooks["wavetheory.wavetheory_tools.atleast_1d"] = lambda _it, f, a, k, e, n: a[0]
    it.hooks["wavetheory.wavetheory_tools.atleast_2d"] = lambda _it, f, a, k, e, n: a[0]
    return it


def omega_ref(k, d, g):
    return sp.sqrt(g * k * sp.tanh(k * d))


def ratio_ref(k, d):
    kd = k * d
    return op("where", CMP("gt", kd, sp.Integer(5)), sp.Rational(1, 2), sp.Rational(1, 2) + kd / sp.sinh(2 * kd))


def erase_broadcast(t):
    """x * ones(shape) only broadcasts; the values are x."""
    def shape_only(ix):
        if isinstance(ix, sp.Tuple):
            return all(shape_only(x) for x in ix.args)
        return ix in (T.ELLIPSIS_T, T.NONE_T) or (fname(ix) == "slc" and all(a == T.NONE_T for a in ix.args))

    def fn(n):
        if fname(n) == "ones":
            return sp.Integer(1)
        # np.repeat(x, n, axis=-1) of a value that was given a trailing length-one axis: x for every position along that axis
        if fname(n) in ("repeat", "ext_numpy_repeat") and len(n.args) == 3 and n.args[2] == sp.Tuple(Str("axis"), sp.Integer(-1)):
            return n.args[0]
        if fname(n) in ("broadcast_to", "ext_numpy_broadcast_to") and n.args:
            return n.args[0]
        # buf = np.empty(shape); buf[...] = x   -- the values are x, broadcast into the buffer
        if fname(n) == "store" and len(n.args) == 3 and fname(n.args[0]) in ("empty", "zeros", "ones", "full") \
                and n.args[1] == T.ELLIPSIS_T:
            return n.args[2]
        # x[..., None], x[None, :]: new axes only
        if fname(n) == "item" and len(n.args) == 2 and isinstance(n.args[1], sp.Tuple) and shape_only(n.args[1]) \
                and any(a == T.NONE_T for a in n.args[1].args):
            return n.args[0]
        return None
    return T.rewrite(t, fn)


# shape knowledge for the array identity test (arrayeval): coordinate vectors are 1-d
from .. import arrayeval as _ae
_ae.HINTS.update({F: 1, dsv("direction"): 1})
