"""C01 -- spectral moments and integral parameters equal their defining integrals."""
from __future__ import annotations

import sympy as sp

from .. import terms as T
from ..terms import P
from .. import envres
from .common import (CLS_1D, CLS_2D, spectrum_self, spec_interp, moment_ref, norm_sel, band, FMIN, FMAX, OO)

EXPLANATION = (
    "TermFlow (abstract interpretation over a term domain with inlining of resolved callees) evaluates the public "
    "methods frequency_moment/m0/m1/m2/hm0/tm01/tm02 and the three alias properties on both concrete spectrum "
    "classes with symbolic dataset, band limits and power, and compares the derived term, after algebraic "
    "normalisation, with the defining formula trapz_f(fillna0(e[band] * f[band]**n)), band = (f>=fmin)&(f<fmax), "
    "e = the class's own directionally-integrated density. Decided: operand roles, exponent, mask, NaN fill before "
    "integration, trapezoid operator, constants 4/sqrt/ratios, argument forwarding. Not decided: the numerical "
    "consequences (linearity, Tm02<=Tm01, bounds), which follow from these clauses and the trusted trapezoid."
)


def run(ctx):
    ctx.explanation = EXPLANATION
    p = ctx.program
    ctx.trust("xarray DataArray.integrate(coord) == trapezoidal rule along coord", "DataArray.fillna(v)",
              "DataArray.isel / boolean-mask __getitem__ select along the frequency axis",
              "sympy normal form: associativity, commutativity, exact rationals")
    power = P("power")
    for cls in (CLS_1D, CLS_2D):
        cname = cls.split(".")[-1]
        it = spec_interp(p)
        me = spectrum_self(p, cls)
        e1d = it.get_attr(me, "e", None)

        def call(name, *args):
            f = p.get_method(cls, name)
            if f.is_property:
                return it.call_function(f, [me], {}, None), f
            return it.call_function(f, [me] + list(args), {}, None), f

        # R01.2 band predicate
        if p.get_class(cls).find_method("_range") is not None:  # private helper, checked when present
            r, f = call("_range", FMIN, FMAX)
            ctx.equiv("R01.2", f"{cname}._range", r, band(), f.loc(), "half-open band fmin <= f < fmax", interp=it)

        # R01.1 frequency moment
        r, f = call("frequency_moment", power, FMIN, FMAX)
        ctx.equiv("R01.1", f"{cname}.frequency_moment", r, moment_ref(e1d, power), f.loc(),
                  norm=norm_sel, interp=it)
        # default band is [0, inf)
        r, f = call("frequency_moment", power)
        ctx.equiv("R01.1", f"{cname}.frequency_moment[default band]", r,
                  moment_ref(e1d, power, sp.Integer(0), OO), f.loc(), norm=norm_sel, interp=it)

        M = lambda n, lo=FMIN, hi=FMAX: moment_ref(e1d, sp.Integer(n), lo, hi)  # noqa: E731
        refs = {
            "m0": M(0), "m1": M(1), "m2": M(2),
            "hm0": 4 * sp.sqrt(M(0)),
            "tm01": M(0) / M(1),
            "tm02": sp.sqrt(M(0) / M(2)),
        }
        for name, ref in refs.items():
            r, f = call(name, FMIN, FMAX)
            ctx.equiv("R01.3", f"{cname}.{name}", r, ref, f.loc(), norm=norm_sel, interp=it)
        Z = sp.Integer(0)
        drefs = {
            "significant_waveheight": 4 * sp.sqrt(M(0, Z, OO)),
            "mean_period": M(0, Z, OO) / M(1, Z, OO),
            "zero_crossing_period": sp.sqrt(M(0, Z, OO) / M(2, Z, OO)),
        }
        for name, ref in drefs.items():
            r, f = call(name)
            ctx.equiv("R01.3", f"{cname}.{name}", r, ref, f.loc(), norm=norm_sel, interp=it)
        for name in ("m0", "m1", "m2", "hm0", "tm01", "tm02"):
            r, f = call(name)
            ref = {"m0": M(0, Z, OO), "m1": M(1, Z, OO), "m2": M(2, Z, OO), "hm0": 4 * sp.sqrt(M(0, Z, OO)),
                   "tm01": M(0, Z, OO) / M(1, Z, OO), "tm02": sp.sqrt(M(0, Z, OO) / M(2, Z, OO))}[name]
            ctx.equiv("R01.3", f"{cname}.{name}[default band]", r, ref, f.loc(), norm=norm_sel, interp=it)

        envres.check_ext_used(ctx, it, "R01.4", cname)
        ctx.absorb(it)
        if it.unknown_notes:
            ctx.notes.extend(it.unknown_notes[:10])
    # ---- R01.5 the 2-D class reaches the same moments through e = sum_d E*dtheta: bin widths and e (shared with C02)
    from .c02 import direction_rules
    with ctx.renamed({"R02.1": "R01.5", "R02.2": "R01.5", "R02.3": "R01.5"}):
        direction_rules(ctx)
    ctx.require_count("R01.5", 8)
    # ---- R01.6 no unsynchronised copy of the density (or anything derived from it) is kept on a spectrum object
    from ..statecache import instance_memo_rule, positive_example
    instance_memo_rule(ctx, "R01.6", [p.get_class(CLS_1D), p.get_class(CLS_2D)], "spectrum classes")
    positive_example(ctx, "R01.6")
    ctx.require_count("R01.6", 2)
    # ---- R01.7 "moments of a sum are sums of moments", "scaling by c scales every moment": the arithmetic that builds the sum / the
    # scaled spectrum leaves its operands as they were (effect analysis shared with C15) - otherwise the law fails on the second use
    from .c15 import operand_rule
    tg = []
    for cq in (CLS_1D, CLS_2D):
        c = p.get_class(cq)
        for name in ("__add__", "__sub__", "__mul__", "__rmul__", "__neg__", "__truediv__", "multiply", "copy", "frequency_moment",
                     "m0", "m1", "m2", "hm0", "tm01", "tm02", "e"):
            m = c.find_method(name)
            if m is not None:
                tg.append((m, c))
    operand_rule(ctx, "R01.7", p, tg)
    ctx.require_count("R01.7", 16)
    ctx.require_count("R01.1", 4)
    ctx.require_count("R01.3", 30)
