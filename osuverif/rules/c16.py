"""C16 -- synthetic time series: sample count, scale, seeding, amplitude and transfer factors."""
from __future__ import annotations

import sympy as sp

from .. import terms as T
from ..terms import P, op, Str, fname, NONE_T
from ..interp import Interp, Obj
from ..callgraph import CallGraph
from .. import envres, binding
from .common import CLS_1D, CLS_2D, spectrum_self, spec_interp

TS = "wavespectra.timeseries."
EXPLANATION = (
    "TermFlow evaluates surface_timeseries/create_fourier_amplitudes for all six components and both spectrum "
    "classes (frequency interpolation replaced by a fresh symbolic spectrum on the requested grid). Decided: "
    "(1) symbolic sample count: the time axis has linspace-num = nfft samples and the inverse real FFT returns n samples "
    "if n is given, else 2*(m-1) with m the number of FFT-bin frequencies handed to the amplitude builder; the two "
    "lengths and the factor multiplying irfft must be the same term; the time axis ends at nfft/fs (spacing 1/fs); "
    "(2) phases come from default_rng(seed) with the caller's seed, no global-state RNG on the path; (3) amplitudes "
    "== sqrt(area*E/2)*exp(i*phase)*factor with area = df (1-D) or df*dtheta (2-D) of the resampled spectrum and the "
    "transfer-factor table {z:1, w:i*omega, u:omega*cos, v:omega*sin, x:-i*cos, y:-i*sin} in rad/s and rad, 2-D "
    "amplitudes summed over direction; (4) the frequency grid handed to interpolate_frequency is the FFT-bin grid "
    "linspace(0, fs/2, nfft/2, endpoint=False); (5) no xarray.Dataset(<Dataset>) wrapper on the reachable paths. "
    "Not decided: the variance identities themselves and that different seeds differ."
)


def norm_len(t):
    def fn(n):
        if fname(n) == "floordiv" and n.args[1] == 2:
            a = n.args[0]
            if isinstance(a, sp.Mul) and a.args[0] == 2 and len(a.args) == 2 and fname(a.args[1]) == "floordiv":
                return a.args[1]
        return None
    return T.rewrite(T.to_term(t), fn)


def run(ctx):
    ctx.explanation = EXPLANATION
    p = ctx.program
    ctx.trust("np.fft.irfft(a, n): n output samples, default n = 2*(len(a)-1), includes the 1/n factor",
              "np.linspace(a, b, num, endpoint=False): num samples spaced (b-a)/num",
              "np.random.default_rng(seed).uniform: stream fully determined by seed")
    f_ts = p.get_function(TS + "surface_timeseries")
    f_amp = p.get_function(TS + "create_fourier_amplitudes")
    fs, N, seed = P("fs"), P("N"), P("seed")
    for cls in (CLS_1D, CLS_2D):
        cname = cls.split(".")[-1]
        it = spec_interp(p)
        rec = {}
        DSI = P("dsi")

        def hook(_it, f, a, k, e, n, cls=cls):
            rec["freqs"] = a[1] if len(a) > 1 else k.get("new_frequencies")
            rec["n"] = rec.get("n", 0) + 1
            return Obj(p.get_class(cls), {"dataset": DSI}, "resampled")

        it.hooks["wavespectra.spectrum.WaveSpectrum.interpolate_frequency"] = hook
        it.hooks["wavespectra.spectrum.FrequencySpectrum.interpolate_frequency"] = hook
        me = spectrum_self(p, cls)
        res = Obj(p.get_class(cls), {"dataset": DSI}, "resampled")
        r = it.call_function(f_ts, ["z", fs, N, me, seed], {}, None)
        if not (isinstance(r, tuple) and len(r) == 2):
            ctx.unsure("R16.1", f"surface_timeseries[{cname}]", "does not return (time, series)", f_ts.loc(), derived=T.to_term(r))
            continue
        time_t, series = T.to_term(r[0]), T.to_term(r[1])
        irf = T.find_ops(series, "irfft")
        time_t = _arange_as_linspace(time_t)
        if fname(time_t) == "arange" and len(time_t.args) == 3 and not time_t.args[2].is_Integer:
            a0, a1_, st_ = time_t.args
            ctx.bad("R16.1", f"surface_timeseries[{cname}][sample count]",
                    "the time axis is built with np.arange and a non-integer step: its length is ceil((stop-start)/step) evaluated in "
                    "floating point and can be one more than the number of samples of the series for some sampling rates",
                    f_ts.loc(), derived=op("fpceil", (a1_ - a0) / st_), required="np.linspace(..., num=<number of samples>)")
            continue
        if fname(time_t) != "linspace" or len(irf) != 1 or "freqs" not in rec or fname(T.to_term(rec["freqs"])) != "linspace":
            ctx.unsure("R16.1", f"surface_timeseries[{cname}]", "time axis / inverse FFT / frequency grid not in the modelled shape",
                       f_ts.loc(), derived=series)
            continue
        n_time = norm_len(time_t.args[2])
        freqs = T.to_term(rec["freqs"])
        m = norm_len(freqs.args[2])
        n_arg = irf[0].args[1]
        n_out = norm_len(n_arg) if n_arg != NONE_T else norm_len(2 * (m - 1))
        scale = norm_len(sp.simplify(series / irf[0]))
        tag = f"surface_timeseries[{cname}]"
        ctx.equiv("R16.1", tag + "[sample count]", n_out, n_time, f_ts.loc(),
                  "inverse FFT output length equals the number of time samples", interp=it)
        ctx.equiv("R16.1", tag + "[scale]", scale, n_out, f_ts.loc(),
                  "factor multiplying irfft equals its output length (undoes numpy's 1/n)", interp=it)
        ctx.equiv("R16.1", tag + "[time axis]", time_t, op("linspace", sp.Integer(0), n_time / fs, n_time, False),
                  f_ts.loc(), "nfft samples spaced 1/fs starting at 0", norm=norm_len, interp=it)
        ctx.equiv("R16.4", tag + "[fft-bin grid]", freqs, op("linspace", sp.Integer(0), fs / 2, m, False), f_ts.loc(),
                  "frequencies handed to the resampler are the FFT bins", norm=norm_len, interp=it)
        ctx.equiv("R16.4", tag + "[fft-bin count]", 2 * m, n_time, f_ts.loc(), "nfft is twice the number of bins", interp=it)
        # R16.2/3 amplitudes
        fstep = T.to_term(it.get_attr(res, "frequency_step", None))
        rf = T.to_term(it.get_attr(res, "radian_frequency", None))
        Evar = T.to_term(it.get_attr(res, "variance_density", None))
        shape = T.to_term(it.call_function(p.get_method(cls, "spectral_shape"), [res], {}, None))
        phases = 2 * sp.pi * op("random01", op("rng", seed), shape)       # uniform(0, 2*pi, shape) in its canonical form
        if cls == CLS_1D:
            area, w, th = fstep, rf, sp.Integer(0)
        else:
            dstep = T.to_term(it.get_attr(res, "direction_step", None))
            rd = T.to_term(it.get_attr(res, "radian_direction", None))
            col = sp.Tuple(op("slc", NONE_T, NONE_T, NONE_T), NONE_T)
            row = sp.Tuple(NONE_T, op("slc", NONE_T, NONE_T, NONE_T))
            area = op("item", fstep, col) * op("item", dstep, row)
            w = op("item", rf, col)
            th = op("item", rd, row)
        table = {"z": sp.Integer(1), "w": sp.I * w, "u": w * sp.cos(th), "v": w * sp.sin(th),
                 "x": -sp.I * sp.cos(th), "y": -sp.I * sp.sin(th)}
        for comp, factor in table.items():
            n0 = rec.get("n", 0)
            a = it.call_function(f_amp, [comp, me, P("frequencies"), seed], {}, None)
            ref = sp.sqrt(area * Evar / 2) * sp.exp(sp.I * phases) * factor
            if cls == CLS_2D:
                ref = op("sum", ref, sp.Integer(-1))
            ctx.equiv("R16.3", f"create_fourier_amplitudes[{cname},{comp}]", a, ref, f_amp.loc(),
                      "sqrt(area*E/2)*exp(i*phase)*transfer factor", interp=it)
            ctx.expect(rec.get("n", 0) == n0 + 1 and T.to_term(rec["freqs"]) == P("frequencies"), "R16.4",
                       f"create_fourier_amplitudes[{cname},{comp}][resampling]",
                       "the spectrum is resampled onto the given frequencies exactly once", f_amp.loc())
            at = T.to_term(a)
            glob = [s for s in T.subterms(at) if (fname(s) or "").startswith("global_random_")]
            rngs = T.find_ops(at, "rng")
            ok = (not glob) and len(rngs) == 1 and rngs[0].args[0] == seed if comp not in ("v", "y") or cls == CLS_2D else None
            if ok is not None:
                ctx.expect(ok, "R16.2", f"create_fourier_amplitudes[{cname},{comp}][seed]",
                           "phases drawn from default_rng(seed) with the caller's seed; no global RNG state", f_amp.loc(),
                           derived=sp.Tuple(*rngs) if rngs else "no generator")
        envres.check_ext_used(ctx, it, "R16.5", cname)
        ctx.absorb(it)
        ctx.notes.extend(it.unknown_notes[:5])
    cg = CallGraph(p)
    reach = [f for f in cg.reachable([f_ts, f_amp]) if f.module.name.startswith(("wavespectra", "interpolate"))]
    binding.dataset_wrap_rule(ctx, "R16.6", reach)
    from ..mini import must_fire
    must_fire(ctx, "R16.6", {"m.py": "import xarray\n\ndef g() -> xarray.Dataset:\n    return xarray.Dataset()\n\n"
                                     "def f():\n    return xarray.Dataset(g())\n"},
              lambda sub, mp: binding.dataset_wrap_rule(sub, "R16.6", mp.all_functions), "xarray.Dataset(<Dataset>)")
    # ---- R16.7 direction bin widths and directional integration of the 2-D class (shared with C02)
    from .c02 import direction_rules as _dir_rules
    with ctx.renamed({"R02.1": "R16.7", "R02.2": "R16.7", "R02.3": "R16.7"}):
        _dir_rules(ctx)
    ctx.require_count("R16.7", 8)
    # ---- R16.8 no unsynchronised derived state on the objects this property queries (shared rule, see statecache.py)
    from ..statecache import instance_memo_rule as _memo, positive_example as _memo_pos
    _memo(ctx, "R16.8", [p.get_class("wavespectra.spectrum.FrequencySpectrum"), p.get_class("wavespectra.spectrum.FrequencyDirectionSpectrum")], "spectrum classes")
    _memo_pos(ctx, "R16.8")
    # ... and none at module level in the generator (a result kept across calls must be keyed on every argument it depends on)
    from ..statecache import module_memo_rule as _mmemo, positive_module_example as _mmemo_pos
    _mmemo(ctx, "R16.8", [p.modules["wavespectra.timeseries"]], "time-series generator")
    _mmemo_pos(ctx, "R16.8")
    ctx.require_count("R16.8", 4)
    ctx.require_count("R16.1", 6)
    ctx.require_count("R16.2", 10)
    ctx.require_count("R16.3", 12)
    ctx.require_count("R16.4", 16)
    ctx.require_count("R16.6", 1)


def _arange_as_linspace(t):
    """scale * arange(n) (integer count, unit step) is the grid linspace(0, n*scale, n, endpoint=False)"""
    if isinstance(t, sp.Mul):
        ar = [a for a in t.args if fname(a) == "arange"]
        if len(ar) == 1:
            scale = t / ar[0]
            a = ar[0].args
            n = None
            if len(a) == 1:
                n = a[0]
            elif len(a) == 3 and a[0] == 0 and a[2] == 1:
                n = a[1]
            if n is not None and not T.find_ops(scale, "arange"):
                return op("linspace", sp.Integer(0), n * scale, n, False)
    return t
