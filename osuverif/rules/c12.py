"""C12 -- equilibrium-range wind estimate: closed form and direction conventions."""
from __future__ import annotations

import sympy as sp

from .. import terms as T
from ..terms import P, op, Str, CMP, fname, NONE_T
from ..interp import DatasetVal, Interp
from .. import envres
from .common import CLS_1D, CLS_2D, spectrum_self, spec_interp, norm_sel, F, E, dsv

WE = "wavephysics.windestimate."
EXPLANATION = (
    "TermFlow evaluates friction_velocity, estimate_u10_from_spectrum (both direction conventions, 1-D and 2-D "
    "input), equilibrium_range_values (peak method) and charnock_roughness_length with symbolic parameters and "
    "compares with u* = 8*pi^3*E_eq/(4*g*I*beta), E_eq/a1/b1 selected at argmax_f(fillna0(E*f^power)), direction = "
    "(180/pi*atan2(b1,a1)) mod 360, z0 = alpha*u*^2/g + where(u*>0, c*nu/u*, 0), U10 = u*/kappa*ln(10/z0), "
    "coming-from/clockwise-north = (270 - direction) mod 360, other literal -> identity, anything else raises; the "
    "caller's parameters land in the right slots of friction_velocity; a 2-D input is first reduced with "
    "as_frequency_spectrum(). Mean method (R12.5): clipped windows of number_of_bins bins of E*f^power, criterion = squared coefficient of variation (level-free), one slot per window, selection argmin + scan start, e/a1/b1 = mean over the selected bins. "
    "Not decided: that floating point selects exactly c for a c*f^-4 range, and the scaling relations."
)


def run(ctx):
    ctx.explanation = EXPLANATION
    p = ctx.program
    ctx.trust("DataArray.where(cond, other)", "argmax(dim) first maximum", "Python % on floats: result has the sign of the divisor")
    fmax, power, I, beta, kappa, g, nb = (P(n) for n in ("fmax", "power", "I", "beta", "kappa", "g", "nbins"))
    alpha, cv, nu, g2 = P("alpha"), P("cv"), P("nu"), P("g2")
    f_fv = p.get_function(WE + "friction_velocity")
    f_u10 = p.get_function(WE + "estimate_u10_from_spectrum")
    f_eq = p.get_function(WE + "equilibrium_range_values")

    def refs(e_var, a1_var, b1_var):
        scaled = op("fillna", e_var * F**power, sp.Integer(0))
        idx = op("argmax", scaled, Str("frequency"))
        sel = lambda x: op("sel", x, idx)  # noqa: E731
        ustar = 8 * sp.pi**3 * sel(scaled) / (4 * g * I * beta)
        direction = op("pymod", 180 / sp.pi * sp.atan2(sel(b1_var), sel(a1_var)), sp.Integer(360))
        return sel(scaled), sel(a1_var), sel(b1_var), ustar, direction

    for cls in (CLS_1D, CLS_2D):
        cname = cls.split(".")[-1]
        it = spec_interp(p)
        me = spectrum_self(p, cls)
        if cls == CLS_1D:
            ev, av, bv = E, dsv("a1"), dsv("b1")
            spec1d = me
        else:
            ev, av, bv = (it.get_attr(me, n, None) for n in ("e", "a1", "b1"))
            spec1d = it.call_function(p.get_method(CLS_2D, "as_frequency_spectrum"), [me], {}, None)
        e_ref, a_ref, b_ref, ustar_ref, dir_ref = refs(ev, av, bv)
        if cls == CLS_1D:
            # R12.3 peak selection
            r = it.call_function(f_eq, [me, "peak", fmax, power, nb], {}, None)
            if isinstance(r, tuple) and len(r) == 3:
                for nm, got, want in zip(("e", "a1", "b1"), r, (e_ref, a_ref, b_ref)):
                    ctx.equiv("R12.3", f"equilibrium_range_values[peak].{nm}", got, want, f_eq.loc(),
                              "selected at argmax_f(fillna0(E*f^power))", norm=norm_sel, interp=it)
            else:
                ctx.unsure("R12.3", "equilibrium_range_values[peak]", "does not return (e, a1, b1)", f_eq.loc(), derived=T.to_term(r))
            # R12.1 closed form
            r = it.call_function(f_fv, [me, "peak", fmax, power, I, beta, g, nb], {}, None)
            if isinstance(r, DatasetVal) and "friction_velocity" in r.items and "direction" in r.items:
                ctx.equiv("R12.1", "friction_velocity[u*]", r.items["friction_velocity"], ustar_ref, f_fv.loc(),
                          "u* == 8*pi^3*E_eq/(4*g*I*beta)", norm=norm_sel, interp=it)
                ctx.equiv("R12.1", "friction_velocity[direction]", r.items["direction"], dir_ref, f_fv.loc(),
                          "direction == (180/pi*atan2(b1,a1)) mod 360", norm=norm_sel, interp=it)
            else:
                ctx.unsure("R12.1", "friction_velocity", "result is not a dataset with friction_velocity and direction",
                           f_fv.loc(), derived=T.to_term(r))
        kwargs = {"charnock_constant": alpha, "viscous_constant": cv, "air_kinematic_viscosity": nu,
                  "gravitational_acceleration": g2}
        z0_ref = alpha * ustar_ref**2 / g2 + op("where", CMP("gt", ustar_ref, sp.Integer(0)), cv * nu / ustar_ref, sp.Integer(0))
        u10_ref = ustar_ref / kappa * sp.log(10 / z0_ref)
        for conv, dref in (("going_to_counter_clockwise_east", dir_ref),
                           ("coming_from_clockwise_north", op("pymod", 270 - dir_ref, sp.Integer(360)))):
            r = it.call_function(f_u10, [me, "peak", fmax, power, I, beta, kappa, g, nb, conv], dict(kwargs), None)
            tag = f"estimate_u10_from_spectrum[{cname},{conv}]"
            if not isinstance(r, DatasetVal) or not {"u10", "direction", "friction_velocity"} <= set(
                    k for k in r.items if isinstance(k, str)):
                ctx.unsure("R12.2", tag, "result lacks u10/direction/friction_velocity", f_u10.loc(), derived=T.to_term(r))
                continue
            ctx.equiv("R12.2", tag + ".friction_velocity", r.items["friction_velocity"], ustar_ref, f_u10.loc(),
                      "parameters forwarded to the right slots; 2-D input reduced first", norm=norm_sel, interp=it)
            ctx.equiv("R12.2", tag + ".u10", r.items["u10"], u10_ref, f_u10.loc(),
                      "u10 == u*/kappa*ln(10/z0), z0 Charnock of u*", norm=norm_sel, interp=it)
            ctx.equiv("R12.2", tag + ".direction", r.items["direction"], dref, f_u10.loc(),
                      "convention switch (270 - dir) mod 360 only for coming_from_clockwise_north", norm=norm_sel, interp=it)
        # unknown convention raises
        # (the raise may sit in a helper the convention switch was moved to: compare with a call that names a known convention)
        n0 = len(it.raises)
        it.call_function(f_u10, [me, "peak", fmax, power, I, beta, kappa, g, nb, "going_to_counter_clockwise_east"], {}, None)
        n_known = len(it.raises) - n0
        n0 = len(it.raises)
        r_unknown = it.call_function(f_u10, [me, "peak", fmax, power, I, beta, kappa, g, nb, "some_other_convention"], {}, None)
        new = it.raises[n0:] if len(it.raises) - n0 > n_known else []
        ctx.expect(bool(new), "R12.2", f"estimate_u10_from_spectrum[{cname},unknown convention]",
                   "an unknown direction convention raises instead of returning silently", f_u10.loc())
        # keyword call with defaults: default method peak, kappa 0.4, I 2.5, beta 0.012, g 9.81
        if cls == CLS_1D:
            r = it.call_function(f_u10, [me], {}, None)
            if isinstance(r, DatasetVal) and "friction_velocity" in r.items:
                d_ustar = ustar_ref.subs({I: sp.Rational(5, 2), beta: sp.Rational(12, 1000), g: sp.Rational("9.81"),
                                          power: sp.Integer(4)})
                ctx.equiv("R12.2", "estimate_u10_from_spectrum[defaults].friction_velocity",
                          r.items["friction_velocity"], d_ustar, f_u10.loc(), norm=norm_sel, interp=it)
        envres.check_ext_used(ctx, it, "R12.4", cname)
        ctx.absorb(it)
        ctx.notes.extend(it.unknown_notes[:5])

    mean_method_rules(ctx, p, f_eq, fmax, power, nb)

    # Charnock relation on its own (shared with C10)
    it = Interp(p)
    fch = p.get_function("wavephysics.roughness.charnock_roughness_length")
    u = P("ustar")
    r = it.call_function(fch, [u], {"charnock_constant": alpha, "viscous_constant": cv, "air_kinematic_viscosity": nu,
                                    "gravitational_acceleration": g2}, None)
    ctx.equiv("R12.2", "charnock_roughness_length", r,
              alpha * u**2 / g2 + op("where", CMP("gt", u, sp.Integer(0)), cv * nu / u, sp.Integer(0)), fch.loc(), interp=it)
    ctx.absorb(it)
    # ---- R12.6 direction bin widths and directional integration of the 2-D class (shared with C02)
    from .c02 import direction_rules as _dir_rules
    with ctx.renamed({"R02.1": "R12.6", "R02.2": "R12.6", "R02.3": "R12.6"}):
        _dir_rules(ctx)
    ctx.require_count("R12.6", 8)
    # ---- R12.7 no unsynchronised derived state on the objects this property queries (shared rule, see statecache.py)
    from ..statecache import instance_memo_rule as _memo, positive_example as _memo_pos
    _memo(ctx, "R12.7", [p.get_class("wavespectra.spectrum.FrequencySpectrum"), p.get_class("wavespectra.spectrum.FrequencyDirectionSpectrum")], "spectrum classes")
    _memo_pos(ctx, "R12.7")
    ctx.require_count("R12.7", 2)
    ctx.require_count("R12.1", 2)
    ctx.require_count("R12.2", 16)
    ctx.require_count("R12.3", 3)
    ctx.require_count("R12.5", 8)


def mean_method_rules(ctx, p, f_eq, fmax, power, nb):
    """R12.5: the minimum-variance window of the mean method - criterion, windows, selection and average"""
    it = spec_interp(p, {CLS_1D.rsplit(".", 1)[0] + ".WaveSpectrum.number_of_spectra": "nspec"})
    me = spectrum_self(p, CLS_1D)
    r = it.call_function(f_eq, [me, "mean", fmax, power, nb], {}, None)
    tag = "equilibrium_range_values[mean]"
    if not (isinstance(r, tuple) and len(r) == 3):
        ctx.unsure("R12.5", tag, "does not return (e, a1, b1)", f_eq.loc(), derived=T.to_term(r))
        return
    S = F**power * E
    terms = [T.to_term(x) for x in r]
    tabs = T.find_ops(terms[0], "tabulate")
    if len(tabs) != 1:
        ctx.unsure("R12.5", tag + "[criterion]", "running-window loop not summarised as one tabulation", f_eq.loc())
        return
    tab = tabs[0]
    lv = tab.args[3]
    nf = op("len", F)
    win = op("item", S, sp.Tuple(sp.Symbol("Ellipsis"), op("slc", lv, op("min", sp.Tuple(lv + nb, nf), NONE_T), NONE_T)))
    wins = [w for w in T.find_ops(tab.args[2], "item") if w.args[0] == S]
    if len(wins) == 1:
        win = wins[0]
    idx = win.args[1] if fname(win) == "item" else None
    sl = idx.args[-1] if isinstance(idx, sp.Tuple) and len(idx.args) else None
    okwin = len(wins) == 1 and fname(sl) == "slc" and sl.args[0] == lv and sl.args[2] == NONE_T \
        and T.equivalent(sl.args[1], op("min", sp.Tuple(lv + nb, nf), NONE_T)) == T.Verdict.EQUAL
    ctx.expect(okwin, "R12.5", tag + "[window]", "each candidate is the window of `number_of_bins` bins starting at the loop "
               "frequency (clipped to the grid) of E*f^power", f_eq.loc(), derived=T.show(win, 160))
    m = op("nanmean", win, Str("frequency"))
    ref = op("nanmean", (win - m)**2, Str("frequency")) / m**2
    ctx.equiv("R12.5", tag + "[criterion]", tab.args[2], ref, f_eq.loc(),
              "criterion == mean((W - mean W)^2)/mean(W)^2: the squared coefficient of variation of the window, which does not "
              "depend on the level of the spectrum, so windows are compared on relative flatness only", interp=it)
    # each window result lands in its own slot: the counter advances by one per window from zero
    slot = tab.args[1]
    okslot = isinstance(slot, sp.Tuple) and len(slot.args) == 2 and fname(slot.args[1]) == "loopprefix" \
        and slot.args[1].args[0] == 1 and slot.args[1].args[1] == lv
    rng0 = tab.args[4] if len(tab.args) > 4 else None
    if not okslot and isinstance(slot, sp.Tuple) and len(slot.args) == 2 and fname(rng0) == "range" and len(rng0.args) == 2:
        okslot = sp.expand(slot.args[1] - (lv - rng0.args[0])) == 0       # slot = window start - scan start
    ctx.expect(okslot, "R12.5", tag + "[criterion slots]", "window k of the scan is stored in slot k (a counter that starts at 0 "
               "and advances by one per window)", f_eq.loc(), derived=slot)
    rng = tab.args[4] if len(tab.args) > 4 else None
    i_min = op("argmin", sp.Abs(F), sp.Integer(-1))
    okr = fname(rng) == "range" and len(rng.args) == 2 and T.equivalent(rng.args[0], i_min) == T.Verdict.EQUAL
    ctx.expect(okr, "R12.5", tag + "[scan start]", "the scan starts at the bin closest to 0 Hz", f_eq.loc(), derived=rng)
    V = sp.Symbol("criterion_table")
    IM = sp.Symbol("selected_start")
    # every spectrum of the batch is averaged over *its own* window: the window starts are flattened in C order, so the batch
    # positions they are paired with must be enumerated in C order too - np.unravel_index(arange(n), shape) - and not, e.g., by a
    # flattened np.meshgrid (whose default 'xy' indexing walks the first two axes column-major)
    unr = [u for t in terms for u in T.find_ops(t, "unravel_index")]
    mesh = [u for t in terms for u in T.find_ops(t, "meshgrid")] + [u for t in terms for u in T.find_ops(t, "ext_numpy_meshgrid")]
    mesh = [u for u in mesh if not any(isinstance(a, sp.Tuple) and len(a.args) == 2 and a.args[0] == Str("indexing") and a.args[1] == Str("ij")
                                       for a in u.args)]
    if mesh:
        ctx.bad("R12.5", tag + "[batch positions]", "the batch positions are enumerated with np.meshgrid (column-major for the first two "
                "axes under the default indexing) while the selected window starts are flattened in C order: in a batch with two or more "
                "leading dimensions a spectrum is averaged over another spectrum's window", f_eq.loc(), derived=T.show(mesh[0], 160))
    elif unr:
        oku = all((len(u.args) < 3 or u.args[2] == Str("C")) for u in unr)
        ctx.expect(oku, "R12.5", tag + "[batch positions]", "batch positions come from unravel_index in C order, like the flattened window starts",
                   f_eq.loc(), derived=T.show(unr[0], 160))
    else:
        ctx.unsure("R12.5", tag + "[batch positions]", "enumeration of the batch positions not recognised", f_eq.loc())
    for nm, t, arr in zip(("e", "a1", "b1"), terms, (S, dsv("a1"), dsv("b1"))):
        t2 = t.xreplace({tab: V})
        sel = [a for a in T.find_ops(t2, "argmin") if V in a.free_symbols]
        oksel = len(sel) == 1 and sel[0] == op("argmin", V, sp.Integer(-1))
        if oksel:
            t2 = t2.xreplace({sel[0] + i_min: IM}).xreplace({sel[0]: IM - i_min})
        sums = T.find_ops(t2, "loopsum")
        def sum_axis(x):
            if len(x.args) == 2 and getattr(x.args[1], "is_Integer", False):
                return int(x.args[1])
            if len(x.args) == 2 and isinstance(x.args[1], sp.Tuple) and len(x.args[1].args) == 2 and x.args[1].args[0] == Str("axis") \
                    and getattr(x.args[1].args[1], "is_Integer", False):
                return int(x.args[1].args[1])
            return None
        vsums = [x for x in T.find_ops(t2, "sum") if sum_axis(x) in (0, -1) and fname(x.args[0]) == "item"]
        detail = ""
        if oksel and not sums and len(vsums) == 1 and V not in t2.free_symbols:
            # vectorised form: gather all bins of the window along a new leading axis and sum over it
            offset_axes = []

            def drop_newaxis(t):
                def fn(n):
                    if fname(n) == "item" and isinstance(n.args[1], sp.Tuple) and NONE_T in n.args[1].args and all(
                            a == NONE_T or fname(a) == "slc" for a in n.args[1].args):
                        if fname(n.args[0]) == "arange":
                            # the axis the window offsets run along: leading (0) or trailing (-1)
                            offset_axes.append(0 if fname(n.args[1].args[0]) == "slc" else (-1 if fname(n.args[1].args[-1]) == "slc" else None))
                        return n.args[0]
                    if fname(n) in ("flatten", "ravel") and len(n.args) == 1:
                        return n.args[0]
                    return None
                return T.rewrite(t, fn)
            g = vsums[0].args[0]
            cl = T.find_ops(g.args[1], "clip")
            okv = T.equivalent(g.args[0], arr) == T.Verdict.EQUAL and len(cl) == 1 and cl[0].args[1] == 0 \
                and T.equivalent(cl[0].args[2], nf - 1 - nb) == T.Verdict.EQUAL \
                and T.equivalent(drop_newaxis(cl[0].args[0]), IM + op("arange", nb)) == T.Verdict.EQUAL
            # the sum runs over the axis the offsets were laid out on
            okv = okv and offset_axes == [sum_axis(vsums[0])]
            LS = sp.Symbol("window_sum")
            t3 = t2.xreplace({vsums[0]: LS}).replace(lambda x: fname(x) == "reshape", lambda x: x.args[0])
            # result written once into a zero-filled output at every spectrum's own position
            if fname(t3) == "store" and fname(t3.args[0]) == "zeros" and fname(t3.args[1]) == "unravel_index":
                t3 = t3.args[2]
            okv = okv and sp.simplify(sp.diff(t3, LS) - 1 / nb) == 0
            ctx.expect(okv, "R12.5", tag + f"[{nm}]",
                       f"{nm} is the mean over the `number_of_bins` bins that start at the window with the smallest criterion "
                       "(gathered along a leading axis and summed), bins clipped to the grid", f_eq.loc(), derived=T.show(vsums[0], 200))
            continue
        oks = oksel and len(sums) == 1 and V not in t2.free_symbols
        if oks:
            X, ii, rg = sums[0].args[:3]
            oks = rg == op("range", sp.Integer(0), nb) and fname(X) == "item" and T.equivalent(X.args[0], arr) == T.Verdict.EQUAL
            last = None
            if oks:
                ix = X.args[1]
                cl = T.find_ops(ix, "clip")
                oks = len(cl) == 1 and T.equivalent(cl[0].args[0], IM + ii) == T.Verdict.EQUAL and cl[0].args[1] == 0 \
                    and T.equivalent(cl[0].args[2], nf - 1 - nb) == T.Verdict.EQUAL
                last = cl[0] if cl else None
            # the sum is divided by the number of bins and nothing else is added
            LS = sp.Symbol("window_sum")
            t3 = t2.xreplace({sums[0]: LS})
            lin = sp.expand(T.to_term(sp.diff(t3.replace(lambda x: fname(x) == "store", lambda x: x.args[2]), LS))) if oks else None
            oks = oks and lin is not None and sp.simplify(lin - 1 / nb) == 0
            detail = T.show(sums[0], 200)
        if not oks and not (oksel and len(sums) == 1 and V not in t2.free_symbols and fname(sums[0].args[0]) == "item"):
            oks = None      # no window sum of a shape this rule knows was found (one sum of elements of the variable): not a verdict
        ctx.expect(oks, "R12.5", tag + f"[{nm}]",
                   f"{nm} is the mean over the `number_of_bins` bins that start at the window with the smallest criterion "
                   "(argmin over the criterion table + scan start), bins clipped to the grid", f_eq.loc(), derived=detail or T.show(t2, 200))
    ctx.absorb(it)
