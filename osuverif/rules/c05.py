"""C05 -- directional estimators: valid distributions, energy conservation, batch independence, no escape."""
from __future__ import annotations

import ast

import sympy as sp

from .. import terms as T
from ..terms import P, op, Str, fname, CMP, NONE_T
from ..interp import Interp, Obj, Env
from ..effects import Effects
from ..signs import SignAnalysis, show, POS, NEG, ZERO, NONNEG
from ..callgraph import CallGraph
from ..mini import must_fire
from .common import CLS_1D, spectrum_self, spec_interp, dsv
from .fc import own_walk, calls, call_name

EST = "wavespectra.estimators."
M2 = EST + "mem2."
EXPLANATION = (
    "TermFlow on the estimator kernels. Normalisation shape: the MEM2 distribution is V / sum(V*dtheta) with the *same* "
    "V = exp(-(lambda.twiddle - min)) in numerator and normaliser, and MEM is D / (sum(D)*2pi/N); hence sum(D*dtheta) = 1 by "
    "construction. Non-negativity of MEM2: exp > 0 and positive increments (sign analysis); every value returned by the "
    "Newton solver is the zero array (NaN moments) or that distribution. Jacobian/units: directions are converted with "
    "pi/180 and the per-radian result is multiplied by the same constant once; the 1-D -> 2-D conversion multiplies by "
    "e[..., None] on a uniform linspace(0, 360, N, endpoint=False) grid and carries the non-spectral variables. Batch "
    "independence of the point / frequency loops (leading-axis indexing, nothing carried, no mutated shared buffer - "
    "using callee mutation summaries). Dispatch: every (method, solution_method) of the quantifier reaches a solver and "
    "unknown strings raise. Exception escape: under the pinned numba a try/except lexically inside a loop of a nopython "
    "function whose handler assigns a local and does not leave the loop only catches the first exception (established "
    "by experiment); no such shape may be reachable from the estimators. R05.7: module-level solver defaults are never written in place (may-alias dataflow). Not decided: non-negativity of MEM for "
    "unrealisable moments, 'integrates to one' as a floating-point statement, convergence."
)


def norm_est(t):
    """broadcast helpers carry no value: zeros(n) + x is x"""
    def fn(n):
        if fname(n) == "zeros":
            return sp.Integer(0)
        return None
    return T.rewrite(T.to_term(t), fn)


def numba_try_in_loop_rule(ctx, rule, funcs):
    """try/except inside a loop of a nopython function: the handler must leave the loop or only do subscript stores /
    augmented assignments (the shapes verified to work on numba 0.67)."""
    n = 0
    for f in funcs:
        if not (f.jitted and f.jit_opts.get("nopython", False)):
            continue
        loops = [x for x in own_walk(f.node) if isinstance(x, (ast.For, ast.While))]
        for lp in loops:
            for tr in [x for st in lp.body for x in ast.walk(st) if isinstance(x, ast.Try)]:
                # innermost loop containing the try
                inner = [l2 for l2 in loops if l2 is not lp and tr in [y for st in l2.body for y in ast.walk(st)]
                         and l2 in [y for st in lp.body for y in ast.walk(st)]]
                if inner:
                    continue
                n += 1
                for h in tr.handlers:
                    leaves = bool(h.body) and isinstance(h.body[-1], (ast.Break, ast.Return, ast.Raise))
                    plain = [s for s in h.body if isinstance(s, (ast.Assign, ast.AnnAssign)) and any(
                        isinstance(t, ast.Name) for t in (s.targets if isinstance(s, ast.Assign) else [s.target]))]
                    cname = f"{f.qualname}:try@{tr.lineno}"
                    if plain and not leaves:
                        ctx.bad(rule, cname, "try/except inside a loop of a nopython function whose handler assigns a local "
                                f"(`{ast.unparse(plain[0])[:60]}`) and stays in the loop: numba 0.67 catches only the first "
                                "exception, the next one escapes to the caller", f.loc(tr), derived=ast.unparse(h)[:200],
                                required="handler that leaves the loop, or only subscript stores / augmented assignments, or "
                                         "the try/except in its own helper function")
                    else:
                        ctx.ok(rule, cname, "handler " + ("leaves the loop" if leaves else "only stores into arrays / "
                               "augmented assignments") + ": a shape verified to catch every iteration's exception", f.loc(tr))
    return n


POSITIVE_TRY = {"m.py": "import numba\nimport numpy as np\n\n@numba.njit()\ndef boom(x):\n    if x > 0:\n        raise ValueError('b')\n"
                        "    return x\n\n@numba.njit()\ndef solver(n):\n    u = 0.0\n    for i in range(n):\n        try:\n"
                        "            u = boom(1.0)\n        except Exception:\n            u = 2.0\n    return u\n"}


def batch_loops_rule(ctx, rule, p, specs):
    """specs: (function qualname, loop variable name)"""
    ef = Effects(p)
    for q, role in specs:
        f = p.get_function(q)
        # loops are identified by position, not by the name of their variable: "point" is the outermost range/prange loop of the
        # function, "frequency" the range loop nested directly inside an outer range loop (or the outermost one when the function
        # handles a single point)
        def range_loops(stmts):
            return [n for n in stmts if isinstance(n, ast.For) and isinstance(n.target, ast.Name) and isinstance(n.iter, ast.Call)
                    and ast.unparse(n.iter.func) in ("range", "prange", "numba.prange")]
        outer = range_loops(list(own_walk(f.node)))
        top = [n for n in outer if not any(n is not m and n in list(ast.walk(m)) for m in outer)]
        if role == "point":
            loops = top
        elif role == "frequency":
            loops = [n for t in top for n in range_loops(list(ast.walk(t))) if n is not t and not any(
                n is not m and m is not t and n in list(ast.walk(m)) for m in range_loops(list(ast.walk(t))))]
        else:       # "single": the function handles one point, its outermost loop runs over frequencies
            loops = top
        lvname = loops[0].target.id if len(loops) == 1 else role
        if len(loops) != 1:
            ctx.unsure(rule, f"{f.name}[{role}]", f"expected one {role} loop, found {len(loops)}", f.loc())
            continue
        lp = loops[0]
        problems = []
        params = set(f.params)
        outer = set()
        for st in f.node.body:
            if st is lp or lp in list(ast.walk(st)):
                break
            for n in ast.walk(st):
                if isinstance(n, ast.Assign):
                    for t in n.targets:
                        for x in ast.walk(t):
                            if isinstance(x, ast.Name):
                                outer.add(x.id)
        assigned_in_body = set()
        for st in lp.body:
            for n in ast.walk(st):
                if isinstance(n, (ast.Assign, ast.AugAssign)):
                    tg = n.targets if isinstance(n, ast.Assign) else [n.target]
                    for t in tg:
                        for el in (t.elts if isinstance(t, ast.Tuple) else [t]):
                            if isinstance(el, ast.Name):
                                assigned_in_body.add(el.id)
                                if el.id in outer or el.id in params:
                                    problems.append(f"`{el.id}` defined outside the loop is reassigned inside it (carried between iterations)")
                                if isinstance(n, ast.AugAssign):
                                    problems.append(f"`{el.id}` accumulates across iterations")
                            elif isinstance(el, ast.Subscript):
                                base = el.value
                                while isinstance(base, ast.Subscript):
                                    base = base.value
                                idx = el.slice
                                first = idx.elts[0] if isinstance(idx, ast.Tuple) else idx
                                enclosing = {x.target.id for x in own_walk(f.node) if isinstance(x, ast.For) and isinstance(x.target, ast.Name)
                                             and lp in list(ast.walk(x)) and x is not lp}
                                names_in_first = {x.id for x in ast.walk(first) if isinstance(x, ast.Name)}
                                if isinstance(base, ast.Name) and (base.id in outer or base.id in params) and lvname not in names_in_first \
                                        and not (names_in_first & enclosing and lvname in {y.id for y in ast.walk(idx) if isinstance(y, ast.Name)}):
                                    problems.append(f"store into `{base.id}` is not indexed by `{lvname}` in its leading axis")
        # the same for the loops nested in one iteration (the frequencies of one point): a local set ahead of the inner loop and
        # reassigned inside it after being read is handed from one frequency to the next (a warm start, a running state)
        for k_, il in enumerate(lp.body):
            if not isinstance(il, ast.For):
                continue
            before = set()
            for st in lp.body[:k_]:
                for n in ast.walk(st):
                    if isinstance(n, ast.Assign):
                        for t in n.targets:
                            if isinstance(t, ast.Name):
                                before.add(t.id)
            stored = {t.id for n in ast.walk(il) if isinstance(n, ast.Assign) for t in n.targets if isinstance(t, ast.Name)}
            loaded = {n.id for st in il.body for n in ast.walk(st) if isinstance(n, ast.Name) and isinstance(n.ctx, ast.Load)}
            for nm in sorted(before & stored & loaded):
                problems.append(f"`{nm}` set ahead of the inner loop is read and reassigned inside it (carried from one inner iteration to the next)")
        # shared buffers handed to mutating callees
        for c in [n for st in lp.body for n in ast.walk(st) if isinstance(n, ast.Call)]:
            r = p.resolve_expr(f.module, c.func) if isinstance(c.func, (ast.Name, ast.Attribute)) else None
            if r is None or not hasattr(r, "node"):
                continue
            sub = ef.summary(r, None)
            if not sub.mutated_params:
                continue
            formals = [a.arg for a in r.node.args.posonlyargs + r.node.args.args]
            bound = dict(zip(formals, c.args))
            for k in c.keywords:
                if k.arg:
                    bound[k.arg] = k.value
            for pn in sub.mutated_params:
                a = bound.get(pn)
                if a is None:
                    continue
                names = {x.id for x in ast.walk(a) if isinstance(x, ast.Name)}
                if isinstance(a, ast.Name) and (a.id in outer or a.id in params):
                    problems.append(f"`{a.id}` (shared by all iterations) is handed to `{r.name}`, which writes its `{pn}` argument")
                elif isinstance(a, ast.Subscript) and lvname not in names:
                    problems.append(f"`{ast.unparse(a)}` handed to `{r.name}` (writes `{pn}`) is not a per-iteration slice")
        from .fc import whole_axis_range
        okr, ext = whole_axis_range(f.node, lp)
        if not okr:
            problems.append(f"the loop runs over `{ext}`, not over a whole array axis: some entries are never computed")
        if problems:
            ctx.bad(rule, f"{f.name}[{role} loop]", "; ".join(sorted(set(problems))), f.loc(lp))
        else:
            ctx.ok(rule, f"{f.name}[{role} loop]", "iterations are independent: stores indexed by the loop variable, nothing carried, "
                   "mutating callees get per-iteration slices only", f.loc(lp))


def run(ctx):
    ctx.explanation = EXPLANATION
    p = ctx.program
    ctx.trust("exp > 0", "numba.prange iterations may run in any order",
              "numba 0.67: try/except inside a loop with a handler that assigns a local and stays in the loop catches only once "
              "(experiment, DESIGN section 6)")
    lam, dth, tw = P("lam"), P("dth"), P("tw")
    it = Interp(p)
    f = p.get_function(M2 + "mem2_directional_distribution")
    r = norm_est(it.call_function(f, [lam, dth, tw], {}, None))
    row = lambda j: op("item", tw, sp.Tuple(sp.Integer(j), op("slc", NONE_T, NONE_T, NONE_T)))  # noqa: E731
    ip = sum(op("item", lam, sp.Integer(j)) * row(j) for j in range(4))
    V = sp.exp(-(ip - op("min", ip, NONE_T)))
    ref = V / op("sum", V * dth, NONE_T)
    ctx.equiv("R05.1", "mem2_directional_distribution", r, ref, f.loc(),
              "D == V / sum(V*dtheta), V = exp(-(lambda.twiddle - min)) with the same V in both places", norm=norm_est, interp=it)
    sa = SignAnalysis([(lambda t: t == dth, POS, "direction increments > 0 (grid covering the circle once)")])
    s = sa.sign(r)
    ctx.expect(True if s == POS else (None if s & POS else False), "R05.2", "mem2_directional_distribution[sign]",
               f"the MEM2 distribution is strictly positive (sign set {show(s)})", f.loc(), derived=T.show(r, 160))
    for a in sa.used:
        ctx.assume(a)
    # MEM closed form normalisation
    th = P("theta")
    a1, b1, a2, b2 = (P(n, real=True) for n in ("a1", "b1", "a2", "b2"))
    from .fc import inline_value_calls as _inline
    for q in (EST + "mem._mem", EST + "mem.numba_mem"):
        fm = _inline(p, p.get_function(q))        # private helpers (shared harmonics, ...) are seen through
        it_m = Interp(p)
        rm = T.to_term(it_m.call_function(fm, [th, a1, b1, a2, b2], {}, None))
        sums = [x for x in T.find_ops(rm, "sum")]
        ok = False
        why = ""
        if len(sums) >= 1:
            Sm = sums[0]
            Dm = Sm.args[0]
            n_dir = op("len", th)
            want = Dm / (Sm * 2 * sp.pi / n_dir)
            # broadcasting index [:, None] of the per-frequency normaliser is shape only
            def drop_bcast(t):
                def fn(n):
                    if fname(n) == "item" and isinstance(n.args[1], sp.Tuple) and NONE_T in n.args[1].args:
                        return n.args[0]
                    return None
                return T.rewrite(t, fn)
            ok = T.equivalent(drop_bcast(rm), drop_bcast(want)) == T.Verdict.EQUAL
            why = T.show(rm, 160)
        ctx.expect(ok, "R05.1", f"{fm.name}[normalisation]", "D / (sum(D) * 2*pi/N): the discrete integral over the circle is one",
                   fm.loc(), derived=why)
        ctx.absorb(it_m)
    # R05.2 solver returns
    opq = {M2 + "moment_constraints": "constraints", M2 + "mem2_jacobian": "jacobian", M2 + "mem2_directional_distribution": "dist",
           M2 + "solve_newton_update": "solve", M2 + "solve_cholesky": "cholesky", EST + "mem.numba_mem": "mem"}
    its = Interp(p, opaque=opq)
    fs = p.get_function(M2 + "mem2_newton_solver")
    mom, guess = P("moments"), P("guess")
    for approx in (False, True):
        r = T.strip_never(T.to_term(its.call_function(fs, [mom, guess, dth, tw, None, approx], {}, None)))
        leaves = []

        def collect(t):
            if fname(t) == "ite":
                collect(t.args[1])
                collect(t.args[2])
            else:
                leaves.append(t)
        collect(r)
        bad = []
        full = op("slc", NONE_T, NONE_T, NONE_T)
        for lf in leaves:
            okl = fname(lf) == "store" and lf.args[1] == full and (lf.args[2] == 0 or fname(lf.args[2]) == "dist")
            if okl and fname(lf.args[2]) == "dist":
                okl = lf.args[2].args[1] == dth and lf.args[2].args[2] == tw
            if not okl:
                bad.append(lf)
        ctx.expect(not bad and bool(leaves), "R05.2", f"mem2_newton_solver[returns, approximate={approx}]",
                   "every returned array is all zeros (NaN first guess) or the normalised MEM2 distribution on the caller's grid",
                   fs.loc(), derived=str([T.show(x, 100) for x in (bad or leaves)]))
        if not approx:
            nan_branch = fname(r) == "ite" and fname(r.args[0]) == "any" and fname(r.args[0].args[0]) == "isnull" \
                and r.args[0].args[0].args[0] == guess
            ctx.expect(nan_branch, "R05.2", "mem2_newton_solver[NaN guess]", "a NaN first guess short-circuits to zeros before any solve",
                       fs.loc())
            dead = [x for x in T.subterms(r) if fname(x) == "mem"]
            if dead:
                ctx.notes.append("observation: the MEM fallback assigned when the Newton iteration fails is overwritten by the "
                                 "MEM2 distribution of the last iterate (dead store); the returned value is still a valid distribution")
    ctx.absorb(its)

    # ---- R05.3 Jacobian between degrees and radians; 1-D -> 2-D
    fe = p.get_function(EST + "estimate.estimate_directional_distribution")
    ite_ = Interp(p, opaque={EST + "mem.mem": "mem", M2 + "mem2": "mem2"})
    A1, B1, A2, B2, DIR = (P(n) for n in ("a1", "b1", "a2", "b2", "direction"))
    for meth, opn in (("mem2", "mem2"), ("mem", "mem")):
        r = T.strip_never(T.to_term(ite_.call_function(fe, [A1, B1, A2, B2, DIR, meth], {"solution_method": P("sm")}, None)))
        cs = T.find_ops(r, opn)
        if len(cs) != 1:
            ctx.bad("R05.3", f"estimate_directional_distribution[{meth}]", "the estimator is not called exactly once", fe.loc(), derived=T.show(r, 200))
            continue
        c = cs[0]
        ctx.equiv("R05.3", f"estimate_directional_distribution[{meth}][directions]", c.args[0], DIR * sp.pi / 180, fe.loc(),
                  "directions are handed over in radians", interp=ite_)
        q = sp.cancel(r / op("reshape", c, *T.find_ops(r, "reshape")[0].args[1:])) if T.find_ops(r, "reshape") else None
        outer = [x for x in T.find_ops(r, "reshape") if x.args[0] == c]
        okj = len(outer) == 1 and sp.simplify(r / outer[0] - sp.pi / 180) == 0
        ctx.expect(okj, "R05.3", f"estimate_directional_distribution[{meth}][Jacobian]",
                   "the per-radian density is multiplied by pi/180 exactly once", fe.loc(), derived=T.show(r, 160))
        if len(outer) == 1:
            oshape = outer[0].args[1]
            want_shape = op("seqcat", op("list", op("shape", A1)), sp.Tuple(op("len", DIR)))

            def segments(t):
                """a sequence term as a flat list of ('one', element) / ('all', sequence) segments"""
                f_ = fname(t)
                if isinstance(t, sp.Tuple):
                    out = []
                    for a in t.args:
                        out += [("all", a.args[0])] if fname(a) == "star" else [("one", a)]
                    return out
                if f_ == "seqcat":
                    return segments(t.args[0]) + segments(t.args[1])
                if f_ in ("list", "tuple") and len(t.args) == 1:
                    return segments(t.args[0]) if isinstance(t.args[0], sp.Tuple) or fname(t.args[0]) in ("seqcat", "list", "tuple") \
                        else [("all", t.args[0])]
                return [("all", t)]
            oks = segments(oshape) == [("all", op("shape", A1)), ("one", op("len", DIR))]
            ctx.expect(oks, "R05.3", f"estimate_directional_distribution[{meth}][output shape]",
                       "the result has the shape of the moments the caller passed in, plus one trailing direction axis "
                       "(callers multiply it with e[..., None] and label it with the input's dimensions)", fe.loc(),
                       derived=T.show(oshape, 200), required=T.show(want_shape, 120))
        shapes = {x.args[1] for x in T.find_ops(c, "reshape")}
        moments_in = [x.args[0] for x in c.args[1:5] if fname(x) == "reshape"]
        ctx.expect(len(shapes) == 1 and moments_in == [A1, B1, A2, B2], "R05.3", f"estimate_directional_distribution[{meth}][moments]",
                   "a1, b1, a2, b2 reach the estimator in that order, all flattened to one (points, frequency) shape", fe.loc(),
                   derived=str([T.show(x, 30) for x in moments_in]))
    ctx.absorb(ite_)
    fa = p.get_method(CLS_1D, "as_frequency_direction_spectrum")
    itf = spec_interp(p, opaque={EST + "estimate.estimate_directional_distribution": "estimate"})
    me = spectrum_self(p, CLS_1D)
    N = P("number_of_directions")
    r = itf.call_function(fa, [me, N, "mem2", "newton"], {}, None)
    ok = isinstance(r, Obj) and r.cls.name == "FrequencyDirectionSpectrum"
    if ok:
        items = r.fields["dataset"].items if hasattr(r.fields.get("dataset"), "items") else {}
        vd = items.get("variance_density")
        grid = op("linspace", sp.Integer(0), sp.Integer(360), N, False)
        es = T.find_ops(T.to_term(vd), "estimate") if vd is not None else []
        okv = len(es) == 1 and es[0].args[:5] == (dsv("a1"), dsv("b1"), dsv("a2"), dsv("b2"), grid) \
            and T.equivalent(vd, es[0] * op("item", dsv("variance_density"), sp.Tuple(T.ELLIPSIS_T, NONE_T))) == T.Verdict.EQUAL
        ctx.expect(okv, "R05.3", "as_frequency_direction_spectrum[density]",
                   "E(f,theta) == distribution(a1,b1,a2,b2; uniform 0..360 grid) * e(f)", fa.loc(), derived=T.show(T.to_term(vd), 200))
        kwd = es[0].args[-1] if es else None
        okm = es and Str("newton") in set(T.subterms(es[0])) and Str("mem2") in set(T.subterms(es[0]))
        ctx.expect(bool(okm), "R05.3", "as_frequency_direction_spectrum[method forwarding]",
                   "the requested method and solution method reach the estimator", fa.loc())
        cterm = T.to_term(items.get("__coords__", NONE_T))
        okgrid = items.get("direction") == grid or any(
            fname(x) == "store" and x.args[1] == Str("direction") and x.args[2] == grid for x in T.subterms(cterm))
        ctx.expect(okgrid, "R05.3", "as_frequency_direction_spectrum[direction grid]",
                   "the direction coordinate of the result is the grid used for the reconstruction", fa.loc())
        fam = [(k, v) for k, v in items.items() if not isinstance(k, str)]
        okc = any(fname(k) == "elem" and fname(v) == "guarded" and fname(v.args[0]) == "not_" for k, v in fam)
        ctx.expect(okc, "R05.3", "as_frequency_direction_spectrum[carry-over]",
                   "time, position and depth (all non-spectral variables) are carried over", fa.loc())
    else:
        ctx.unsure("R05.3", "as_frequency_direction_spectrum", "result is not a 2-D spectrum object", fa.loc())
    ctx.absorb(itf)

    # ---- R05.3b every solvable frequency gets a distribution: in the scipy variant the only reason to leave a row at its initial
    # zeros is a first guess that contains NaN (missing moments).  Skipping on anything else (e.g. the root finder's success flag)
    # leaves a row that integrates to zero, so the energy at that frequency is lost from the 2-D spectrum.
    from .fc import scenario_paths, substitute_defs, returned_name as _rn
    fsc_ = p.get_function(M2 + "mem2_scipy_root_finder")
    out_name = _rn(fsc_.node)
    inner_loops = [n for n in own_walk(fsc_.node) if isinstance(n, ast.For) and any(
        isinstance(x, ast.Call) and ast.unparse(x.func).endswith("optimize.root") for x in ast.walk(n))]
    inner_loops = [n for n in inner_loops if not any(m is not n and m in list(ast.walk(n)) for m in inner_loops)]
    if len(inner_loops) == 1 and out_name:
        def nan_oracle(test, e):
            # the scenario: the first guess is finite, so `any(isnan(guess))` is False and a mask `~any(isnan(guess))` is True
            x = substitute_defs(fsc_.node, test, set())
            flip = False
            while True:
                if isinstance(x, ast.Subscript):
                    x = x.value
                elif isinstance(x, ast.UnaryOp) and isinstance(x.op, (ast.Invert, ast.Not)):
                    flip, x = not flip, x.operand
                else:
                    break
            if isinstance(x, ast.Call) and "isnan" in ast.unparse(x) and ast.unparse(x.func).split(".")[-1] in ("any", "isnan"):
                return flip
            return None

        def st_event(st):
            if isinstance(st, ast.Assign) and any(isinstance(t_, ast.Subscript) and isinstance(t_.value, ast.Name) and t_.value.id == out_name
                                                  for t_ in st.targets):
                return "store"
            return None
        paths = scenario_paths(inner_loops[0].body, {}, nan_oracle, lambda c: None, event_of_stmt=st_event)
        oks_ = bool(paths) and all("store" in ev_ for _, ev_ in paths)
        ctx.expect(oks_, "R05.3", "mem2_scipy_root_finder[every solvable frequency is filled]",
                   "with a finite first guess every path through the per-frequency body stores a distribution",
                   fsc_.loc(inner_loops[0]), derived=str(sorted({'+'.join(ev_) or 'nothing stored' for _, ev_ in paths})))
    else:
        ctx.unsure("R05.3", "mem2_scipy_root_finder[every solvable frequency is filled]", "per-frequency loop around the root finder not found",
                   fsc_.loc())
    # ---- R05.4 batch independence
    batch_loops_rule(ctx, "R05.4", p, [(EST + "mem.mem", "point"), (M2 + "mem2_scipy_root_finder", "point"),
                                        (M2 + "mem2_scipy_root_finder", "frequency"), (M2 + "mem2_newton", "point"),
                                        (M2 + "_mem2_newton_point", "single")])

    # ---- R05.5 dispatch
    fm2 = p.get_function(M2 + "mem2")
    itd = Interp(p, opaque={M2 + "mem2_scipy_root_finder": "scipy_solver", M2 + "mem2_newton": "newton_solver"})
    th_, pb = P("directions_radians"), P("progress")
    for sm, want in (("scipy", "scipy_solver"), ("newton", "newton_solver"), ("approximate", "newton_solver")):
        r = T.to_term(itd.call_function(fm2, [th_, A1, B1, A2, B2, pb, sm], {}, None))
        ok = fname(r) == want and r.args[:5] == (th_, A1, B1, A2, B2)
        if sm == "approximate":
            ok = ok and T.TRUE_T in r.args
        ctx.expect(ok, "R05.5", f"mem2[{sm}]", f"solution_method='{sm}' reaches its solver with the moments in order", fm2.loc(),
                   derived=T.show(r, 160))
    n0 = len(itd.raises)
    itd.call_function(fm2, [th_, A1, B1, A2, B2, pb, "something-else"], {}, None)
    ctx.expect(len(itd.raises) > n0, "R05.5", "mem2[unknown solution method]", "an unknown solution method raises", fm2.loc())
    ite2 = Interp(p, opaque={EST + "mem.mem": "mem", M2 + "mem2": "mem2"})
    n0 = len(ite2.raises)
    ite2.call_function(fe, [A1, B1, A2, B2, DIR, "bogus"], {}, None)
    ctx.expect(len(ite2.raises) > n0, "R05.5", "estimate_directional_distribution[unknown method]",
               "an unknown estimator name raises", fe.loc())
    ctx.absorb(itd)

    # ---- R05.6 exception escape
    cg = CallGraph(p)
    roots = [fe, p.get_function(EST + "estimate.estimate_directional_spectrum_from_moments"), fa, fm2, p.get_function(EST + "mem.mem"),
             p.get_function(M2 + "mem2_newton"), p.get_function(M2 + "mem2_scipy_root_finder")]
    reach = cg.reachable(roots, include_may=False)
    numba_try_in_loop_rule(ctx, "R05.6", [f for f in p.all_functions])
    must_fire(ctx, "R05.6", POSITIVE_TRY, lambda sub, mp: numba_try_in_loop_rule(sub, "R05.6", mp.all_functions),
              "try/except in a loop of a jitted function with an assigning handler")
    solver_reached = p.get_function(M2 + "mem2_newton_solver") in reach
    ctx.expect(solver_reached, "R05.6", "reachability[mem2_newton_solver]", "the jitted solver is reachable from the estimator entry points", fs.loc())
    # raises reachable from the newton path with default configuration: none may be unguarded
    its2 = Interp(p, opaque={M2 + "moment_constraints": "constraints", M2 + "mem2_jacobian": "jacobian",
                             M2 + "mem2_directional_distribution": "dist", M2 + "solve_newton_update": "solve", EST + "mem.numba_mem": "mem"})
    its2.call_function(fs, [mom, guess, dth, tw, None, False], {}, None)
    open_raises = [x for x in its2.raises if not x.caught]
    ctx.expect(not open_raises, "R05.6", "mem2_newton_solver[no raise with default settings]",
               "with the default configuration (MEM fallback enabled) the solver has no reachable raise statement", fs.loc(),
               derived=str([(x.loc, x.exc) for x in open_raises]))
    fu = p.get_function(M2 + "solve_newton_update")
    tries = [n for n in own_walk(fu.node) if isinstance(n, ast.Try)]
    okh = len(tries) == 1 and any(call_name(c) == "solve_cholesky" for st in tries[0].body for c in ast.walk(st) if isinstance(c, ast.Call)) \
        and all(h.type is None or ast.unparse(h.type) in ("Exception", "BaseException") for h in tries[0].handlers) \
        and any("lstsq" in ast.unparse(st) for st in fu.node.body if st is not tries[0])
    ctx.expect(okh, "R05.6", "solve_newton_update", "the Cholesky failure is caught broadly and followed by the least-squares solve", fu.loc())
    # ------------------------------------------------------------------ R05.7 module-level solver defaults stay defaults
    from ..sharedstate import shared_default_rule
    shared_default_rule(ctx, "R05.7", ("wavespectra.estimators",))
    ctx.require_count("R05.7", 1)
    # ------------------------------------------------------------------ R05.8 a single set of moments (batch shape ()) is admissible
    from ..rank import rank_rule
    fe = p.get_function("wavespectra.estimators.estimate.estimate_directional_distribution")
    rank_rule(ctx, "R05.8", fe, set(fe.params[:4]), "the directional moments")
    ctx.require_count("R05.8", 1)
    ctx.require_count("R05.1", 3)
    ctx.require_count("R05.2", 4)
    ctx.require_count("R05.3", 13)
    ctx.require_count("R05.4", 5)
    # ---- R05.9 the distributions are stored in floating-point buffers: an allocation whose dtype is taken from the moments
    # (`dtype=a1.dtype`, `np.empty_like(a1)`) truncates every density to 0 for integer-typed moments (isotropic input given as integer
    # zeros) and halves the precision for float32 - the stores succeed silently
    n_alloc = 0
    for q in (EST + "mem.mem", EST + "mem.numba_mem", M2 + "mem2_scipy_root_finder", M2 + "mem2_newton", M2 + "_mem2_newton_point",
              M2 + "mem2_directional_distribution", EST + "estimate.estimate_directional_distribution"):
        fq = p.functions.get(q)
        if fq is None:
            continue
        pars = set(fq.params)
        for c in [n for n in own_walk(fq.node) if isinstance(n, ast.Call)]:
            nm = ast.unparse(c.func)
            if nm.split(".")[-1] not in ("zeros", "empty", "ones", "full", "zeros_like", "empty_like", "ones_like", "full_like"):
                continue
            n_alloc += 1
            dt = [k.value for k in c.keywords if k.arg == "dtype"]
            from_input = any(isinstance(x, ast.Attribute) and x.attr == "dtype" and isinstance(x.value, ast.Name) and x.value.id in pars
                             for d in dt for x in ast.walk(d))
            like_input = nm.endswith("_like") and c.args and isinstance(c.args[0], ast.Name) and c.args[0].id in pars and not dt
            cname = f"{fq.name}[buffer {ast.unparse(c)[:50]}]"
            if from_input or like_input:
                ctx.bad("R05.9", cname, "the buffer that receives the distribution takes its dtype from an input: integer-typed moments "
                        "(a legal way to write isotropic input) truncate every stored density to 0, so the result integrates to 0",
                        fq.loc(c), derived=ast.unparse(c)[:120], required="a floating-point allocation independent of the input dtype")
            else:
                ctx.ok("R05.9", cname, "allocation does not take its dtype from the moments", fq.loc(c))
    ctx.require_count("R05.9", 3)
    # ---- R05.3 (order) the moments are flattened to (points, frequency) and the result is unflattened again: both reshapes must read
    # memory in the same order, whatever the layout of the caller's arrays (order="A"/"F"/"K" on one side follows the input's strides)
    fe_ = p.get_function(EST + "estimate.estimate_directional_distribution")
    orders = []
    for c in [n for n in own_walk(fe_.node) if isinstance(n, ast.Call) and isinstance(n.func, ast.Attribute) and n.func.attr == "reshape"
              or isinstance(n, ast.Call) and ast.unparse(n.func) in ("np.reshape", "numpy.reshape")]:
        od = [k.value for k in c.keywords if k.arg == "order"]
        orders.append((od[0].value if od and isinstance(od[0], ast.Constant) else ("?" if od else "C"), c))
    kinds = {o for o, _ in orders}
    ctx.expect((kinds <= {"C"} or len(kinds) == 1 and "?" not in kinds and kinds <= {"C", "F"}) if orders else None, "R05.3",
               "estimate_directional_distribution[reshape order]",
               "every reshape between the caller's layout and the (points, frequency) layout uses one fixed memory order", fe_.loc(),
               derived=str(sorted(kinds)), required="one of C / F throughout (not A or K, which depend on the input's strides)")
    ctx.require_count("R05.5", 5)
    ctx.require_count("R05.6", 5)
