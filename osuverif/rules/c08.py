"""C08 -- source terms: sign, support, scaling; bulk = integral of spectral; imbalance; batch independence."""
from __future__ import annotations

import ast

import sympy as sp

from .. import terms as T
from ..terms import P, op, Str, fname, CMP, NONE_T
from ..interp import Interp, Obj, FuncVal
from ..libmodel import element_of
from ..signs import SignAnalysis, show, substitute_zero, NEG, ZERO, POS, TOP, NONNEG, NONPOS
from ..callgraph import CallGraph
from .. import envres
from .kernels import (WB, KD, CG, E, GRID, PAR, DEPTH, Z0, U, THW, FI, DI, kernel_interp, par, grid, assumptions, wind,
                      flatten_tab)
from .c02 import match_nested_sum, full_range

EXPLANATION = (
    "TermFlow extracts, for each registered point function (ST4 wind input; ST4, ST6, Romero dissipation), the term "
    "stored at a symbolic bin (f, d) - loops summarised as sums/tabulations, helper kernels inlined, the dispersion "
    "solver and group velocity kept opaque. A sign analysis ({<0,=0,>0} sets with branch refinement) under the printed "
    "assumptions decides wind input >= 0 and dissipation <= 0 at every store; substituting E[f,d] := 0 decides that the "
    "rate vanishes in bins without energy and substituting E := 0 that it vanishes for an empty spectrum; the wind "
    "input is zero unless cos(theta_d - theta_wind) > 0, and divided by E[f,d] it no longer mentions E (proportional to "
    "the density at fixed roughness). Bulk rates: the bulk kernels call the same point function with the same argument "
    "wiring as the spectral kernels and reduce with sum_f sum_d x*df*dd; imbalance = generation + dissipation - dE/dt; "
    "every point loop reads its inputs only at its own point index and carries no state between iterations. "
    "Bulk sums and point loops cover whole axes; the four entry points that estimate a missing roughness forward the caller's forcing type. Not decided: magnitudes (e.g. the critical-height factor's value)."
)


def erase_period(t):
    """cos/sin are 2*pi periodic: drop `pymod(x, 2*pi)` directly under a trigonometric function."""
    def strip(x):
        def fn(n):
            if fname(n) == "pymod" and n.args[1] == 2 * sp.pi:
                return n.args[0]
            return None
        return T.rewrite(x, fn)

    def fn(n):
        if isinstance(n, (sp.cos, sp.sin)):
            return n.func(strip(n.args[0]))
        return None
    return T.rewrite(T.to_term(t), fn)


def mentions(t, sym) -> bool:
    return sym in T.to_term(t).free_symbols


def run(ctx):
    ctx.explanation = EXPLANATION
    p = ctx.program
    ctx.trust("numba executes the jitted kernels with Python semantics (error_model python)",
              "sympy sign of even integer powers, exp > 0, sqrt >= 0")
    E_fd = op("item", E, sp.Tuple(FI, DI))
    W = sp.pi * par("saturation_integration_width_degrees") / 180

    def analyse(term):
        sa = SignAnalysis(assumptions())
        sa.small_angle = lambda t: t == -W
        s = sa.sign(term)
        for a in sa.used:
            ctx.assume(a)
        if sa.small_angle is not None and any("saturation_integration_width" in str(x) for x in [term]):
            ctx.assume("saturation_integration_width_degrees < 90 (cosine positive inside the saturation band)")
        return s, sa

    def sign_verdict(term, forbidden, allowed_text):
        """every additive contribution (one per store) must avoid the forbidden sign.
        True: proved; False: some contribution is sign-definite the wrong way; None: undetermined"""
        term = T.strip_never(term)
        parts = list(term.args) if isinstance(term, sp.Add) else [term]
        verdict = True
        shown = []
        for part in parts:
            s, sa = analyse(part)
            shown.append(show(s))
            if not s & forbidden:
                continue
            other = NEG if forbidden == POS else POS
            if not s & other:
                return False, shown     # sign-definite the other way (and not provably zero)
            # undetermined by the sign domain: look for a concrete counter-model of this contribution
            from ..witness import Search, describe
            hit = Search(assumptions()).find(part, forbidden)
            if hit is not None:
                shown.append(f"witness: {describe(hit[0])} gives {hit[1]:.3g}")
                return False, shown
            verdict = None
        return verdict, shown

    # ------------------------------------------------------------------ R08.1 wind input (ST4)
    fw = p.get_function(WB + "st4_wind_input._st4_wind_generation_point")
    for kind in ("u10", "friction_velocity", "ustar"):
        it = kernel_interp(p)
        r = it.call_function(fw, [E, wind(kind), DEPTH, Z0, GRID, PAR], {}, None)
        e = element_of(it, r, (FI, DI))
        tag = f"st4_wind_input[{kind}]"
        if T.has_unknown(e) or fname(e) == "item":
            ctx.unsure("R08.1", tag, "stored value not extracted", fw.loc(), derived=e)
            ctx.absorb(it)
            continue
        v, shown = sign_verdict(e, NEG, ">= 0")
        ctx.expect(v, "R08.1", tag + "[sign]",
                   f"wind input >= 0 at every store (derived sign sets: {', '.join(shown)})", fw.loc(), derived=e, required=">= 0")
        z = substitute_zero(e, lambda t: t == E_fd)
        ctx.expect(z == 0, "R08.1", tag + "[zero without energy]", "the stored value vanishes where E[f,d] = 0", fw.loc(), derived=z)
        # downwind support
        e2 = erase_period(e)
        rd = op("item", grid("radian_direction"), DI)
        want_c = sp.cos(rd - THW * sp.pi / 180)
        # the guard: some ite whose condition is 0 < C (or 0 <= C) with C == cos(relative angle) at d
        guard = None

        def pull_items(x):
            # item(f(direction arrays), d) -> f(direction arrays at d): elementwise arithmetic over the direction axis
            arrays = {grid("radian_direction"): op("item", grid("radian_direction"), DI),
                      grid("direction_step"): op("item", grid("direction_step"), DI)}

            def fn(n):
                if fname(n) == "item" and n.args[1] == DI and isinstance(n.args[0], (sp.cos, sp.sin, sp.Mul, sp.Add)) \
                        and any(a in n.args[0].atoms(sp.Function) for a in arrays):
                    return n.args[0].xreplace(arrays)
                return None
            return T.rewrite(x, fn)

        e3 = pull_items(e2)
        conds = [n.args[0] for n in T.subterms(e3) if fname(n) == "ite"]
        downwind_when = True        # truth value of the guard on the bins that receive input
        for c in conds:
            if fname(c) in ("lt", "ge") and 0 in c.args:
                other = c.args[1] if c.args[0] == 0 else c.args[0]
                if T.equivalent(other, want_c) == T.Verdict.EQUAL:
                    # 0 < C or C >= 0: input where the condition holds;  C < 0 or 0 >= C: input where it does not
                    pos_form = (fname(c) == "lt" and c.args[0] == 0) or (fname(c) == "ge" and c.args[1] == 0)
                    guard, downwind_when = c, pos_form
        if guard is None:
            ctx.bad("R08.1", tag + "[downwind support]", "no guard `cos(theta_d - theta_wind) > 0` (or >= 0) selects the "
                    "bins that receive wind input", fw.loc(), derived=sp.Tuple(*conds[:4]) if conds else "no condition",
                    required=CMP("gt", want_c, 0))
        else:
            off = T.assume(e3, {guard: not downwind_when})
            ctx.expect(off == 0, "R08.1", tag + "[downwind support]",
                       "bins without a downwind component (cos(theta_d - theta_wind) <= 0) receive exactly zero",
                       fw.loc(), derived=off, required="0")
        # proportional to E at fixed roughness
        on = T.assume(e3, {guard: downwind_when}) if guard is not None else e3
        doubled = on.xreplace({E_fd: 2 * E_fd})
        rest = on.xreplace({E_fd: sp.Integer(1)})
        linear = doubled == 2 * on and not mentions(rest, E)
        ctx.expect(linear, "R08.1", tag + "[proportional to E]",
                   "the rate is (a factor free of the variance density) times E[f,d]: doubling E[f,d] doubles it", fw.loc(),
                   derived="degree-1 in E[f,d], other factors free of E" if linear else "not of the form G*E[f,d] with G free of E")
        ctx.absorb(it)

    # ------------------------------------------------------------------ R08.2 dissipation
    diss = {
        "st4": (WB + "st4_wave_breaking.st4_dissipation_breaking", True),
        "st6": (WB + "st6_wave_breaking.st6_dissipation", True),
        "romero": (WB + "romero_wave_breaking.romero_dissipation_breaking", False),
    }
    for name, (q, zero_guard) in diss.items():
        fd = p.get_function(q)
        it = kernel_interp(p)
        it.assume_true.append(lambda c: fname(c) == "lt" and c.args[0] == 0 and fname(c.args[1]) == "item"
                              and fname(c.args[1].args[0]) == "kdisp")
        r = it.call_function(fd, [E, DEPTH, GRID, PAR], {}, None)
        e = element_of(it, r, (FI, DI))
        tag = f"{name}_dissipation"
        if T.has_unknown(e) or fname(e) == "item":
            ctx.unsure("R08.2", tag, "stored value not extracted", fd.loc(), derived=e)
            ctx.absorb(it)
            continue
        v, shown = sign_verdict(e, POS, "<= 0")
        ctx.expect(v, "R08.2", tag + "[sign]",
                   f"dissipation <= 0 at every store (derived sign sets: {', '.join(shown)})", fd.loc(), derived=e, required="<= 0")
        # powers with a parameter exponent need a non-negative base (sign for every admissible parameter set)
        _s, sa_all = analyse(T.strip_never(e))
        for pw, sb in sa_all.symbolic_powers.items():
            okb = True if not sb & NEG else (False if not sb & POS else None)
            ctx.expect(okb, "R08.2", tag + f"[power base {T.show(pw.args[1], 40)}]",
                       f"base of a parameter-valued power is >= 0 (sign set {show(sb)})", fd.loc(), derived=pw.args[0])
        if zero_guard:
            z = substitute_zero(e, lambda t: t == E_fd)
            ctx.expect(z == 0, "R08.2", tag + "[zero without energy]", "vanishes where E[f,d] = 0", fd.loc(), derived=z)
            z = substitute_zero(e, lambda t: t == E)
            ctx.expect(z == 0, "R08.2", tag + "[empty spectrum]", "identically zero for an empty spectrum", fd.loc(), derived=z)
        ctx.absorb(it)

    # ------------------------------------------------------------------ R08.3 bulk == integral of spectral
    fstep, dstep = grid("frequency_step"), grid("direction_step")
    WINDFN = WB + "st4_wind_input._st4_wind_generation_point"
    DISSFN = WB + "st4_wave_breaking.st4_dissipation_breaking"
    VD, WS, WD, DP, ZZ = P("variance_density"), P("wind_speed"), P("wind_dir"), P("depths"), P("roughness")
    it = kernel_interp(p, {WINDFN: "windfn", DISSFN: "dissfn"})
    wfn, dfn = FuncVal(p.get_function(WINDFN)), FuncVal(p.get_function(DISSFN))
    gen_mod = WB + "generation."
    dis_mod = WB + "dissipation."

    def point_value(fn_qual, args):
        f = p.get_function(fn_qual)
        r = T.to_term(it.call_function(f, args, {}, None))
        if fname(r) != "tabulate":
            return f, None, None
        base, pat, val, lvs = flatten_tab(r)
        return f, val, lvs

    f1, v1, l1 = point_value(gen_mod + "_wind_generation", [VD, (WS, WD, "u10"), DP, ZZ, wfn, GRID, PAR])
    f2, v2, l2 = point_value(gen_mod + "_bulk_wind_generation", [VD, (WS, WD, "u10"), DP, ZZ, wfn, GRID, PAR])
    f3, v3, l3 = point_value(dis_mod + "_dissipation", [VD, DP, dfn, GRID, PAR])
    f4, v4, l4 = point_value(dis_mod + "_bulk_dissipation", [VD, DP, dfn, GRID, PAR])
    for (fs, vs, ls, fb, vb, lb, opn, what) in ((f1, v1, l1, f2, v2, l2, "windfn", "wind generation"),
                                                  (f3, v3, l3, f4, v4, l4, "dissfn", "dissipation")):
        if vs is None or vb is None:
            ctx.unsure("R08.3", f"bulk {what}", "point loops not summarised as tabulations", fb.loc())
            continue
        calls_s = T.find_ops(vs, opn)
        calls_b = T.find_ops(vb, opn)
        if len(calls_s) != 1 or len(calls_b) != 1:
            ctx.bad("R08.3", f"bulk {what}[same point function]", "the bulk kernel does not evaluate the registered point "
                    "function exactly once per point", fb.loc(), derived=str([T.show(c, 60) for c in calls_b]))
            continue
        cb = calls_b[0].xreplace({lb[0]: ls[0]})
        ctx.equiv("R08.3", f"bulk {what}[same wiring]", cb, calls_s[0], fb.loc(),
                  "the bulk kernel passes the point function the same per-point arguments as the spectral kernel", interp=it)
        m = match_nested_sum(vb, 2)
        if m is None:
            ctx.bad("R08.3", f"bulk {what}[integral]", "bulk value is not a double sum over frequency and direction",
                    fb.loc(), derived=vb)
        else:
            X, ((fv, fr), (dv, dr)) = m
            ref = op("item", calls_b[0], sp.Tuple(fv, dv)) * op("item", fstep, fv) * op("item", dstep, dv)
            ctx.equiv("R08.3", f"bulk {what}[integral]", X, ref, fb.loc(),
                      "bulk == sum_f sum_d rate[f,d]*frequency_step[f]*direction_step[d]", interp=it)
            arrays = (calls_b[0], calls_b[0].args[0]) if calls_b[0].args else (calls_b[0],)
            ctx.expect(full_range(fr, arrays, (0, -2)) and full_range(dr, arrays, (1, -1)), "R08.3", f"bulk {what}[all bins]",
                       "the double sum runs over every frequency and every direction bin of the point's rate array", fb.loc(),
                       derived=sp.Tuple(fr, dr))
        ctx.equiv("R08.3", f"spectral {what}[stored value]", vs, calls_s[0], fs.loc(),
                  "the spectral kernel stores the point function's result unchanged", interp=it)
    ctx.absorb(it)

    # methods: rate / bulk_rate hand the registered function and the spectrum's own grid
    from .common import spectrum_self, CLS_2D, spec_interp
    for cls_q, meths, fattr in ((WB + "generation.WindGeneration", ("rate", "bulk_rate"), "_wind_source_term_function"),
                                (WB + "dissipation.Dissipation", ("rate", "bulk_rate"), "_dissipation_function")):
        cls = p.get_class(cls_q)
        for mname in meths:
            m = p.get_method(cls_q, mname)
            kernel = {("WindGeneration", "rate"): "_wind_generation", ("WindGeneration", "bulk_rate"): "_bulk_wind_generation",
                      ("Dissipation", "rate"): "_dissipation", ("Dissipation", "bulk_rate"): "_bulk_dissipation"}[(cls.name, mname)]
            kq = cls_q.rsplit(".", 1)[0] + "." + kernel
            it2 = spec_interp(p, {kq: "kernel", WB + "source_term._numba_parameters": "numba_parameters",
                                  WB + "source_term._spectral_grid": "spectral_grid"})
            me = Obj(cls, {fattr: P("registered_fn"), "_parameters": {"k": P("v")}}, "term")
            spec = spectrum_self(p, CLS_2D)
            sp_ = P("speed")
            dr = P("direction")
            rl = P("roughness_length")
            it2.nonnull.add(rl)
            if cls.name == "WindGeneration":
                r = T.to_term(it2.call_function(m, [me, spec, sp_, dr, rl], {}, None))
            else:
                r = T.to_term(it2.call_function(m, [me, spec], {}, None))
            ks = T.find_ops(r, "kernel")
            if len(ks) != 1:
                ctx.unsure("R08.3", f"{cls.name}.{mname}", "kernel call not found", m.loc(), derived=r)
                continue
            kf = p.get_function(kq)
            names = kf.params
            got = dict(zip(names, ks[0].args))
            Evar = T.to_term(it2.get_attr(spec, "variance_density", None))
            depth = T.to_term(it2.get_attr(spec, "depth", None))
            okE = got.get("variance_density") == Evar
            okd = got.get("depth") == depth
            fkey = [n for n in names if n.endswith("source_term_function")]
            okf = bool(fkey) and got.get(fkey[0]) == P("registered_fn")
            okg = fname(got.get("spectral_grid")) == "spectral_grid"
            gargs = got.get("spectral_grid").args if okg else ()
            want = [T.to_term(it2.get_attr(spec, a, None)) for a in ("radian_frequency", "radian_direction", "frequency_step", "direction_step")]
            okg = okg and list(gargs) == want
            okw = True
            if cls.name == "WindGeneration":
                okw = got.get("wind") == sp.Tuple(sp_, dr, Str("u10")) and got.get("roughness_length") == rl
            ctx.expect(okE and okd and okf and okg and okw, "R08.3", f"{cls.name}.{mname}[wiring]",
                       "the kernel receives the spectrum's density and depth, the registered point function, the spectrum's own "
                       "bin widths and (for generation) the caller's wind and roughness", m.loc(),
                       derived=str({k: T.show(v, 50) for k, v in got.items()}))
            ctx.absorb(it2)

    # forcing type: every entry point that estimates the roughness length itself must solve it for the caller's
    # forcing (U10 or friction velocity) - the same one the kernel is then evaluated with
    gq = WB + "generation.WindGeneration"
    gcls = p.get_class(gq)
    kern_of = {"rate": "generation._wind_generation", "bulk_rate": "generation._bulk_wind_generation",
               "stress": "stress._wave_supported_stress", "tail_stress": "stress._tail_supported_stress"}
    nforward = 0
    for mname, kernel in kern_of.items():
        m = p.get_method(gq, mname)
        kq = WB + kernel
        it3 = spec_interp(p, {kq: "kernel", WB + "source_term._numba_parameters": "numba_parameters",
                              WB + "source_term._spectral_grid": "spectral_grid", gq + ".roughness": "roughness"})
        me = Obj(gcls, {"_wind_source_term_function": P("registered_fn"), "_tail_stress_parametrization_function": P("tail_fn"),
                        "_parameters": {"k": P("v")}}, "term")
        spec = spectrum_self(p, CLS_2D)
        wt = P("wind_speed_input_type")
        r = it3.call_function(m, [me, spec, P("speed"), P("direction"), NONE_T, wt], {}, None)
        ks = _find_in_value(r, "kernel")
        if len(ks) != 1:
            ctx.unsure("R08.3", f"WindGeneration.{mname}[forcing type]", "kernel call not found", m.loc())
            continue
        kf = p.get_function(kq)
        got = dict(zip(kf.params, ks[0].args))
        rcalls = T.find_ops(got.get("roughness_length"), "roughness")
        wind_t = got.get("wind")
        rparams = p.get_method(gq, "roughness").params
        ok = len(rcalls) == 1 and isinstance(wind_t, sp.Tuple) and len(wind_t) == 3 and wind_t[2] == wt
        if ok:
            rb = dict(zip(rparams, rcalls[0].args))
            ok = rb.get("wind_speed_input_type") == wt and rb.get("speed") == P("speed") and rb.get("direction") == P("direction")
        nforward += 1
        ctx.expect(ok, "R08.3", f"WindGeneration.{mname}[forcing type]",
                   "when the roughness length is estimated by the library it is solved for the caller's speed, direction and forcing "
                   "type, and the kernel is evaluated with that same forcing type", m.loc(),
                   derived=str({"wind": T.show(wind_t, 80), "roughness_length": T.show(got.get("roughness_length"), 120)}))
        ctx.absorb(it3)

    # ------------------------------------------------------------------ R08.4 imbalance
    bal_q = WB + "balance.SourceTermBalance"
    it3 = Interp(p, opaque={WB + "generation.WindGeneration.rate": "gen_rate", WB + "dissipation.Dissipation.rate": "dis_rate",
                            WB + "generation.WindGeneration.bulk_rate": "gen_bulk", WB + "dissipation.Dissipation.bulk_rate": "dis_bulk",
                            "wavespectra.spectrum.WaveSpectrum.m0": "m0"})
    gen = Obj(p.get_class(WB + "generation.WindGeneration"), {}, "generation")
    dis = Obj(p.get_class(WB + "dissipation.Dissipation"), {}, "dissipation")
    bal = Obj(p.get_class(bal_q), {"generation": gen, "dissipation": dis}, "balance")
    spec = spectrum_self(p, CLS_2D)
    dspec = Obj(p.get_class(CLS_2D), {"dataset": P("ds_dt")}, "dEdt")
    ws, wd = P("wind_speed"), P("wind_direction")
    m = p.get_method(bal_q, "evaluate_imbalance")
    r = T.to_term(it3.call_function(m, [bal, ws, wd, spec, dspec], {}, None))
    g = T.find_ops(r, "gen_rate")
    d = T.find_ops(r, "dis_rate")
    dE = op("item", P("ds_dt"), Str("variance_density"))
    ok = len(g) == 1 and len(d) == 1 and sp.expand(r - (g[0] + d[0] - dE)) == 0
    okargs = ok and g[0].args[1] == T.to_term(spec) and g[0].args[2] == ws and g[0].args[3] == wd and d[0].args[1] == T.to_term(spec)
    ctx.expect(ok and okargs, "R08.4", "SourceTermBalance.evaluate_imbalance",
               "imbalance == generation.rate(spectrum, speed, direction) + dissipation.rate(spectrum) - dE/dt", m.loc(), derived=r)
    r0 = T.to_term(it3.call_function(m, [bal, ws, wd, spec], {}, None))
    ctx.expect(len(T.find_ops(r0, "gen_rate")) == 1 and sp.expand(r0 - T.find_ops(r0, "gen_rate")[0] - T.find_ops(r0, "dis_rate")[0]) == 0,
               "R08.4", "SourceTermBalance.evaluate_imbalance[no dE/dt]", "without a rate of change the imbalance is generation + dissipation",
               m.loc(), derived=r0)
    m = p.get_method(bal_q, "evaluate_bulk_imbalance")
    r = T.to_term(it3.call_function(m, [bal, ws, wd, spec, dspec], {}, None))
    g = T.find_ops(r, "gen_bulk")
    d = T.find_ops(r, "dis_bulk")
    m0s = T.find_ops(r, "m0")
    ok = len(g) == 1 and len(d) == 1 and len(m0s) == 1 and sp.expand(r - (g[0] + d[0] - m0s[0])) == 0 \
        and m0s[0].args[0] == T.to_term(dspec)
    ctx.expect(ok, "R08.4", "SourceTermBalance.evaluate_bulk_imbalance",
               "bulk imbalance == generation.bulk_rate + dissipation.bulk_rate - m0(dE/dt)", m.loc(), derived=r)
    if ok:
        # the rate of change is integrated over the same band as the bulk source terms - the whole grid: no band limits are
        # handed to m0 (its half-open band [fmin, fmax) would drop the last bin if the grid's end points were passed)
        band = tuple(sp.oo if a_ == sp.oo or str(a_) in ("inf", "oo") else a_ for a_ in m0s[0].args[1:])
        extra = band not in ((), (sp.Integer(0),), (sp.Integer(0), sp.oo))
        ctx.expect(not extra, "R08.4", "SourceTermBalance.evaluate_bulk_imbalance[band of dE/dt]",
                   "m0 of the rate of change is taken over the whole frequency grid, like the bulk source terms", m.loc(),
                   derived=m0s[0])
    ctx.absorb(it3)

    # ------------------------------------------------------------------ R08.5 batch independence
    batch_independence(ctx, "R08.5", [
        gen_mod + "_wind_generation", gen_mod + "_bulk_wind_generation", dis_mod + "_dissipation",
        dis_mod + "_bulk_dissipation", dis_mod + "_bulk_dissipation_direction",
        WB + "stress._roughness_estimate", WB + "stress._wave_supported_stress", WB + "stress._tail_supported_stress",
        WB + "wind_inversion._u10_from_spectra", WB + "wind_inversion._u10_from_spectra_gradient",
    ])
    # ---- R08.6 source-term objects keep no unsynchronised copy of anything derived from a spectrum they were handed
    from ..statecache import instance_memo_rule, positive_example
    instance_memo_rule(ctx, "R08.6", [p.get_class(WB + "source_term.SourceTerm"), p.get_class(WB + "balance.SourceTermBalance")],
                       "source-term classes")
    positive_example(ctx, "R08.6")
    ctx.require_count("R08.6", 2)
    # ---- R08.7 kernels leave what they are handed alone: the spectral grid, the spectrum and the parameter table are shared by
    # every point of a batch (and by parallel threads); a kernel may write only an optional output buffer it was given for that
    # purpose (a parameter whose default is None).  Effect summaries (E4): item stores, in-place updates of array aliases
    # (`x = grid["k"]; x /= c`), mutating callees.
    from ..effects import Effects
    ef7 = Effects(p)
    n7 = 0
    for fk in p.all_functions:
        if not (fk.module.name.startswith("wavephysics.balance.") and fk.jitted and fk.cls is None):
            continue
        if fk.module.name.rsplit(".", 1)[-1] in ("wind_inversion", "solvers", "stress"):
            continue        # the inversion's roughness memory is a deliberate in/out argument (C10/C11)
        n7 += 1
        a_ = fk.node.args
        defaults = dict(zip(reversed([x.arg for x in a_.posonlyargs + a_.args]), reversed(a_.defaults)))
        outs = {k for k, v in defaults.items() if isinstance(v, ast.Constant) and v.value is None}
        sm = ef7.summary(fk, None)
        bad_w = [w for w in sm.writes if w.root not in outs]
        ctx.expect(not bad_w, "R08.7", f"{fk.qualname.split('wavephysics.balance.')[-1]}[arguments left alone]",
                   "the kernel writes nothing but its optional output buffer" if not bad_w else
                   f"the kernel writes its argument `{bad_w[0].root}` ({bad_w[0].text}): the grid/spectrum/parameters are shared by all points "
                   "of the batch, so every point after the first is computed from altered inputs",
                   fk.loc(bad_w[0].node) if bad_w else fk.loc(), derived=bad_w[0].text if bad_w else "")
    ctx.require_count("R08.7", 10)
    # ---- R08.8 the kernels weight every bin by frequency_step * direction_step taken from the spectrum: the direction bin widths
    # are the wrapped forward differences closed over the circle (shared with C02)
    from .c02 import direction_rules as _dir_rules
    with ctx.renamed({"R02.1": "R08.8", "R02.2": "R08.8", "R02.3": "R08.8"}):
        _dir_rules(ctx)
    ctx.require_count("R08.8", 8)
    ctx.require_count("R08.1", 12)
    ctx.require_count("R08.2", 7)
    ctx.require_count("R08.3", 14)
    ctx.require_count("R08.4", 4)
    ctx.require_count("R08.5", 10)


# ---------------------------------------------------------------------------- batch loops
def _find_in_value(v, name):
    """kernel calls inside an interpreter value (term, tuple, list, dataset, DataArray model)"""
    out = []
    seen = set()

    def walk(x):
        if id(x) in seen:
            return
        seen.add(id(x))
        if isinstance(x, sp.Basic):
            for o in T.find_ops(x, name):
                if o not in out:
                    out.append(o)
            return
        if isinstance(x, (list, tuple)):
            for y in x:
                walk(y)
        elif isinstance(x, dict):
            for y in x.values():
                walk(y)
        elif hasattr(x, "__dict__"):
            for y in vars(x).values():
                walk(y)
    walk(v)
    return out


def batch_independence(ctx, rule, quals):
    """Each per-point loop: outputs stored at the loop index in the leading axis, per-point inputs read only at the
    loop index, no scalar carried from one iteration to the next, no shared buffer handed to a callee."""
    p = ctx.program
    for q in quals:
        f = p.get_function(q)
        loops = [n for n in ast.walk(f.node) if isinstance(n, ast.For)]
        point_loops = []
        for lp in loops:
            if isinstance(lp.target, ast.Name) and isinstance(lp.iter, ast.Call):
                fn = ast.unparse(lp.iter.func)
                if fn in ("range", "numba.prange", "prange") and "number_of_points" in ast.unparse(lp.iter):
                    point_loops.append(lp)
        if len(point_loops) != 1:
            ctx.unsure(rule, f"{f.name}", f"expected one per-point loop, found {len(point_loops)}", f.loc())
            continue
        lp = point_loops[0]
        iv = lp.target.id
        problems = []
        # names assigned before the loop (arrays allocated outside) and parameters
        params = set(f.params)
        pre_assigned = set()
        for st in f.node.body:
            if st is lp:
                break
            for n in ast.walk(st):
                if isinstance(n, ast.Assign):
                    for t in n.targets:
                        for x in ast.walk(t):
                            if isinstance(x, ast.Name):
                                pre_assigned.add(x.id)
        shape_like = {n for n in pre_assigned if n.startswith("number_of")}
        outer_arrays = pre_assigned - shape_like
        body_assigned = set()
        for st in lp.body:
            for n in ast.walk(st):
                if isinstance(n, (ast.Assign, ast.AugAssign)):
                    targets = n.targets if isinstance(n, ast.Assign) else [n.target]
                    for t in targets:
                        for el in (t.elts if isinstance(t, ast.Tuple) else [t]):
                            if isinstance(el, ast.Name):
                                body_assigned.add(el.id)
                                if el.id in outer_arrays or el.id in params:
                                    problems.append(f"scalar/array `{el.id}` defined outside the loop is reassigned inside it")
                                if isinstance(n, ast.AugAssign):
                                    problems.append(f"`{el.id}` is accumulated across iterations")
                            elif isinstance(el, ast.Subscript):
                                base = el.value
                                while isinstance(base, ast.Subscript):
                                    base = base.value
                                bname = base.id if isinstance(base, ast.Name) else None
                                idx = el.slice
                                first = idx.elts[0] if isinstance(idx, ast.Tuple) else idx
                                if not (isinstance(first, ast.Name) and first.id == iv):
                                    problems.append(f"store into `{bname}` is not indexed by the point index in its leading axis")
        # reads: locals assigned in the body must be assigned before use in the same iteration (no carry-over)
        from ..cfg import CFG, definitely_assigned, stmt_uses
        mini = ast.FunctionDef(name="body", args=ast.arguments(posonlyargs=[], args=[], kwonlyargs=[], kw_defaults=[], defaults=[]),
                               body=lp.body, decorator_list=[], lineno=lp.lineno, col_offset=0)
        cfg = CFG(mini)
        IN = definitely_assigned(cfg, set())
        for st in cfg.stmts:
            for u in stmt_uses(st):
                if u.id in body_assigned and u.id not in IN[st] and u.id not in outer_arrays and u.id not in params:
                    problems.append(f"`{u.id}` may be read before it is assigned in the iteration (carried from the previous point)")
        # per-point inputs: parameters that are subscripted by the point index somewhere must always be
        per_point = set()
        for n in ast.walk(lp):
            if isinstance(n, ast.Subscript) and isinstance(n.value, (ast.Name, ast.Subscript)):
                base = n.value
                while isinstance(base, ast.Subscript):
                    base = base.value
                idx = n.slice
                first = idx.elts[0] if isinstance(idx, ast.Tuple) else idx
                if isinstance(base, ast.Name) and base.id in params and isinstance(first, ast.Name) and first.id == iv:
                    per_point.add(ast.unparse(n.value))
        for n in ast.walk(lp):
            if isinstance(n, ast.Call):
                for a in list(n.args) + [k.value for k in n.keywords]:
                    txt = ast.unparse(a)
                    if txt in per_point:
                        problems.append(f"per-point array `{txt}` is passed whole to `{ast.unparse(n.func)}` inside the point loop")
                    if isinstance(a, ast.Name) and a.id in outer_arrays and a.id not in params:
                        problems.append(f"buffer `{a.id}` allocated outside the loop is handed to `{ast.unparse(n.func)}` (shared between points)")
        from .fc import whole_axis_range
        okr, ext = whole_axis_range(f.node, lp)
        if not okr:
            problems.append(f"the point loop runs over `{ext}`, not over the whole leading axis: some points are never computed")
        if problems:
            ctx.bad(rule, f"{f.name}[point loop]", "; ".join(sorted(set(problems))), f.loc(lp))
        else:
            ctx.ok(rule, f"{f.name}[point loop]", "outputs stored at the point index, inputs read at the point index, nothing "
                   "carried between iterations, no shared buffer", f.loc(lp))
