"""C03 -- mean / peak direction and spread follow their definitions."""
from __future__ import annotations

import sympy as sp

from .. import terms as T
from ..terms import P
from .. import envres
from .common import (CLS_1D, CLS_2D, spectrum_self, spec_interp, norm_sel, FMIN, FMAX, OO, mean_direction_ref,
                     spread_ref, weighted_ref, peak_index_ref, at_index)

EXPLANATION = (
    "TermFlow evaluates mean_direction, mean_directional_spread, mean_a1..mean_b2, peak_direction, "
    "peak_directional_spread and the per-frequency variants on both spectrum classes and compares with "
    "atan2(B, A)*180/pi and sqrt(2-2*sqrt(A^2+B^2))*180/pi, where (A,B) are the class's own a1/b1 at the peak index, "
    "per frequency, or the energy-weighted band averages trapz_f(fillna0(p)[band]*e[band]) / m0(band). Decided: "
    "atan2 argument order (sin-moment first), radian->degree factor applied once, which moment feeds which slot, "
    "band forwarded to numerator and normaliser, and that every numpy/xarray attribute used on these paths exists in "
    "the pinned environment; the 2-D class's direction quadrature (wrapped bin widths closed over the circle, e, a1..b2) is checked as in C02. Not decided: output ranges and the rotation/mirror relations between two runs."
)


def run(ctx):
    ctx.explanation = EXPLANATION
    p = ctx.program
    ctx.trust("np.arctan2(y, x): angle of the point (x, y)", "np.trapz/np.trapezoid(y, x): trapezoidal rule")
    for cls in (CLS_1D, CLS_2D):
        cname = cls.split(".")[-1]
        it = spec_interp(p)
        me = spectrum_self(p, cls)
        e1d = it.get_attr(me, "e", None)
        mom = {n: it.get_attr(me, n, None) for n in ("a1", "b1", "a2", "b2")}

        def call(name, *args):
            f = p.get_method(cls, name)
            if f.is_property:
                return it.call_function(f, [me], {}, None), f
            return it.call_function(f, [me] + list(args), {}, None), f

        # R03.3 energy weighted band averages
        W = {n: weighted_ref(mom[n], e1d) for n in mom}
        for n in mom:
            r, f = call("mean_" + n, FMIN, FMAX)
            ctx.equiv("R03.3", f"{cname}.mean_{n}", r, W[n], f.loc(),
                      f"mean_{n} == trapz(fillna0({n})[band]*e[band]) / m0(band)", norm=norm_sel, interp=it)
        # R03.1 / R03.2 band-mean direction and spread
        r, f = call("mean_direction", FMIN, FMAX)
        ctx.equiv("R03.1", f"{cname}.mean_direction", r, mean_direction_ref(W["a1"], W["b1"]), f.loc(),
                  "atan2(mean_b1, mean_a1) in degrees", norm=norm_sel, interp=it)
        r, f = call("mean_directional_spread", FMIN, FMAX)
        ctx.equiv("R03.2", f"{cname}.mean_directional_spread", r, spread_ref(W["a1"], W["b1"]), f.loc(),
                  norm=norm_sel, interp=it)
        Z = sp.Integer(0)
        W0 = {n: weighted_ref(mom[n], e1d, Z, OO) for n in ("a1", "b1")}
        r, f = call("mean_direction")
        ctx.equiv("R03.1", f"{cname}.mean_direction[default band]", r, mean_direction_ref(W0["a1"], W0["b1"]),
                  f.loc(), norm=norm_sel, interp=it)
        # per frequency
        r, f = call("mean_direction_per_frequency")
        ctx.equiv("R03.1", f"{cname}.mean_direction_per_frequency", r, mean_direction_ref(mom["a1"], mom["b1"]),
                  f.loc(), norm=norm_sel, interp=it)
        r, f = call("mean_spread_per_frequency")
        ctx.equiv("R03.2", f"{cname}.mean_spread_per_frequency", r, spread_ref(mom["a1"], mom["b1"]),
                  f.loc(), norm=norm_sel, interp=it)
        # peak variants
        idx = peak_index_ref(e1d)
        a, b = at_index(mom["a1"], idx), at_index(mom["b1"], idx)
        r, f = call("peak_direction", FMIN, FMAX)
        ctx.equiv("R03.1", f"{cname}.peak_direction", r, mean_direction_ref(a, b), f.loc(),
                  "moments taken at the band-restricted peak index", norm=norm_sel, interp=it)
        r, f = call("peak_directional_spread", FMIN, FMAX)
        ctx.equiv("R03.2", f"{cname}.peak_directional_spread", r, spread_ref(a, b), f.loc(), norm=norm_sel, interp=it)

        envres.check_ext_used(ctx, it, "R03.4", cname)
        ctx.absorb(it)
        ctx.notes.extend(it.unknown_notes[:5])
    # the 2-D direction parameters are built on the direction quadrature: bin widths, e, a1..b2 (rules shared with C02)
    from . import c02
    with ctx.renamed({"R02.1": "R03.5", "R02.2": "R03.5", "R02.3": "R03.5"}):
        c02.direction_rules(ctx)
    # ---- R03.6 no unsynchronised derived state on the objects this property queries (shared rule, see statecache.py)
    from ..statecache import instance_memo_rule as _memo, positive_example as _memo_pos
    _memo(ctx, "R03.6", [p.get_class("wavespectra.spectrum.FrequencySpectrum"), p.get_class("wavespectra.spectrum.FrequencyDirectionSpectrum")], "spectrum classes")
    _memo_pos(ctx, "R03.6")
    ctx.require_count("R03.6", 2)
    ctx.require_count("R03.5", 10)
    ctx.require_count("R03.1", 8)
    ctx.require_count("R03.2", 6)
    ctx.require_count("R03.3", 8)
    ctx.require_count("R03.4", 6)
