"""C19 -- file cache: failed or interrupted downloads never poison the cache."""
from __future__ import annotations

import ast

from ..callgraph import CallGraph
from ..cfg import CFG, ENTRY, EXIT
from ..mini import must_fire
from .fc import returned_name, FCM, FC, dotted, own_walk, calls, call_name, resolve_ext, local_assignments, destructive_sinks

EXPLANATION = (
    "Structural rules over the download path of the file cache, decided on the syntax tree and per-function CFGs: "
    "(1) an entry is registered only inside `if success` for the (miss, success) pairs of the download, a failed miss "
    "is removed from the returned list, the worker returns True only after download and post-processing completed "
    "(dominance), swallows only the not-found exception (and only in tolerant mode; otherwise it re-raises) - any broader "
    "handler must re-raise; (2) every deletion of a cache file inside FileCache is paired, in the same function, with "
    "removal of its entry on all paths (the deletion is dominated or post-dominated by an `_entries.pop`, or goes "
    "through the entry+file remover); (3) atomic publication: the download function and the post-processor receive a "
    "temporary name (final path + literal suffix that the adoption filter rejects because it does not end with the "
    "cache postfix), the final name is produced only by os.replace(temporary, final) placed after both calls, and a "
    "failure removes the temporary file. This is the static form of the invariant that crash-point enumeration would "
    "test; the enumeration itself is not performed."
)


def handler_names(h: ast.ExceptHandler):
    if h.type is None:
        return ["<bare>"]
    if isinstance(h.type, ast.Tuple):
        return [dotted(e) or "?" for e in h.type.elts]
    return [dotted(h.type) or "?"]


def ends_with_raise(body) -> bool:
    return bool(body) and isinstance(body[-1], ast.Raise)


def paired_removal_rule(ctx, rule, p, funcs):
    n = 0
    for f in funcs:
        cfg = None
        for call, arg, kind in destructive_sinks(p, f):
            if not kind.startswith(("os.remove", "os.unlink")):
                continue
            # temporary-file cleanup is not an entry deletion
            la = local_assignments(f.node)
            if isinstance(arg, ast.Name) and any(
                    d[0] == "assign" and isinstance(d[1], ast.BinOp) and isinstance(d[1].op, ast.Add)
                    and isinstance(d[1].right, ast.Constant) for d in la.get(arg.id, [])):
                continue
            n += 1
            if cfg is None:
                cfg = CFG(f.node, exceptions=False)
            st = cfg.stmt_of(call)
            pops = []
            for c in calls(f.node):
                if call_name(c).endswith("_entries.pop"):
                    pops.append(cfg.stmt_of(c))
            for node in own_walk(f.node):
                if isinstance(node, ast.Delete) and any((dotted(t) or "").endswith("_entries[]") for t in node.targets):
                    pops.append(node)
            pops = [x for x in pops if x is not None]
            ok = st is not None and any(cfg.dominates(x, st) or cfg.postdominates(x, st) for x in pops)
            cname = f"{f.qualname}:{kind}({ast.unparse(arg)[:40]})"
            if ok:
                ctx.ok(rule, cname, "the file deletion is paired with removal of its entry on every path", f.loc(call))
            else:
                ctx.bad(rule, cname, "a cache file is deleted while its entry stays registered: later requests are served "
                        "a path that no longer exists", f.loc(call), derived=ast.unparse(call),
                        required="_entries.pop(...) on every path through the deletion (or _remove_item_from_cache)")
    return n


POSITIVE_R192 = {"m.py": "import os\n\nclass FileCache:\n    def __init__(self):\n        self._entries = {}\n"
                         "    def drop(self, key, path):\n        if key in self._entries:\n            os.remove(path)\n"}


def run(ctx):
    ctx.explanation = EXPLANATION
    p = ctx.program
    ctx.trust("os.replace is atomic within a file system", "files adopted on start-up must end with the cache postfix (C18 R18.3)")
    cache_cls = p.get_class(FC)
    from .fc import inline_value_calls
    from .c18 import CACHE_VOCABULARY
    gi = inline_value_calls(p, p.get_method(FC, "__getitem__"), keep=CACHE_VOCABULARY)
    gm = inline_value_calls(p, p.get_method(FC, "get_cache_misses"), keep=CACHE_VOCABULARY)      # private helpers are seen through
    dl = p.get_function(FCM + "._download_from_resources")
    # the worker is the function mapped over the misses (map / pool.imap / pool.map), wherever it is defined
    worker = None
    for c in calls(dl.node):
        nm_ = call_name(c)
        if (nm_ == "map" or nm_.endswith((".imap", ".map", ".imap_unordered", ".starmap"))) and c.args and isinstance(c.args[0], ast.Name):
            cand = p.nested_function(dl, c.args[0].id) or p.resolve_name(dl.module, c.args[0].id)
            if cand is not None and hasattr(cand, "node"):
                worker = cand
                break
    if worker is None:
        cands = [f for f in p.all_functions if f.parent is dl]
        worker = cands[0] if cands else None
    if worker is None:
        ctx.unsure("R19.1", "_download_from_resources[_worker]", "no worker function found", dl.loc())
        return

    # ---- R19.1 registration only on success
    adds = [c for c in calls(gi.node) if call_name(c) == "self._add_to_cache"]
    ok_all = bool(adds)
    unknown_else = False
    for a in adds:
        fors = [n for n in own_walk(gi.node) if isinstance(n, ast.For) and a in [x for b in n.body for x in ast.walk(b)]]
        ok = False
        for lp in fors:
            it = lp.iter
            if isinstance(it, ast.Call) and call_name(it) == "zip" and isinstance(lp.target, ast.Tuple) and len(lp.target.elts) == 2:
                flag = lp.target.elts[1].id if isinstance(lp.target.elts[1], ast.Name) else None
                ifs = [n for n in ast.walk(lp) if isinstance(n, ast.If) and isinstance(n.test, ast.Name) and n.test.id == flag]
                for i in ifs:
                    in_body = a in [x for b in i.body for x in ast.walk(b)]
                    else_pops = any(isinstance(c, ast.Call) and isinstance(c.func, ast.Attribute) and c.func.attr in (
                        "pop", "remove") and (dotted(c.func.value) or "") == (returned_name(gi.node) or "?") for b in i.orelse for c in ast.walk(b))
                    if in_body and not else_pops:
                        # ... or the failed paths are collected in a list whose elements are later removed from the result
                        la_gi = local_assignments(gi.node)
                        coll = [c.func.value.id for b in i.orelse for c in ast.walk(b) if isinstance(c, ast.Call)
                                and isinstance(c.func, ast.Attribute) and c.func.attr == "append" and isinstance(c.func.value, ast.Name)]

                        def aliases(nm, target, depth=0):
                            if nm == target:
                                return True
                            return depth < 4 and any(d[0] == "assign" and isinstance(d[1], ast.Name) and aliases(d[1].id, target, depth + 1)
                                                     for d in la_gi.get(nm, []))
                        for lp2 in [n for n in own_walk(gi.node) if isinstance(n, ast.For) and isinstance(n.iter, ast.Name)
                                    and isinstance(n.target, ast.Name)]:
                            if any(aliases(lp2.iter.id, c_) for c_ in coll) and any(
                                    isinstance(c, ast.Call) and isinstance(c.func, ast.Attribute) and c.func.attr == "remove"
                                    and (dotted(c.func.value) or "") == (returned_name(gi.node) or "?") and len(c.args) == 1
                                    and isinstance(c.args[0], ast.Name) and c.args[0].id == lp2.target.id
                                    for b in lp2.body for c in ast.walk(b)):
                                else_pops = True
                    if in_body and not else_pops:
                        # ... or the failed paths are recorded in a table (dict of counts, set) and the result is rebuilt from the requested
                        # list by a loop that consults the table and appends the paths it keeps to the list that is returned
                        rn_ = returned_name(gi.node) or "?"
                        tables = {t_.value.id for b in i.orelse for st_ in ast.walk(b) if isinstance(st_, (ast.Assign, ast.AugAssign))
                                  for t_ in (st_.targets if isinstance(st_, ast.Assign) else [st_.target])
                                  if isinstance(t_, ast.Subscript) and isinstance(t_.value, ast.Name)
                                  and any(isinstance(x, ast.Attribute) and x.attr == "filepath" for x in ast.walk(t_.slice))}
                        tables |= {c.func.value.id for b in i.orelse for c in ast.walk(b) if isinstance(c, ast.Call) and isinstance(c.func, ast.Attribute)
                                   and c.func.attr == "add" and isinstance(c.func.value, ast.Name)}
                        for lp2 in [n for n in own_walk(gi.node) if isinstance(n, ast.For) and isinstance(n.iter, ast.Name) and n.iter.id == rn_
                                    and isinstance(n.target, ast.Name)]:
                            for if2 in [n for n in ast.walk(lp2) if isinstance(n, ast.If)]:
                                if not any(isinstance(x, ast.Name) and x.id in tables for x in ast.walk(if2.test)):
                                    continue
                                kept = [c.func.value.id for br in (if2.body, if2.orelse) for st_ in br for c in ast.walk(st_)
                                        if isinstance(c, ast.Call) and isinstance(c.func, ast.Attribute) and c.func.attr == "append"
                                        and isinstance(c.func.value, ast.Name) and len(c.args) == 1 and isinstance(c.args[0], ast.Name)
                                        and c.args[0].id == lp2.target.id]
                                la_gi2 = local_assignments(gi.node)
                                if any(any(d[0] == "assign" and isinstance(d[1], ast.Name) and d[1].id == k_ for d in la_gi2.get(rn_, []))
                                       or k_ == rn_ for k_ in kept):
                                    else_pops = True
                    if in_body and else_pops:
                        ok = True
                    elif in_body and any(isinstance(x, ast.Attribute) and x.attr == "filepath" for b in i.orelse for x in ast.walk(b)):
                        # the failed path is recorded in some other way this rule does not follow: no verdict on that half
                        unknown_else = True
        ok_all = ok_all and ok
    if not ok_all and unknown_else and adds:
        ok_all = None
    ctx.expect(ok_all, "R19.1", "__getitem__[register on success only]",
               "_add_to_cache runs only under the success flag of its own download; failed misses leave the returned list",
               gi.loc(adds[0]) if adds else gi.loc())
    # worker: returns True only after download and post-process
    from .fc import inline_statement_calls
    from .fc import normalise_pathlib
    worker = normalise_pathlib(p, worker)          # pathlib spellings of replace / unlink / exists read as the os calls
    wnode = inline_statement_calls(p, worker)      # see through helper extraction (download/publish moved into a helper)
    cfgw = CFG(wnode, exceptions=False)
    dcalls = [c for c in calls(wnode) if call_name(c).endswith(".download_function")]
    pcalls = [c for c in calls(wnode) if call_name(c).endswith(".post_process_function")]
    trues = [n for n in own_walk(wnode) if isinstance(n, ast.Return) and isinstance(n.value, ast.Constant) and n.value.value is True]
    if len(dcalls) != 1 or len(pcalls) != 1 or not trues:
        ctx.unsure("R19.1", "_worker[success path]", "download/post-process/return True not found in the expected multiplicity", worker.loc())
    else:
        ds, ps = cfgw.stmt_of(dcalls[0]), cfgw.stmt_of(pcalls[0])
        ok = all(cfgw.dominates(ds, t) and cfgw.dominates(ps, t) for t in trues) and cfgw.dominates(ds, ps)
        ctx.expect(ok, "R19.1", "_worker[success path]",
                   "True is returned only after the download and then the post-processing completed", worker.loc(trues[0]))
    # handlers
    from .fc import scenario_paths

    def handler_scenarios(h):
        """events on every path through the handler body for: another exception / not-found in strict mode / not-found in tolerant mode"""
        out = {}
        for label, nf, tol in (("other", False, True), ("other2", False, False), ("notfound_strict", True, False), ("notfound_tolerant", True, True)):
            def oracle(test, e, nf=nf, tol=tol):
                if isinstance(test, ast.Call) and isinstance(test.func, ast.Name) and test.func.id == "isinstance" and len(test.args) == 2 \
                        and isinstance(test.args[0], ast.Name) and test.args[0].id == (h.name or "?") \
                        and ast.unparse(test.args[1]).endswith("_RemoteResourceUriNotFound"):
                    return nf
                if isinstance(test, ast.Attribute) and test.attr == "allow_for_missing_files":
                    return tol
                if isinstance(test, ast.Call) and resolve_ext(p, worker, test) == "os.path.exists":
                    return True         # the scenario: the partial file is there
                return None

            def ev_of(c):
                return "cleanup" if resolve_ext(p, worker, c) in ("os.remove", "os.unlink") else None
            paths = [ev_ for _, ev_ in scenario_paths(h.body, {}, oracle, ev_of)]
            out[label] = paths
        out["other"] = out["other"] + out.pop("other2")
        return out
    for tr in [n for n in own_walk(wnode) if isinstance(n, ast.Try)]:
        for h in tr.handlers:
            names = handler_names(h)
            broad = any(n in ("<bare>", "Exception", "BaseException") for n in names)
            returns_value = any(isinstance(n, ast.Return) for b in h.body for n in ast.walk(b))
            cname = f"_worker[except {'/'.join(names)}]"
            if broad:
                okb = ends_with_raise(h.body) and not returns_value
                if not okb:
                    # one handler for everything that tells the not-found exception apart itself: decided per scenario
                    sc = handler_scenarios(h)
                    okb = bool(sc["other"]) and all("raise" in ev_ for ev_ in sc["other"]) \
                        and bool(sc["notfound_strict"]) and all("raise" in ev_ for ev_ in sc["notfound_strict"]) \
                        and bool(sc["notfound_tolerant"]) and all("return:False" in ev_ and "raise" not in ev_ for ev_ in sc["notfound_tolerant"])
                ctx.expect(okb, "R19.1", cname,
                           "a handler broader than not-found must re-raise (no failure is turned into a result; only the not-found "
                           "exception in tolerant mode yields False)", worker.loc(h))
            else:
                ok = all(n.endswith("_RemoteResourceUriNotFound") for n in names)
                # must return False (never True) and re-raise unless tolerant
                rets = [n for b in h.body for n in ast.walk(b) if isinstance(n, ast.Return)]
                ret_false = all(isinstance(r.value, ast.Constant) and r.value.value is False for r in rets)
                tolerant = [n for b in h.body for n in ast.walk(b) if isinstance(n, ast.If)
                            and "allow_for_missing_files" in ast.unparse(n.test)]
                reraises = any(any(isinstance(x, ast.Raise) for y in t.orelse for x in ast.walk(y)) for t in tolerant)
                if ok and ret_false and not (bool(tolerant) and reraises):
                    # the same policy written the other way round (`if not tolerant: raise`): decided per scenario
                    sc = handler_scenarios(h)
                    if sc["notfound_strict"] and all("raise" in ev_ for ev_ in sc["notfound_strict"]) and sc["notfound_tolerant"] and all(
                            "return:False" in ev_ and "raise" not in ev_ for ev_ in sc["notfound_tolerant"]):
                        tolerant, reraises = [True], True
                ctx.expect(ok and ret_false and bool(tolerant) and reraises, "R19.1", cname,
                           "only the not-found exception is tolerated, only in tolerant mode, and it yields False", worker.loc(h))
    # ---- R19.2 deletions paired with entry removal
    fc_methods = [m for m in list(cache_cls.methods.values())]
    paired_removal_rule(ctx, "R19.2", p, fc_methods)
    must_fire(ctx, "R19.2", POSITIVE_R192,
              lambda sub, mp: paired_removal_rule(sub, "R19.2", mp, [f for f in mp.all_functions if f.cls is not None]),
              "file deletion without entry removal")
    # validation failure leads to a re-download: the invalid branch must reach the miss construction
    # path-sensitive walk of the per-URI loop body for the scenario "entry present, validate directive given, validator rejects":
    # every such path must both drop the entry (with its file) and construct the miss that re-downloads it
    def rejected_paths(stmts, env, events):
        """all (env, events) reachable at the end of stmts; env maps local names to True/False (known truth) """
        states = [(dict(env), list(events))]
        for st in stmts:
            nxt = []
            for e, ev_ in states:
                nxt += step(st, e, ev_)
            states = nxt
        return states

    def truth(test, env):
        if isinstance(test, ast.Name):
            return env.get(test.id)
        if isinstance(test, ast.UnaryOp) and isinstance(test.op, ast.Not):
            v = truth(test.operand, env)
            return None if v is None else (not v)
        txt = ast.unparse(test)
        if "_is_in_cache" in txt and not txt.startswith("not "):
            return True
        if isinstance(test, ast.Call):
            tv = value_truth(test, env)
            if tv is not None:
                return tv
        if isinstance(test, ast.Compare) and len(test.ops) == 1 and isinstance(test.ops[0], ast.NotIn) \
                and isinstance(test.left, ast.Constant) and test.left.value == "validate":
            return False
        if isinstance(test, ast.Compare) and len(test.ops) == 1 and isinstance(test.ops[0], ast.In) \
                and isinstance(test.left, ast.Constant) and test.left.value == "validate":
            return True
        return None

    def value_truth(v, env):
        if isinstance(v, ast.Constant) and isinstance(v.value, bool):
            return v.value
        if isinstance(v, ast.Name):
            return env.get(v.id)
        if isinstance(v, ast.Call) and isinstance(v.func, ast.Name) and v.func.id == "bool" and v.args:
            return value_truth(v.args[0], env)
        if isinstance(v, ast.Call) and isinstance(v.func, ast.Name) and env.get("@validator") == v.func.id:
            return False            # the scenario: the validator rejects
        return None

    def step(st, env, events):
        for c in [n for n in ast.walk(st) if isinstance(n, ast.Call)] if not isinstance(st, (ast.If, ast.Try, ast.For, ast.While)) else []:
            nm = call_name(c)
            if nm.endswith("_remove_item_from_cache"):
                events = events + ["remove"]
            if nm == "CacheMiss":
                events = events + ["miss"]
        if isinstance(st, (ast.Assign, ast.AnnAssign)) and getattr(st, "value", None) is not None:
            tg = st.targets[0] if isinstance(st, ast.Assign) else st.target
            if isinstance(tg, ast.Name):
                env = dict(env)
                v = st.value
                if isinstance(v, ast.Subscript) and "validate" in ast.unparse(v):
                    env["@validator"] = tg.id          # the looked-up validation function
                tv = value_truth(v, env)
                if tv is None:
                    env.pop(tg.id, None)
                else:
                    env[tg.id] = tv
            return [(env, events)]
        if isinstance(st, ast.If):
            tv = truth(st.test, env)
            out = []
            if tv is not False:
                out += rejected_paths(st.body, env, events)
            if tv is not True:
                out += rejected_paths(st.orelse, env, events)
            return out
        if isinstance(st, ast.Try):
            calls_validator = any(isinstance(c, ast.Call) and isinstance(c.func, ast.Name) and env.get("@validator") == c.func.id
                                  for b_ in st.body for c in ast.walk(b_))
            if env.get("@raises") and calls_validator:
                # second scenario: the validator cannot read the file and raises IOError - the handlers that catch it run instead
                # of the rest of the body and of the else block
                out = []
                for h in st.handlers:
                    names = {ast.unparse(x) for x in ([h.type] if h.type is not None and not isinstance(h.type, ast.Tuple) else (
                        h.type.elts if h.type is not None else []))}
                    if h.type is None or names & {"IOError", "OSError", "EnvironmentError", "Exception", "BaseException"}:
                        out += rejected_paths(h.body + st.finalbody, env, events)
                        break
                return out if out else [(env, events + ["propagates", "exit"])]
            # the validator returns (it does not raise): the handlers are not taken
            return rejected_paths(st.body + st.orelse + st.finalbody, env, events)
        if isinstance(st, (ast.Continue, ast.Break, ast.Return)):
            return [(env, events + ["exit"])]
        return [(env, events)]

    loops_gm = [n for n in own_walk(gm.node) if isinstance(n, ast.For) and any(
        isinstance(c, ast.Call) and call_name(c) == "CacheMiss" for c in ast.walk(n))]
    okrej = False
    detail = ""
    if len(loops_gm) == 1:
        finals = rejected_paths(loops_gm[0].body, {}, [])
        okrej = bool(finals) and all("remove" in ev_ and "miss" in ev_ for _, ev_ in finals)
        detail = "; ".join(sorted({"+".join(ev_) or "nothing" for _, ev_ in finals}))
    ctx.expect(okrej, "R19.2", "get_cache_misses[rejected entry is re-fetched]",
               "on every path on which the validator rejects a present entry, the entry (and its file) is dropped and a miss is "
               "scheduled for download", gm.loc(), derived=detail)
    if len(loops_gm) == 1:
        finals = rejected_paths(loops_gm[0].body, {"@raises": True}, [])
        handled = [ev_ for _, ev_ in finals if "propagates" not in ev_]
        okraise = all("remove" in ev_ and "miss" in ev_ for ev_ in handled)
        ctx.expect(okraise if finals else None, "R19.2", "get_cache_misses[unreadable entry is re-fetched]",
                   "when the validator raises IOError on a present entry and the error is caught, the entry (and its file) is dropped "
                   "and a miss is scheduled, exactly as for a rejection by value", gm.loc(),
                   derived="; ".join(sorted({"+".join(ev_) or "nothing" for _, ev_ in finals})))

    # ---- R19.4 every directive of a request is honoured, and a failure is attributed to its own URI
    from .fc import loop_locals_used_after
    for q in (FCM + ".parse_directive", FCM + ".parse_directives"):
        fpd = p.get_function(q)
        late = [(n, lp, st) for n, lp, st in loop_locals_used_after(fpd.node)]
        ctx.expect(not late, "R19.4", f"{fpd.name}[every element handled inside the loop]",
                   "no statement after a loop consumes a per-element local of that loop" if not late else
                   "; ".join(f"`{n}` is bound per element of `{ast.unparse(lp.iter)}` but consumed by `{ast.unparse(st)[:60]}` after the "
                             "loop: only the last element takes effect (a `validate=` directive that is not last is dropped and a "
                             "rejected entry is served)" for n, lp, st in late), fpd.loc(late[0][2]) if late else fpd.loc())
    bad_maps = [c for c in calls(dl.node) if isinstance(c.func, ast.Attribute) and c.func.attr in (
        "imap_unordered", "map_async", "apply_async", "starmap_async")]
    ctx.expect(not bad_maps, "R19.4", "_download_from_resources[results in request order]",
               "success flags come back in the order of the misses they are zipped with, so a failed download is attributed to its own "
               "URI (an unordered map would register the missing URI and drop a downloaded one)", dl.loc(bad_maps[0]) if bad_maps else dl.loc(),
               derived=", ".join(ast.unparse(c.func) for c in bad_maps))
    ctx.require_count("R19.4", 3)

    # ---- R19.3 atomic publication
    la = local_assignments(wnode)
    if len(dcalls) == 1 and len(pcalls) == 1:
        d_arg = dcalls[0].args[1] if len(dcalls[0].args) > 1 else None
        p_arg = pcalls[0].args[0] if pcalls[0].args else None

        def temp_of_final(e):
            """e is <x>.filepath + literal suffix (directly or through one local)"""
            if isinstance(e, ast.Name):
                ds = [d[1] for d in la.get(e.id, []) if d[0] == "assign"]
                return len(ds) == 1 and temp_of_final(ds[0])
            if isinstance(e, ast.BinOp) and isinstance(e.op, ast.Add) and isinstance(e.right, ast.Constant) \
                    and isinstance(e.right.value, str) and e.right.value:
                return isinstance(e.left, ast.Attribute) and e.left.attr == "filepath" and e.right.value
            return False

        suf_d, suf_p = temp_of_final(d_arg), temp_of_final(p_arg)
        postfix = None
        ca = cache_cls.find_attr("CACHE_FILE_POSTFIX")
        if ca is not None and isinstance(ca[1], ast.Constant):
            postfix = ca[1].value
        ok_tmp = bool(suf_d) and bool(suf_p) and ast.unparse(d_arg) == ast.unparse(p_arg) and postfix is not None \
            and not str(suf_d).endswith(postfix)
        ctx.expect(ok_tmp, "R19.3", "_worker[temporary name]",
                   "download and post-processing write to <final path> + a literal suffix that the adoption filter rejects",
                   worker.loc(dcalls[0]), derived=f"download -> {ast.unparse(d_arg) if d_arg is not None else None}",
                   required="cache_miss.filepath + '<suffix not ending in the cache postfix>'")
        reps = [c for c in calls(wnode) if resolve_ext(p, worker, c) in ("os.replace", "os.rename")]
        ok_rep = False
        for r_ in reps:
            if len(r_.args) == 2 and d_arg is not None and ast.unparse(r_.args[0]) == ast.unparse(d_arg) \
                    and isinstance(r_.args[1], ast.Attribute) and r_.args[1].attr == "filepath":
                rs, ds, ps = cfgw.stmt_of(r_), cfgw.stmt_of(dcalls[0]), cfgw.stmt_of(pcalls[0])
                if cfgw.dominates(ds, rs) and cfgw.dominates(ps, rs) and all(cfgw.dominates(rs, t) for t in trues):
                    ok_rep = True
        ctx.expect(ok_rep, "R19.3", "_worker[publish by replace]",
                   "the final name appears only through os.replace(temporary, final) after download and post-processing, "
                   "before success is reported", worker.loc(reps[0]) if reps else worker.loc(),
                   derived=", ".join(ast.unparse(r_) for r_ in reps) or "no os.replace")
        # no direct write to the final path by the worker
        direct = [c for c in (dcalls + pcalls) if any(isinstance(a, ast.Attribute) and a.attr == "filepath" for a in c.args)]
        ctx.expect(not direct, "R19.3", "_worker[no direct final-path write]",
                   "neither the download nor the post-processor is handed the final cache path", worker.loc(),
                   derived=", ".join(ast.unparse(c) for c in direct))
        # cleanup on failure: some handler removes the temporary file and re-raises
        cleanup = False
        for tr in [n for n in own_walk(wnode) if isinstance(n, ast.Try) and n.finalbody]:
            # try: ...; done = True / finally: if not done: remove -- the exception keeps propagating out of a finally block that
            # does not return; `done` is False on every failing path when it is set only as the last statement of the try body
            last = tr.body[-1] if tr.body else None
            flag = last.targets[0].id if isinstance(last, ast.Assign) and len(last.targets) == 1 and isinstance(last.targets[0], ast.Name) \
                and isinstance(last.value, ast.Constant) and last.value.value is True else None
            sets = [n for n in own_walk(wnode) if isinstance(n, ast.Assign) and any(isinstance(t, ast.Name) and t.id == flag for t in n.targets)]
            if flag is None or len(sets) != 2 or not all(isinstance(x.value, ast.Constant) and isinstance(x.value.value, bool) for x in sets):
                continue

            def fin_oracle(test, e):
                if isinstance(test, ast.Call) and resolve_ext(p, worker, test) == "os.path.exists":
                    return True
                return None

            def fin_ev(c):
                return "cleanup" if (resolve_ext(p, worker, c) in ("os.remove", "os.unlink") and d_arg is not None and c.args
                                     and ast.unparse(c.args[0]) == ast.unparse(d_arg)) else None
            fpaths = scenario_paths(tr.finalbody, {flag: False}, fin_oracle, fin_ev)
            if fpaths and all("cleanup" in ev_ and not any(str(x).startswith("return") for x in ev_) for _, ev_ in fpaths):
                cleanup = True
        for tr in [n for n in own_walk(wnode) if isinstance(n, ast.Try)]:
            for h in tr.handlers:
                rem = [c for b in h.body for c in ast.walk(b) if isinstance(c, ast.Call)
                       and resolve_ext(p, worker, c) in ("os.remove", "os.unlink") and d_arg is not None
                       and c.args and ast.unparse(c.args[0]) == ast.unparse(d_arg)]
                if rem and ends_with_raise(h.body) and any(n in ("BaseException", "<bare>", "Exception") for n in handler_names(h)):
                    cleanup = True
                elif rem and any(n in ("BaseException", "<bare>", "Exception") for n in handler_names(h)):
                    # a handler that also tolerates not-found: in every scenario the temporary file is removed, and every failure
                    # other than the tolerated one is re-raised
                    sc = handler_scenarios(h)
                    if all("cleanup" in ev_ for k_ in sc for ev_ in sc[k_]) and all("raise" in ev_ for ev_ in sc["other"] + sc["notfound_strict"]) \
                            and sc["other"] and sc["notfound_strict"]:
                        cleanup = True
        ctx.expect(cleanup, "R19.3", "_worker[cleanup on failure]",
                   "a failed download or post-processing removes the temporary file and re-raises", worker.loc())
    # ---- R19.5 "a URI whose validation fails is re-fetched": the validator must see the entry as its last use left it - the hit
    # scenarios of C18 (every hit touched, the touch not ahead of the validation call) decide that; the other C18 rules stay with C18
    from . import c18 as _c18
    expl = ctx.explanation
    with ctx.renamed({**{f"R18.{k}": None for k in range(1, 10)}, "R18.1b": None, "R18.4": "R19.5"}):
        _c18.run(ctx)
    ctx.explanation = expl
    ctx.require_count("R19.5", 3)
    ctx.require_count("R19.1", 3)
    ctx.require_count("R19.2", 5)
    ctx.require_count("R19.3", 4)
    ctx.functions_analysed.update({f.qualname: 1 for f in fc_methods + [dl, worker]})
    # the worker fetches through whatever resource object handles the URI: every `download` of the resource classes (and the
    # fetch function it builds) is on the path of a request and is resolved against the environment in the thorough tier
    rr = p.modules.get("filecache.remote_resources")
    ctx.functions_analysed.update({f.qualname: 1 for f in p.all_functions if rr is not None and f.module is rr and f.cls is not None
                                   and f.parent is None})
