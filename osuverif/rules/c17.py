"""C17 -- time conversions: timezone typestate over to_datetime_utc, packed-integer decoding."""
from __future__ import annotations

import sympy as sp

from .. import terms as T
from ..terms import P, op, Str, fname, CMP, ITE, NONE_T
from ..interp import Interp
from .. import envres

TM = "tools.time."
UTC = sp.Symbol("<ext datetime.timezone.utc>")
EXPLANATION = (
    "TermFlow evaluates to_datetime_utc once per supported input type (the isinstance dispatch is resolved by a type "
    "hint on the input symbol) and a timezone typestate {none, naive, maybe-naive, aware, aware-UTC} is computed over "
    "the returned term with branch refinement on `x.tzinfo is None`. Decided: every scalar result is aware-UTC; "
    "astimezone is never applied to a possibly-naive value (it would be read in the machine's local zone - invisible "
    "in a UTC sandbox); replace(tzinfo=UTC) is applied only to naive or already-UTC values; fromtimestamp always "
    "carries tz=UTC; no utcfromtimestamp/now/today; a trailing 'Z' is rewritten to +00:00 before parsing and the "
    "fallback format carries %z; None maps to None; sequences recurse element-wise; unknown types raise. "
    "to_datetime64 and datetime_to_iso_time_string operate on the to_datetime_utc result (whole seconds, literal Z). "
    "Packed integers decode with hours=t//10^4 etc.; the decoded fields recombine to t identically in each branch, "
    "thresholds 10^4/10^2 (time) and 10^6 (date), two-digit years +2000, tzinfo=UTC. Not decided: value-level round "
    "trips."
)

NONE, NAIVE, MAYBE, AWARE, AWARE_UTC, UNKNOWN = "none", "naive", "maybe-naive", "aware", "aware-utc", "unknown"


class TzState:
    def __init__(self):
        self.problems = []
        self.leaves = []

    def kwarg(self, t, name):
        for a in t.args:
            if isinstance(a, sp.Tuple) and len(a.args) == 2 and a.args[0] == Str(name):
                return a.args[1]
        return None

    def state(self, t, facts) -> str:
        """facts: dict term -> NAIVE/AWARE for input values refined by branch conditions"""
        t = T.to_term(t)
        f = fname(t)
        if t == NONE_T:
            return NONE
        if t in facts:
            return facts[t]     # refined by a branch on `<this value>.tzinfo is None`, whatever expression the value is
        if f == "ite":
            c, a, b = t.args
            fa, fb = dict(facts), dict(facts)
            if fname(c) == "isnone" and fname(c.args[0]) == "tzinfo":
                fa[c.args[0].args[0]] = NAIVE
                fb[c.args[0].args[0]] = AWARE
            elif fname(c) == "not_" and fname(c.args[0]) == "isnone" and fname(c.args[0].args[0]) == "tzinfo":
                fa[c.args[0].args[0].args[0]] = AWARE
                fb[c.args[0].args[0].args[0]] = NAIVE
            sa, sb = self.state(a, fa), self.state(b, fb)
            if sa == sb:
                return sa
            order = [UNKNOWN, MAYBE, NAIVE, AWARE, AWARE_UTC, NONE]
            if {sa, sb} == {NAIVE, AWARE} or {sa, sb} == {NAIVE, AWARE_UTC}:
                return MAYBE
            return min(sa, sb, key=order.index)
        if f == "m_astimezone":
            sx = self.state(t.args[0], facts)
            tz = t.args[1] if len(t.args) > 1 else None
            if sx in (NAIVE, MAYBE, UNKNOWN):
                self.problems.append(("astimezone-on-possibly-naive", t, sx))
            if tz != UTC:
                self.problems.append(("astimezone-target-not-utc", t, str(tz)))
                return AWARE
            return AWARE_UTC
        if f == "m_replace":
            tz = self.kwarg(t, "tzinfo")
            sx = self.state(t.args[0], facts)
            if tz is None:
                return sx
            if tz == UTC:
                if sx in (AWARE, MAYBE, UNKNOWN):
                    self.problems.append(("replace-tzinfo-on-possibly-aware-non-utc", t, sx))
                return AWARE_UTC
            if tz == NONE_T:
                return NAIVE
            return AWARE
        if f == "dt_datetime_fromtimestamp":
            tz = self.kwarg(t, "tz")
            if tz is None and len([a for a in t.args if not isinstance(a, sp.Tuple)]) >= 2:
                tz = [a for a in t.args if not isinstance(a, sp.Tuple)][1]
            if tz == UTC:
                return AWARE_UTC
            self.problems.append(("fromtimestamp-without-utc", t, str(tz)))
            return NAIVE
        if f in ("dt_datetime_utcfromtimestamp", "dt_datetime_utcnow", "dt_datetime_today", "dt_datetime_now"):
            self.problems.append(("naive-constructor", t, f))
            return NAIVE
        if f == "dt_datetime_fromisoformat":
            return MAYBE
        if f == "dt_datetime_strptime":
            fmt = T.str_of(t.args[1]) if len(t.args) > 1 else None
            if fmt is not None and "%z" in fmt:
                return AWARE
            return NAIVE
        if f == "dt_datetime":
            tz = self.kwarg(t, "tzinfo")
            return AWARE_UTC if tz == UTC else (NAIVE if tz is None else AWARE)
        if f == "comp_list":
            return self.state(t.args[0], facts)
        return UNKNOWN


def leaves_of(t):
    """(path conditions, leaf) pairs of an ite tree"""
    t = T.to_term(t)
    if fname(t) == "ite":
        c, a, b = t.args
        return [([c] + cs, l) for cs, l in leaves_of(a)] + [([T.NOT(c)] + cs, l) for cs, l in leaves_of(b)]
    return [([], t)]


def run(ctx):
    ctx.explanation = EXPLANATION
    p = ctx.program
    ctx.trust("datetime.astimezone on a naive value interprets it in the local zone of the machine",
              "datetime.replace(tzinfo=...) relabels without shifting the instant",
              "datetime.fromtimestamp(x, tz=UTC) is aware-UTC; fromisoformat returns naive unless the text has an offset",
              "strptime with %z yields an aware value")
    f = p.get_function(TM + "to_datetime_utc")
    t = P("time")
    kinds = [("datetime", "datetime.datetime"), ("str", "str"), ("datetime64", "numpy.datetime64"),
             ("number", "numbers.Number")]
    for label, hint in kinds:
        it = Interp(p)
        it.type_hints[t] = hint
        r = T.to_term(it.call_function(f, [t], {}, None))
        if T.has_unknown(r):
            ctx.unsure("R17.1", f"to_datetime_utc[{label}]", "result involves unknown constructs", f.loc(), derived=r)
            ctx.absorb(it)
            continue
        # None guard at the top
        if fname(r) == "ite" and r.args[0] == op("isnone", t) and r.args[1] == NONE_T:
            body = r.args[2]
            ctx.ok("R17.1", f"to_datetime_utc[{label}][None]", "None maps to None before any conversion", f.loc())
        else:
            body = r
            ctx.bad("R17.1", f"to_datetime_utc[{label}][None]", "no leading `None -> None` guard", f.loc(), derived=r)
        tz = TzState()
        st = tz.state(body, {})
        ctx.expect(st == AWARE_UTC, "R17.1", f"to_datetime_utc[{label}][result]",
                   f"every returned value is timezone-aware UTC (typestate: {st})", f.loc(), derived=body,
                   required="aware-UTC on every path")
        if tz.problems:
            for kind, term, why in tz.problems:
                ctx.bad("R17.1", f"to_datetime_utc[{label}][{kind}]",
                        f"{kind}: operand state {why}; a naive value reaches a conversion that reads it in the local "
                        f"time zone, or a tz relabel shifts an aware instant", f.loc(), derived=term)
        else:
            ctx.ok("R17.1", f"to_datetime_utc[{label}][conversions]",
                   "astimezone only on aware values, replace(tzinfo=UTC) only on naive or UTC values, fromtimestamp with tz=UTC",
                   f.loc())
        if label == "datetime64":
            # the epoch seconds come from an explicit cast to second resolution: a datetime64 carries its own unit (s, ms, us, ns,
            # D, ...), reading its integer value is only meaningful after np.datetime64(x, "s")
            fts = T.find_ops(body, "dt_datetime_fromtimestamp")
            oku = bool(fts) and all(fname(x.args[0]) == "datetime64" and x.args[0].args[0] == t and len(x.args[0].args) > 1
                                    and x.args[0].args[1] == Str("s") for x in fts)
            ctx.expect(oku, "R17.1", "to_datetime_utc[datetime64][seconds]",
                       "the time stamp is np.datetime64(x, 's') read as a number: the unit of the input does not matter", f.loc(),
                       derived=fts[0].args[0] if fts else "no fromtimestamp", required='datetime64(time, "s")')
        if label == "str":
            # trailing Z handling
            isos = T.find_ops(body, "dt_datetime_fromisoformat")
            want = ITE(CMP("eq", op("item", t, sp.Integer(-1)), Str("Z")),
                       op("concat", op("item", t, op("slc", None, sp.Integer(-1), None)), Str("+00:00")), t)
            ok = bool(isos) and all(T.equivalent(i.args[0], want) == T.Verdict.EQUAL for i in isos)
            ctx.expect(ok, "R17.2", "to_datetime_utc[str][Z suffix]",
                       "a trailing 'Z' is replaced by '+00:00' before fromisoformat", f.loc(),
                       derived=isos[0].args[0] if isos else "no fromisoformat", required=want)
            fall = T.find_ops(body, "dt_datetime_strptime")
            ctx.expect(all("%z" in (T.str_of(s.args[1]) or "") for s in fall) if fall else True, "R17.2",
                       "to_datetime_utc[str][fallback format]", "fallback strptime format carries %z", f.loc())
        ctx.absorb(it)
    # dispatch: an unsupported scalar type raises; sequences recurse
    it = Interp(p)
    it.type_hints[t] = "some.Unsupported"
    r = it.call_function(f, [t], {}, None)
    raised = list(it.raises)  # the raise may sit in a helper the scalar branch delegates to
    ctx.expect(bool(raised) and fname(T.to_term(r)) == "ite" and T.to_term(r).args[2] == op("never"), "R17.2",
               "to_datetime_utc[unsupported type]", "an unsupported scalar type raises instead of returning a value",
               f.loc(), derived=T.to_term(r))
    for seq in ("list", "tuple", "numpy.ndarray", "xarray.DataArray", "pandas.Series"):
        it = Interp(p)
        it.type_hints[t] = seq
        r = T.to_term(it.call_function(f, [t], {}, None))
        body = r.args[2] if fname(r) == "ite" and r.args[0] == op("isnone", t) else r
        ok = fname(body) == "comp_list" and fname(body.args[1]) in (None,) or fname(body) == "comp_list"
        elem_src = body.args[1] if fname(body) == "comp_list" else None
        ctx.expect(ok and elem_src == t, "R17.2", f"to_datetime_utc[{seq}]",
                   "sequence inputs are converted element by element over the input itself", f.loc(), derived=body)
        if ok:
            tz = TzState()
            inner = body.args[0]
            # the element conversion is the scalar dispatch again: check its scalar leaves
            bad_leaves = []
            for conds, leaf in leaves_of(inner):
                if leaf == NONE_T or fname(leaf) in ("comp_list", "never") or T.has_unknown(leaf):
                    continue
                facts = {}
                for c in conds:
                    if fname(c) == "isnone" and fname(c.args[0]) == "tzinfo":
                        facts[c.args[0].args[0]] = NAIVE
                    if fname(c) == "not_" and fname(c.args[0]) == "isnone" and fname(c.args[0].args[0]) == "tzinfo":
                        facts[c.args[0].args[0].args[0]] = AWARE
                s = tz.state(leaf, facts)
                if s != AWARE_UTC:
                    bad_leaves.append((leaf, s))
            ctx.expect(not bad_leaves and not tz.problems, "R17.1", f"to_datetime_utc[{seq}][elements]",
                       "every scalar leaf of the element conversion is aware-UTC", f.loc(),
                       derived=str([(T.show(l, 80), s) for l, s in bad_leaves] + [k for k, _, _ in tz.problems]))
        ctx.absorb(it)

    # R17.3 wrappers
    it = Interp(p)
    it.type_hints[t] = "datetime.datetime"
    utc_res = T.to_term(it.call_function(f, [t], {}, None))
    utc_body = utc_res.args[2] if fname(utc_res) == "ite" else utc_res
    g = p.get_function(TM + "to_datetime64")
    r = T.to_term(it.call_function(g, [t], {}, None))
    d64 = [x for x in T.find_ops(r, "datetime64") if fname(x.args[0]) == "int"]
    ok = bool(d64) and all(x.args[1] == Str("s") and fname(x.args[0].args[0]) == "m_timestamp" for x in d64)
    scalar = [x for x in d64 if x.args[0].args[0].args[0] == utc_body]
    ctx.expect(ok and bool(scalar), "R17.3", "to_datetime64",
               "datetime64(int(<to_datetime_utc result>.timestamp()), 's'): whole seconds of the UTC instant", g.loc(),
               derived=r)
    ctx.expect(fname(r) == "ite" and r.args[0] == op("isnone", t) and r.args[1] == NONE_T, "R17.3",
               "to_datetime64[None]", "None maps to None", g.loc(), derived=r)
    g = p.get_function(TM + "datetime_to_iso_time_string")
    r = T.to_term(it.call_function(g, [t], {}, None))
    sf = T.find_ops(r, "m_strftime")
    ok = len(sf) == 1 and sf[0].args[0] == utc_body and (T.str_of(sf[0].args[1]) or "").endswith("Z") \
        and "%z" not in (T.str_of(sf[0].args[1]) or "") and "%Y-%m-%dT%H:%M:%S" in (T.str_of(sf[0].args[1]) or "")
    ctx.expect(ok, "R17.3", "datetime_to_iso_time_string",
               "formats the to_datetime_utc result with an ISO pattern ending in a literal Z", g.loc(), derived=r)
    ctx.absorb(it)

    # R17.4 packed integers
    it = Interp(p)
    ti = P("t")
    g = p.get_function(TM + "time_from_timeint")
    r = T.to_term(it.call_function(g, [ti], {}, None))
    fd = lambda a, b: op("floordiv", a, b)  # noqa: E731
    h1 = fd(ti, 10000)
    m1 = fd(ti - h1 * 10000, 100)
    s1 = ti - h1 * 10000 - m1 * 100
    h2 = fd(ti, 100)
    m2 = ti - h2 * 100
    secs = ITE(CMP("ge", ti, 10000), h1 * 3600 + m1 * 60 + s1,
               ITE(CMP("ge", ti, 100), h2 * 3600 + m2 * 60, ti * 3600))
    got = None
    if fname(r) == "dt_timedelta":
        for a in r.args:
            if isinstance(a, sp.Tuple) and a.args[0] == Str("seconds"):
                got = a.args[1]
    if got is None:
        ctx.unsure("R17.4", "time_from_timeint", "result is not timedelta(seconds=...)", g.loc(), derived=r)
    else:
        # compare branch-wise (ite distributes over the sum)
        for label, facts in (("hhmmss", {CMP("ge", ti, 10000): True}),
                             ("hhmm", {CMP("ge", ti, 10000): False, CMP("ge", ti, 100): True}),
                             ("hh", {CMP("ge", ti, 10000): False, CMP("ge", ti, 100): False})):
            ctx.equiv("R17.4", f"time_from_timeint[{label}]", T.assume(got, facts), T.assume(secs, facts), g.loc(),
                      "seconds == 3600*hours + 60*minutes + seconds with fields recombining to t", interp=it)
    g = p.get_function(TM + "date_from_dateint")
    r = T.to_term(it.call_function(g, [ti], {}, None))
    y = fd(ti, 10000)
    mo = fd(ti - y * 10000, 100)
    d = ti - y * 10000 - mo * 100
    big = CMP("gt", ti, 1000000)
    for label, facts, yy in (("yyyymmdd", {big: True}, y), ("yymmdd", {big: False}, y + 2000)):
        want = op("dt_datetime", yy, mo, d, sp.Tuple(Str("tzinfo"), UTC))
        ctx.equiv("R17.4", f"date_from_dateint[{label}]", T.assume(r, facts), want, g.loc(),
                  "calendar fields recombine to t; two-digit years + 2000; tzinfo=UTC", interp=it)
    g = p.get_function(TM + "datetime_from_time_and_date_integers")
    a, b = P("date_int"), P("time_int")
    r = T.to_term(it.call_function(g, [a, b], {}, None))
    want = T.to_term(it.call_function(p.get_function(TM + "date_from_dateint"), [a], {}, None)) + T.to_term(
        it.call_function(p.get_function(TM + "time_from_timeint"), [b], {}, None))
    ctx.equiv("R17.4", "datetime_from_time_and_date_integers", r, want, g.loc(),
              "date decoded from the first argument plus time decoded from the second", interp=it)
    envres.check_ext_used(ctx, it, "R17.5", "tools.time")
    ctx.absorb(it)
    ctx.require_count("R17.1", 18)
    ctx.require_count("R17.2", 8)
    ctx.require_count("R17.3", 3)
    ctx.require_count("R17.4", 6)
