"""C02 -- directional integration of a 2-D spectrum: e, a1..b2, bin widths, 1-D reduction."""
from __future__ import annotations

import sympy as sp

from .. import terms as T
from ..terms import P, op, Str, fname, NONE_T
from ..interp import Interp, Obj, DatasetVal
from .. import envres
from .common import (CLS_1D, CLS_2D, spectrum_self, spec_interp, DS, E, D, dsv, definite)

EXPLANATION = (
    "TermFlow evaluates FrequencyDirectionSpectrum.direction_step/radian_direction/e/a1/b1/a2/b2, "
    "_directionally_integrate and as_frequency_spectrum with a symbolic dataset and compares the derived terms with "
    "the defining formulas: widths = wrapped (period 360) forward difference closed over the circle "
    "(np.diff(..., append=first)), e = sum_dir(E*width) skipping NaN, moments = sum_dir(E*h(m*theta)*width)/e with "
    "theta = direction*pi/180 and the table {a1:(cos,1), b1:(sin,1), a2:(cos,2), b2:(sin,2)}; the 1-D reduction "
    "stores every moment under its own key and carries every non-spectral variable; the three sibling quadratures "
    "(xarray, two numba kernels) weight by the same bin widths and SourceTerm.spectral_grid wires the spectrum's own "
    "widths under the keys the kernels read. wrapped_difference itself is checked against "
    "((delta + period - discont) mod period) - period + discont on finite entries. Not decided: |moment|<=1 and "
    "equality of bulk parameters between a 2-D spectrum and its reduction (numerical consequences)."
)


def wrapped_difference_rule(ctx, rule: str):
    """wrapped_difference(delta, period, discont) == ((delta+period-discont) % period) - period + discont
    on finite entries, NaN elsewhere; discont defaults to period/2; period None -> identity."""
    p = ctx.program
    f = p.get_function("tools.math.wrapped_difference")
    it = Interp(p)
    delta, period, disc = P("delta"), P("period"), P("discont")
    fin = op("isfinite", delta)

    def ref(per, dc):
        return op("store", op("full", op("shape", delta), T.NAN_T), fin,
                  op("pymod", op("item", delta, fin) + per - dc, per) - per + dc)

    r = it.call_function(f, [delta, period, disc], {}, None)
    # strip the None-guards: evaluate the branches under "period is not None" and "discont is not None"
    def strip(t):
        def fn(n):
            if fname(n) == "ite" and fname(n.args[0]) == "isnone":
                return n.args[2]
            return None
        return T.rewrite(t, fn)

    ctx.equiv(rule, "wrapped_difference[period,discont]", strip(r), ref(period, disc), f.loc(), interp=it)
    r = it.call_function(f, [delta, period, None], {}, None)
    ctx.equiv(rule, "wrapped_difference[default discont=period/2]", strip(r), ref(period, period / 2), f.loc(), interp=it)
    r = it.call_function(f, [delta, None, None], {}, None)
    ctx.equiv(rule, "wrapped_difference[period None -> identity]", r, delta, f.loc(), interp=it)
    r = it.call_function(f, [delta], {}, None)
    ctx.equiv(rule, "wrapped_difference[default period 2*pi]", r, ref(2 * sp.pi, sp.pi), f.loc(), interp=it)
    ctx.absorb(it)


def DSTEP():
    return op("wrapdiff", op("roll", D, sp.Integer(-1)) - D, sp.Integer(360), NONE_T)


def dir_int(x):
    return op("nansum", x * DSTEP(), Str("direction"))


def match_nested_sum(t, depth):
    """t == const + loopsum(loopsum(X, inner), outer) ... -> (X, [outer.., inner]) or None"""
    t = sp.expand(t) if isinstance(t, sp.Add) else t
    sums = [a for a in (t.args if isinstance(t, sp.Add) else [t]) if fname(a) == "loopsum"]
    rest = [a for a in (t.args if isinstance(t, sp.Add) else [t]) if fname(a) != "loopsum"]
    if len(sums) != 1 or any(not (a.is_number and a == 0) for a in rest):
        return None
    lvs = []
    cur = sums[0]
    for _ in range(depth):
        if fname(cur) != "loopsum":
            return None
        lvs.append((cur.args[1], cur.args[2]))
        cur = cur.args[0]
    return cur, lvs


def full_range(rng, arrays, axis_names) -> bool:
    """the loop range covers a whole axis: range(item(shape(A), ax)) with A one of the (equally shaped) arrays and ax
    naming the axis from the front or from the back (2-D point arrays: frequency 0/-2, direction 1/-1)"""
    if fname(rng) != "range" or len(rng.args) != 1:
        return False
    n = rng.args[0]
    if fname(n) == "len" and axis_names[0] == 0:
        return n.args[0] in arrays
    if fname(n) != "item" or fname(n.args[0]) != "shape":
        return False
    return n.args[0].args[0] in arrays and n.args[1] in [sp.Integer(a) for a in axis_names]


def direction_rules(ctx):
    """R02.1-R02.3: bin widths, e, a1..b2 of the 2-D class (shared with C03/C12, which build on them)"""
    p = ctx.program
    ctx.trust("np.diff(x, append=a): forward differences of x followed by a", "xarray .sum(dim, skipna=True) skips NaN",
              "xarray reductions over a named dim skip NaN for float data by default")
    it = spec_interp(p)
    me = spectrum_self(p, CLS_2D)
    g = lambda name: (it.get_attr(me, name, None), p.get_method(CLS_2D, name))  # noqa: E731
    # weights / widths / angles remembered at module level across spectra must be keyed on the grid itself, not on its length or
    # spacing (two grids with the same number of bins and the same width still differ in their origin)
    from ..statecache import module_memo_rule as _mmemo, positive_module_example as _mmemo_pos
    _mmemo(ctx, "R02.3", [p.modules["wavespectra.spectrum"]], "spectrum module")
    _mmemo_pos(ctx, "R02.3")

    # R02.2 direction_step
    r, f = g("direction_step")
    ctx.equiv("R02.2", "FrequencyDirectionSpectrum.direction_step", r, DSTEP(), f.loc(),
              "wrapped forward difference closed over the circle, period 360", interp=it)
    wrapped_difference_rule(ctx, "R02.2")

    # radian_direction
    r, f = g("radian_direction")
    theta = D * sp.pi / 180
    ctx.equiv("R02.3", "FrequencyDirectionSpectrum.radian_direction", r, theta, f.loc(), interp=it)

    # R02.1
    x = P("x")
    f = p.get_class(CLS_2D).find_method("_directionally_integrate")
    if f is not None:  # private helper: checked when present, reached through `e` otherwise
        r = it.call_function(f, [me, x], {}, None)
        ctx.equiv("R02.1", "FrequencyDirectionSpectrum._directionally_integrate", r, dir_int(x), f.loc(), interp=it)
    r, f = g("e")
    e_ref = dir_int(E)
    ctx.equiv("R02.1", "FrequencyDirectionSpectrum.e", r, e_ref, f.loc(), interp=it)

    # R02.3 moments
    table = {"a1": (sp.cos, 1), "b1": (sp.sin, 1), "a2": (sp.cos, 2), "b2": (sp.sin, 2)}
    refs = {}
    for name, (h, m) in table.items():
        r, f = g(name)
        refs[name] = dir_int(E * h(m * theta)) / e_ref
        ctx.equiv("R02.3", f"FrequencyDirectionSpectrum.{name}", r, refs[name], f.loc(),
                  f"{name} == sum_dir(E*{h.__name__}({m}*theta)*width)/e", interp=it)
    refs["variance_density"] = e_ref
    return it, me, refs, e_ref


def run(ctx):
    ctx.explanation = EXPLANATION
    p = ctx.program
    it, me, refs, e_ref = direction_rules(ctx)

    # R02.4 reduction to 1-D
    f = p.get_method(CLS_2D, "as_frequency_spectrum")
    r = it.call_function(f, [me], {}, None)
    if not (isinstance(r, Obj) and r.cls.qualname == CLS_1D and isinstance(r.fields.get("dataset"), DatasetVal)):
        ctx.unsure("R02.4", "as_frequency_spectrum", "result is not a FrequencySpectrum over a constructed dataset", f.loc(),
                   derived=T.to_term(r))
    else:
        items = r.fields["dataset"].items
        for key, ref in refs.items():
            if key not in items:
                ctx.bad("R02.4", f"as_frequency_spectrum[{key}]", f"1-D dataset lacks variable {key}", f.loc())
            else:
                ctx.equiv("R02.4", f"as_frequency_spectrum[{key}]", items[key], ref, f.loc(),
                          f"variable {key} of the reduction is the spectrum's own {key}", interp=it)
        fam = [(k, v) for k, v in items.items() if not isinstance(k, str)]
        spectral = ("variance_density", "a1", "b1", "a2", "b2")
        okfam = None
        for k, v in fam:
            if fname(k) == "elem" and k.args[0] == DS:
                want = op("guarded", T.NOT(op("contains", T.to_term(spectral), k)), op("item", DS, k))
                if fname(v) == "guarded" and fname(v.args[0]) == "not_" and fname(v.args[0].args[0]) == "contains":
                    excl = v.args[0].args[0].args[0]
                    names = {T.str_of(a) for a in excl.args} if isinstance(excl, sp.Tuple) else set()
                    okfam = (v.args[1] == op("item", DS, k)) and names <= set(spectral) and v.args[0].args[0].args[1] == k
                    ctx.expect(okfam, "R02.4", "as_frequency_spectrum[non-spectral carry-over]",
                               "every dataset variable outside the spectral set is copied under its own name", f.loc(),
                               derived=v, required=want)
        if okfam is None:
            ctx.bad("R02.4", "as_frequency_spectrum[non-spectral carry-over]",
                    "no loop copies the non-spectral variables (time, position, depth) of the dataset", f.loc())

    # R02.5 siblings
    data, grid = P("data"), P("grid")
    f = p.get_function("wavespectra.operations.integrate_spectral_data")
    it2 = spec_interp(p)
    r = it2.call_function(f, [data, ["direction"]], {}, None)
    dd = op("item", data, Str("direction"))
    dstep_data = op("wrapdiff", op("roll", dd, sp.Integer(-1)) - dd, sp.Integer(360), NONE_T)
    ctx.equiv("R02.5", "integrate_spectral_data[direction]", r, op("nansum", data * dstep_data, Str("direction")),
              f.loc(), "same wrapped-width quadrature as the spectrum class", interp=it2)
    r = it2.call_function(f, [data, ["frequency", "direction"]], {}, None)
    ctx.equiv("R02.5", "integrate_spectral_data[frequency,direction]", r,
              op("nansum", op("trapz", op("fillna", data, sp.Integer(0)), Str("frequency")) * dstep_data, Str("direction")),
              f.loc(), interp=it2)
    r = it2.call_function(f, [data, "frequency"], {}, None)
    ctx.equiv("R02.5", "integrate_spectral_data[frequency]", r,
              op("trapz", op("fillna", data, sp.Integer(0)), Str("frequency")), f.loc(), interp=it2)

    fstep = op("item", grid, Str("frequency_step"))
    dstep = op("item", grid, Str("direction_step"))
    f = p.get_function("wavespectra.operations.numba_integrate_spectral_data")
    r = it2.call_function(f, [data, grid], {}, None)
    m = match_nested_sum(T.to_term(r), 2)
    if m is None:
        ctx.unsure("R02.5", "numba_integrate_spectral_data", "not a double accumulation", f.loc(), derived=r)
    else:
        X, ((fv, fr), (dv, dr)) = m
        ref = op("item", data, sp.Tuple(fv, dv)) * op("item", fstep, fv) * op("item", dstep, dv)
        ctx.equiv("R02.5", "numba_integrate_spectral_data", X, ref, f.loc(),
                  "summand == data[f,d]*frequency_step[f]*direction_step[d]", interp=it2)
        ctx.expect(full_range(fr, (data,), (0, -2)) and full_range(dr, (data,), (1, -1)), "R02.5",
                   "numba_integrate_spectral_data[all bins]", "the sum covers every frequency and direction bin", f.loc(),
                   derived=sp.Tuple(fr, dr))
    f = p.get_function("wavespectra.operations.numba_directionally_integrate_spectral_data")
    r = T.to_term(it2.call_function(f, [data, grid], {}, None))
    ok = None
    if fname(r) == "tabulate":
        fv = r.args[3]
        m = match_nested_sum(r.args[2], 1)
        if m is not None and r.args[1] == fv:
            X, ((dv, dr),) = m
            ref = op("item", data, sp.Tuple(fv, dv)) * op("item", dstep, dv)
            ctx.equiv("R02.5", "numba_directionally_integrate_spectral_data", X, ref, f.loc(),
                      "out[f] == sum_d data[f,d]*direction_step[d]", interp=it2)
            ctx.expect(full_range(dr, (data,), (1, -1)) and full_range(r.args[4] if len(r.args) > 4 else r.args[-1], (data,), (0, -2)),
                       "R02.5", "numba_directionally_integrate_spectral_data[all bins]",
                       "every frequency is tabulated and the sum covers every direction bin", f.loc(),
                       derived=sp.Tuple(dr, r.args[-1]))
            ok = True
    if ok is None:
        ctx.unsure("R02.5", "numba_directionally_integrate_spectral_data", "not a per-frequency accumulation", f.loc(), derived=r)

    # SourceTerm.spectral_grid wiring
    it3 = spec_interp(p)
    st_cls = "wavephysics.balance.source_term.SourceTerm"
    stf = p.get_method(st_cls, "spectral_grid")
    st_self = Obj(p.get_class(st_cls), {}, "source_term")
    spec = spectrum_self(p, CLS_2D)
    r = it3.call_function(stf, [st_self, spec], {}, None)
    want = {"radian_frequency": "radian_frequency", "radian_direction": "radian_direction",
            "frequency_step": "frequency_step", "direction_step": "direction_step"}
    if not isinstance(r, dict):
        ctx.unsure("R02.5", "SourceTerm.spectral_grid", "result is not a literal mapping", stf.loc(), derived=T.to_term(r))
    else:
        for key, attr in want.items():
            if key not in r:
                ctx.bad("R02.5", f"SourceTerm.spectral_grid[{key}]", "key missing", stf.loc())
                continue
            ref = it3.get_attr(spec, attr, None)
            ctx.equiv("R02.5", f"SourceTerm.spectral_grid[{key}]", r[key], ref, stf.loc(),
                      f"grid[{key}] is the spectrum's own {attr}", interp=it3)

    envres.check_ext_used(ctx, it, "R02.6", "FrequencyDirectionSpectrum")
    for i in (it, it2, it3):
        ctx.absorb(i)
        ctx.notes.extend(i.unknown_notes[:5])
    # ---- R02.6 no unsynchronised derived state on the objects this property queries (shared rule, see statecache.py)
    from ..statecache import instance_memo_rule as _memo, positive_example as _memo_pos
    _memo(ctx, "R02.6", [p.get_class("wavespectra.spectrum.FrequencySpectrum"), p.get_class("wavespectra.spectrum.FrequencyDirectionSpectrum")], "spectrum classes")
    _memo_pos(ctx, "R02.6")
    ctx.require_count("R02.6", 2)
    ctx.require_count("R02.1", 1)
    ctx.require_count("R02.2", 5)
    ctx.require_count("R02.3", 5)
    ctx.require_count("R02.4", 6)
    ctx.require_count("R02.5", 9)
