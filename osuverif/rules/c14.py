"""C14 -- periodic coordinates and angular data interpolate across the wrap."""
from __future__ import annotations

import ast

import sympy as sp

from .. import terms as T
from ..terms import P, op, Str, fname, CMP, AND, NONE_T
from ..interp import Interp, Obj, Env
from ..callgraph import CallGraph
from ..cfg import CFG, definitely_assigned, stmt_uses, stmt_defs
from .. import binding
from ..mini import must_fire
from .common import WRAPDIFF
from .c02 import wrapped_difference_rule
from .fc import own_walk, calls, call_name, local_assignments

GRIDF = "tools.grid.enclosing_points_1d"
WEIGHTS = "interpolate.general.interpolation_weights_1d"
ND = "interpolate.nd_interp.NdInterpolator"
DSM = "interpolate.dataset."
EXPLANATION = (
    "Periodic coordinate: TermFlow shows enclosing_points_1d reduces targets to xp0 + ((x - xp0) mod period) before the "
    "search and takes both bracket indices modulo n (so the wrap bin exists and nothing is out of range), and "
    "interpolation_weights_1d uses frac = wrap(x - xp[i0]) / wrap(xp[i1] - xp[i0]) with the same period for every target. "
    "Angular data: the N-d interpolator averages unit vectors exp(i*data*2pi/period), scales the angle back by "
    "period/(2pi) and wraps to the discontinuity = period; interpolate_periodic adds wrap(fp[i1]-fp[i0], fp_period) * "
    "dx/dxp to fp[i0] (shortest arc) and wraps the finite results with (fp_period, fp_discont). wrapped_difference itself "
    "is checked against its defining formula. Sibling agreement of the default 'what is periodic' selection at the five "
    "sites: longitude -> (360, 180), every *direction* variable -> (360, 360) (degrees in [0, 360)), built by item "
    "assignment under `if periodic_data is None` (a caller's mapping is respected, no rebinding inside the loop) and "
    "forwarded to the interpolator. Track path: every local is definitely assigned before use on all CFG paths, no "
    "swapped keywords, tracks interpolate longitude with period 360. Not decided: equality of results for targets 360 "
    "apart and shortest-arc as a numerical statement."
)


def definite_assignment_rule(ctx, rule, funcs):
    """A use of a local on a path where it is unbound, unconditional relative to its definition's guard."""
    n = 0
    for f in funcs:
        params = {a.arg for a in f.node.args.posonlyargs + f.node.args.args + f.node.args.kwonlyargs}
        if f.node.args.vararg:
            params.add(f.node.args.vararg.arg)
        if f.node.args.kwarg:
            params.add(f.node.args.kwarg.arg)
        globals_ = {nm for st in ast.walk(f.node) if isinstance(st, (ast.Global, ast.Nonlocal)) for nm in st.names}
        comp_names = {y.id for x in ast.walk(f.node) if isinstance(x, ast.comprehension) for y in ast.walk(x.target)
                      if isinstance(y, ast.Name)}
        cfg = CFG(f.node, exceptions=False)
        IN = definitely_assigned(cfg, params)
        local = set()
        for st in cfg.stmts:
            local |= stmt_defs(st)
        flagged = {}
        for st in cfg.stmts:
            for u in stmt_uses(st):
                if u.id in local and u.id not in params and u.id not in globals_ and u.id not in comp_names and u.id not in IN.get(st, set()):
                    flagged.setdefault(u.id, []).append((u, st))
        for name, uses in flagged.items():
            # guards of the definitions
            def_tests = set()
            for st in cfg.stmts:
                if name in stmt_defs(st):
                    for anc in ast.walk(f.node):
                        if isinstance(anc, ast.If) and any(st is x for b in (anc.body + anc.orelse) for x in ast.walk(b)):
                            def_tests.add(ast.unparse(anc.test))
            definite = []
            for u, st in uses:
                use_tests = set()
                for anc in ast.walk(f.node):
                    if isinstance(anc, ast.If) and any(st is x for b in (anc.body + anc.orelse) for x in ast.walk(b)):
                        use_tests.add(ast.unparse(anc.test))
                names_in = lambda tests: {x.id for t in tests for x in ast.walk(ast.parse(t)) if isinstance(x, ast.Name)}  # noqa: E731
                if not (names_in(def_tests) & names_in(use_tests)):
                    definite.append((u, st))
            n += 1
            if definite:
                u, st = definite[0]
                ctx.bad(rule, f"{f.qualname}:{name}", f"`{name}` is read on a path where it was never assigned "
                        f"(its only definitions are guarded by: {sorted(def_tests) or 'nothing'})", f.loc(u),
                        derived=f"use at line {u.lineno}", required="an assignment on every path to the use")
            else:
                ctx.ok(rule, f"{f.qualname}:{name}", "possibly-unbound use is guarded by a condition correlated with its definition "
                       "(not decided further)", f.loc(uses[0][0]))
        if not flagged:
            n += 1
            ctx.ok(rule, f"{f.qualname}", "every local is assigned on all paths before it is read", f.loc())
    return n


def default_periodic_rule(ctx, rule, p):
    """the five 'what is periodic' selection sites"""
    sites = [DSM + "interpolate_dataset_grid", DSM + "interpolate_dataset_along_axis", DSM + "interpolate_dataset"]
    for q in sites:
        f = p.get_function(q)
        name = f.name
        loops = [n for n in own_walk(f.node) if isinstance(n, ast.For) and ast.unparse(n.iter) == "data_set"]
        dir_loops = []
        for lp in loops:
            for st in lp.body:
                if isinstance(st, ast.If) and "'direction' in str(" in ast.unparse(st.test) and ".lower()" in ast.unparse(st.test):
                    dir_loops.append((lp, st))
        if len(dir_loops) != 1:
            ctx.bad(rule, f"{name}[direction variables]", "no loop marks every '*direction*' variable of the dataset as angular data", f.loc())
            continue
        lp, cond = dir_loops[0]
        body = cond.body
        rebinding = [s for s in body if isinstance(s, ast.Assign) and any(isinstance(t, ast.Name) and t.id == "periodic_data" for t in s.targets)]
        item_assign = [s for s in body if isinstance(s, ast.Assign) and any(
            isinstance(t, ast.Subscript) and isinstance(t.value, ast.Name) and t.value.id == "periodic_data"
            and ast.unparse(t.slice) == ast.unparse(lp.target) for t in s.targets)]
        updates = [s for s in body if isinstance(s, ast.Expr) and isinstance(s.value, ast.Call) and ast.unparse(s.value.func) == "periodic_data.update"]
        if rebinding:
            ctx.bad(rule, f"{name}[direction variables]", "periodic_data is rebound inside the loop: only the last direction "
                    "variable stays periodic and a caller's mapping is discarded", f.loc(rebinding[0]), derived=ast.unparse(rebinding[0]))
            continue
        vals = [ast.unparse(s.value).replace(" ", "") for s in item_assign]
        upd_ok = any("(360,360)" in ast.unparse(s.value).replace(" ", "") for s in updates)
        ctx.expect(bool(item_assign) and all(v == "(360,360)" for v in vals) or upd_ok, rule, f"{name}[direction variables]",
                   "every '*direction*' variable is registered as angular data with period 360 wrapped to [0, 360)", f.loc(cond),
                   derived=", ".join(vals))
        # respect a caller-supplied mapping
        guards = [n for n in own_walk(f.node) if isinstance(n, ast.If) and ast.unparse(n.test) == "periodic_data is None"]
        inside = any(lp in [x for b in g.body for x in ast.walk(b)] for g in guards)
        ctx.expect(inside, rule, f"{name}[caller's mapping respected]",
                   "the default is built only when the caller supplied no periodic_data", f.loc(lp))
        # longitude
        src = ast.unparse(f.node)
        lon = [n for n in ast.walk(f.node) if (isinstance(n, ast.Assign) and any(
            isinstance(t, ast.Subscript) and ast.unparse(t.value) == "periodic_data" and "longitude" in ast.unparse(t.slice).lower()
            for t in n.targets) and ast.unparse(n.value).replace(" ", "") == "(360,180)") or (
            isinstance(n, ast.Dict) and any(isinstance(k, ast.Constant) and k.value == "longitude" and
                                            ast.unparse(v).replace(" ", "") == "(360,180)" for k, v in zip(n.keys, n.values)))]
        ctx.expect(bool(lon), rule, f"{name}[longitude]", "longitude is angular data with period 360 wrapped to (-180, 180]", f.loc())
    # forwarding
    from .fc import normalise_mapping_loops
    fa = p.get_function(DSM + "interpolate_dataset_along_axis")
    fa = normalise_mapping_loops(fa, fa.params[1])
    fg = p.get_function(DSM + "interpolate_dataset_grid")
    fd = p.get_function(DSM + "interpolate_dataset")
    fpnt = p.get_function(DSM + "interpolate_at_points")
    ac = [c for c in calls(fg.node) if call_name(c) == "interpolate_dataset_along_axis"]
    okf = False
    if len(ac) == 1:
        b = binding.bind_by_name(fa, ac[0], False) or {}
        okf = ast.unparse(b.get("periodic_data", ast.Constant(None))) == "periodic_data"
    ctx.expect(okf, rule, "interpolate_dataset_grid[mapping forwarded]",
               "the periodic-data mapping is handed on to the per-axis interpolation", fg.loc(ac[0]) if ac else fg.loc())
    # ... and which coordinates are periodic is either left to the per-axis default (longitude and direction, checked below), or
    # the caller's own table, or a table that still names both
    if len(ac) == 1:
        from .fc import substitute_defs
        b = binding.bind_by_name(fa, ac[0], False) or {}
        pcv = b.get("periodic_coordinates")
        verdict = None
        detail = "not passed: the per-axis default applies"
        if pcv is None or (isinstance(pcv, ast.Constant) and pcv.value is None):
            verdict = True
        else:
            detail = ast.unparse(pcv)
            if isinstance(pcv, ast.Name) and pcv.id in fg.params and not any(
                    isinstance(t, ast.Name) and t.id == pcv.id for n in own_walk(fg.node) if isinstance(n, ast.Assign) for t in n.targets):
                verdict = True      # the caller's table, untouched
            else:
                e = substitute_defs(fg.node, pcv, set(fg.params))
                detail = ast.unparse(e)
                if isinstance(e, ast.Dict) and all(k is not None for k in e.keys):
                    keys = {ast.unparse(k): ast.unparse(v) for k, v in zip(e.keys, e.values)}
                    has_dir = keys.get("'direction'") == "360"
                    has_lon = any("longitude" in k.lower() and v == "360" for k, v in keys.items())
                    verdict = has_dir and has_lon
        ctx.expect(verdict, rule, "interpolate_dataset_grid[periodic coordinates]",
                   "the table of periodic coordinates that reaches the per-axis interpolation names direction and longitude with period "
                   "360 (or is the per-axis default, or the caller's own table)", fg.loc(ac[0]), derived=detail)
    pc = [c for c in calls(fd.node) if call_name(c) == "interpolate_at_points"]
    okf = False
    if len(pc) == 1:
        b = binding.bind_by_name(fpnt, pc[0], False) or {}
        okf = ast.unparse(b.get("periodic_data", ast.Constant(None))) == "periodic_data" \
            and ast.unparse(b.get("periodic_coordinates", ast.Constant(None))) == "periodic_coordinates"
    ctx.expect(okf, rule, "interpolate_dataset[mapping forwarded]",
               "periodic data and coordinates are handed on to interpolate_at_points", fd.loc(pc[0]) if pc else fd.loc())
    # along_axis: the per-variable (period, discont) pair reaches the interpolator (checked in C13 R13.4) and comes from the mapping
    la = local_assignments(fa.node)
    # the locals are whatever names reach the interpolator's data_period / data_discont parameters
    ndc_ = [c for c in calls(fa.node) if call_name(c) == "NdInterpolator"]
    nb_ = (binding.bind_by_name(p.get_method("interpolate.nd_interp.NdInterpolator", "__init__"), ndc_[0], True) or {}) if len(ndc_) == 1 else {}
    n_per = nb_.get("data_period").id if isinstance(nb_.get("data_period"), ast.Name) else "?"
    n_dis = nb_.get("data_discont").id if isinstance(nb_.get("data_discont"), ast.Name) else "?"
    lv_ = [n.target.id for n in own_walk(fa.node) if isinstance(n, ast.For) and ast.unparse(n.iter) == fa.params[1] and isinstance(n.target, ast.Name)
           and any(c in list(ast.walk(n)) for c in ndc_)]
    key_ = f"{fa.params[3]}[{lv_[0]}]" if lv_ else "?"
    # the entry of that variable: mapping[v] (under a membership guard) or mapping.get(v, (None, None))
    keys_ = (key_, f"{fa.params[3]}.get({lv_[0]}, (None, None))" if lv_ else "?")
    okp = any(d[0] == "unpack" and ast.unparse(d[1]) in keys_ and d[2] == 0 for d in la.get(n_per, [])) \
        and any(d[0] == "unpack" and ast.unparse(d[1]) in keys_ and d[2] == 1 for d in la.get(n_dis, []))
    ctx.expect(okp, rule, "interpolate_dataset_along_axis[(period, discont) from the mapping]",
               "a variable's period and discontinuity are read from the mapping entry of that variable", fa.loc())
    pcoord = [n for n in own_walk(fa.node) if isinstance(n, ast.Dict) and {
        (k.value if isinstance(k, ast.Constant) else None): ast.unparse(v) for k, v in zip(n.keys, n.values)} == {
        "longitude": "360", "direction": "360"}]
    ctx.expect(bool(pcoord), rule, "interpolate_dataset_along_axis[periodic coordinates]",
               "longitude and direction are periodic coordinates with period 360 by default", fa.loc())
    # interpolate_at_points: per-variable lookup
    tc = [c for c in calls(fpnt.node) if call_name(c) == "interpolate_track_data_arrray"]
    if len(tc) == 1:
        ft = p.get_function("interpolate.dataarray.interpolate_track_data_arrray")
        b = binding.bind_by_name(ft, tc[0], False) or {}
        lap = local_assignments(fpnt.node)
        lvp = [n.target.id for n in own_walk(fpnt.node) if isinstance(n, ast.For) and isinstance(n.target, ast.Name)
               and tc[0] in list(ast.walk(n)) and ast.unparse(n.iter) == fpnt.params[0]]
        mp = fpnt.params[4] if len(fpnt.params) > 4 else "?"

        def from_map(e, k):
            return isinstance(e, ast.Name) and bool(lvp) and any(
                d[0] == "assign" and ast.unparse(d[1]) == f"{mp}[{lvp[0]}][{k}]" for d in lap.get(e.id, []))
        okpt = from_map(b.get("period_data"), 0) and from_map(b.get("discont"), 1) \
            and ast.unparse(b.get("periodic_coordinates", ast.Constant(None))) == "periodic_coordinates" \
            and ast.unparse(b.get("independent_variable", ast.Constant(None))) == "independent_variable"
    else:
        okpt = False
    ctx.expect(okpt, rule, "interpolate_at_points[per-variable period]",
               "each variable's own (period, discontinuity) and the periodic coordinates reach the track interpolation", fpnt.loc())
    # per-variable / per-column loops: settings never leak from one variable to the next
    from .fc import carried_locals
    fdf_ = p.get_function("interpolate.dataframe.interpolate_dataframe_time")
    for fn_, what in ((fa, "variable"), (fpnt, "variable"), (fdf_, "column")):
        for lp_ in [n for n in own_walk(fn_.node) if isinstance(n, ast.For) and any(
                isinstance(c, ast.Call) and call_name(c) in ("NdInterpolator", "interpolate_track_data_arrray", "interpolate_periodic")
                for c in ast.walk(n))]:
            leaks = carried_locals(lp_)
            ctx.expect(not leaks, rule, f"{fn_.name}[per-{what} state]",
                       f"no local of the per-{what} loop carries a value into the next iteration" if not leaks else
                       "; ".join(f"`{n}` (line {ln}) keeps the value of an earlier {what} when this one does not assign it" for n, ln in leaks),
                       fn_.loc(lp_), derived=", ".join(n for n, _ in leaks))
    # data frames
    fdf = p.get_function("interpolate.dataframe.interpolate_dataframe_time")
    src = ast.unparse(fdf.node)
    ic0 = [c for c in calls(fdf.node) if call_name(c) == "interpolate_periodic"]
    b0 = (binding.bind_by_name(p.get_function("interpolate.general.interpolate_periodic"), ic0[0], False) or {}) if len(ic0) == 1 else {}
    n_fp = b0.get("fp_period").id if isinstance(b0.get("fp_period"), ast.Name) else "?"
    n_fd = b0.get("fp_discont").id if isinstance(b0.get("fp_discont"), ast.Name) else "?"
    col = [n.target.id for n in own_walk(fdf.node) if isinstance(n, ast.For) and isinstance(n.target, ast.Name) and ic0
           and ic0[0] in list(ast.walk(n))]
    col = col[0] if col else "?"
    from .fc import substitute_defs as _sd

    def branch_values(body):
        """constant assigned to each local in a branch body: `a = 1`, `a, b = 1, 2`"""
        out = {}
        for st in body:
            if isinstance(st, ast.Assign) and len(st.targets) == 1:
                t = st.targets[0]
                if isinstance(t, ast.Name):
                    out[t.id] = ast.unparse(st.value)
                elif isinstance(t, (ast.Tuple, ast.List)) and isinstance(st.value, (ast.Tuple, ast.List)) and len(t.elts) == len(st.value.elts):
                    for a, b in zip(t.elts, st.value.elts):
                        if isinstance(a, ast.Name):
                            out[a.id] = ast.unparse(b)
        return out

    def tests_for(word):
        return [n for n in own_walk(fdf.node) if isinstance(n, ast.If)
                and f"'{word}' in {col}.lower()" in ast.unparse(_sd(fdf.node, n.test, {col}))]
    okdir = any(branch_values(i.body).get(n_fp) == "360" and branch_values(i.body).get(n_fd) == "360" for i in tests_for("direction"))
    ctx.expect(okdir, rule, "interpolate_dataframe_time[direction columns]", "direction columns: period 360, wrapped to [0, 360)", fdf.loc())
    oklon = any(branch_values(i.body).get(n_fp) == "360" for i in tests_for("longitude"))
    ctx.expect(oklon, rule, "interpolate_dataframe_time[longitude columns]",
               "longitude columns are interpolated with period 360 like in the sibling functions", fdf.loc())
    ic = [c for c in calls(fdf.node) if call_name(c) == "interpolate_periodic"]
    okc = False
    if len(ic) == 1:
        fip = p.get_function("interpolate.general.interpolate_periodic")
        b = binding.bind_by_name(fip, ic[0], False) or {}
        okc = isinstance(b.get("fp_period"), ast.Name) and isinstance(b.get("fp_discont"), ast.Name) \
            and b["fp_period"].id != b["fp_discont"].id
    ctx.expect(okc, rule, "interpolate_dataframe_time[settings forwarded]", "the column's period and discontinuity reach interpolate_periodic", fdf.loc())
    # tracks
    trk = p.get_method("interpolate.geometry.Track", "interpolate")
    ic = [c for c in calls(trk.node) if call_name(c) == "interpolate_periodic"]
    fip = p.get_function("interpolate.general.interpolate_periodic")
    oklat = oklon = False
    for c in ic:
        b = binding.bind_by_name(fip, c, False) or {}
        fpx = ast.unparse(b.get("fp", ast.Constant(None)))
        per = b.get("fp_period")
        if fpx == "self.longitude":
            oklon = per is not None and ast.unparse(per) == "360"
        if fpx == "self.latitude":
            oklat = per is None
    ctx.expect(oklon and oklat, rule, "Track.interpolate[longitude periodic]",
               "longitude is interpolated with period 360 (shorter arc), latitude linearly", trk.loc())


def run(ctx):
    ctx.explanation = EXPLANATION
    p = ctx.program
    ctx.trust("Python/numpy % returns a value with the sign of the divisor", "np.angle of a complex number in radians")
    xp, x, idx, per = P("xp"), P("x"), P("indices"), P("period")
    desc = CMP("lt", op("item", xp, sp.Integer(-1)), op("item", xp, sp.Integer(0)))
    fg = p.get_function(GRIDF)
    fw = p.get_function(WEIGHTS)

    def interp():
        it = Interp(p, opaque={WRAPDIFF: "wrapdiff"})
        it.hooks["wavetheory.wavetheory_tools.atleast_1d"] = lambda _it, f, a, k, e, n: a[0]
        it.assume_true.append(lambda c: c == T.NOT(desc))
        it.nonnull.add(per)
        return it

    # ---- R14.1
    it = interp()
    from .c13 import bracket_rows, hoist_rowwise
    r = hoist_rowwise(T.to_term(it.call_function(fg, [xp, x, False, per], {}, None)))
    xp0 = op("item", xp, sp.Integer(0))
    brp = bracket_rows(r.args[0]) if fname(r) == "pymod" and len(r.args) == 2 else None
    okm = brp is not None and r.args[1] == op("len", xp)
    ctx.expect(okm, "R14.1", "enclosing_points_1d[indices modulo n]",
               "both bracket indices are taken modulo the number of nodes: the bin that spans the wrap exists", fg.loc(), derived=T.show(r, 200))
    if okm:
        lo, hi, lv = brp
        xr = xp0 + op("pymod", x - xp0, per)
        ss = op("searchsorted", xp, op("item", xr, lv) if lv is not None else xr, Str("right"))
        okv = hi == ss and sp.expand(lo - (ss - 1)) == 0
        ctx.expect(okv, "R14.1", "enclosing_points_1d[targets reduced modulo the period]",
                   "targets are mapped to xp0 + ((x - xp0) mod period) before the search, however many periods away", fg.loc(),
                   derived=sp.Tuple(lo, hi), required=sp.Tuple(ss - 1, ss))
    rw = T.to_term(it.call_function(fw, [xp, x, idx, per, False, False, False], {}, None))
    rows = {}
    t_ = rw
    while fname(t_) == "store":
        i = t_.args[1]
        if isinstance(i, sp.Tuple) and len(i.args) == 2:
            rows[i.args[0]] = t_.args[2]
        t_ = t_.args[0]
    i0 = op("item", idx, sp.Tuple(sp.Integer(0), op("slc", NONE_T, NONE_T, NONE_T)))
    i1 = op("item", idx, sp.Tuple(sp.Integer(1), op("slc", NONE_T, NONE_T, NONE_T)))
    frac = op("wrapdiff", x - op("item", xp, i0), per, NONE_T) / op("wrapdiff", op("item", xp, i1) - op("item", xp, i0), per, NONE_T)
    ok = set(rows) == {sp.Integer(0), sp.Integer(1)} and T.equivalent(rows[sp.Integer(1)], frac) == T.Verdict.EQUAL \
        and T.equivalent(rows[sp.Integer(0)], 1 - frac) == T.Verdict.EQUAL
    ctx.expect(ok, "R14.1", "interpolation_weights_1d[periodic]",
               "frac = wrap(x - xp[i0], period) / wrap(xp[i1] - xp[i0], period) for every target; no out-of-range branch",
               fw.loc(), derived=T.show(rows.get(sp.Integer(1), rw), 300), required=frac)
    ndc = p.get_method(ND, "coordinate_period")
    it2 = Interp(p)
    me = Obj(p.get_class(ND), {"data_periodic_coordinates": {"longitude": sp.Integer(360)}}, "nd")
    ctx.expect(it2.call_function(ndc, [me, "longitude"], {}, None) == 360 and it2.call_function(ndc, [me, "time"], {}, None) is None,
               "R14.1", "NdInterpolator.coordinate_period", "a coordinate is periodic exactly when listed, with its listed period", ndc.loc())
    # each coordinate is bracketed and weighted with its *own* period: the period handed to the two 1-d helpers is
    # coordinate_period(<name>) of the very name that selects the targets, not a value found by position in another list
    nd_i = p.get_method(ND, "interpolate")
    from .fc import substitute_defs
    for c in [c for c in calls(nd_i.node) if call_name(c) in ("enclosing_points_1d", "interpolation_weights_1d")]:
        tgt_fn = fg if call_name(c) == "enclosing_points_1d" else fw
        b = binding.bind_by_name(tgt_fn, c, False) or {}
        per_e, x_e = b.get("period"), b.get("x")
        key = ast.unparse(x_e.slice) if isinstance(x_e, ast.Subscript) else None
        per_s = substitute_defs(nd_i.node, per_e, {"self"}) if per_e is not None else None
        own = per_s is not None and key is not None and ast.unparse(per_s) == f"self.coordinate_period({key})"
        if own:
            ctx.ok("R14.1", f"NdInterpolator.interpolate[{call_name(c)}: own period]",
                   "period == coordinate_period(name) for the name that selects the targets", nd_i.loc(c))
        elif per_s is not None and isinstance(per_s, ast.Subscript):
            ctx.bad("R14.1", f"NdInterpolator.interpolate[{call_name(c)}: own period]",
                    "the period is looked up by position in a separately built list; the loop runs over the coordinates in data order, "
                    "so when that list is in another order (the caller's) a coordinate gets another coordinate's period", nd_i.loc(c),
                    derived=ast.unparse(per_s), required=f"self.coordinate_period({key})")
        else:
            ctx.unsure("R14.1", f"NdInterpolator.interpolate[{call_name(c)}: own period]", "period argument not in a recognised form",
                       nd_i.loc(c), derived=ast.unparse(per_s) if per_s is not None else "missing")
    ctx.absorb(it)

    # ---- R14.2 angular data
    from .fc import inline_value_calls
    from .c13 import INTERPOLATOR_VOCABULARY
    pi_f = inline_value_calls(p, p.get_method(ND, "_periodic_data_interpolator"), keep=INTERPOLATOR_VOCABULARY)
    it3 = Interp(p, opaque={WRAPDIFF: "wrapdiff"})
    me = Obj(p.get_class(ND), {"data_period": P("data_period")}, "nd")
    from .c13 import _interpolator_roles
    roles = _interpolator_roles(pi_f)
    single = {}
    for n in ast.walk(pi_f.node):
        if isinstance(n, ast.Assign) and len(n.targets) == 1 and isinstance(n.targets[0], ast.Name):
            single.setdefault(n.targets[0].id, []).append(n)
    env = Env(it3, pi_f, pi_f.module)
    env.vars["self"] = me
    va = roles.get("val_assign")
    # the scale factor is the local read by the unit-vector expression whose own definition mentions the data period
    n_rad = None
    from .fc import substitute_defs as _sd2
    cand = [nm for nm, ds in single.items() if len(ds) == 1 and "data_period" in ast.unparse(ds[0].value)
            and "get_data" not in ast.unparse(ds[0].value) and "np.angle" not in ast.unparse(ds[0].value)]
    if va is not None:
        full_val = _sd2(pi_f.node, va.value, {roles.get("idx") or "?", "self"} | set(cand))
        used = [nm_.id for nm_ in ast.walk(full_val) if isinstance(nm_, ast.Name) and nm_.id in cand]
        if len(set(used)) == 1:
            n_rad = used[0]
    if va is not None and n_rad is not None and len(single[n_rad]) == 1:
        tr = T.to_term(it3.eval(single[n_rad][0].value, env))
        ctx.equiv("R14.2", "_periodic_data_interpolator[to radians]", tr, 2 * sp.pi / P("data_period"), pi_f.loc(single[n_rad][0]),
                  "data are scaled by 2*pi/period before averaging on the unit circle", interp=it3)
        env.vars[n_rad] = P("to_rad")
        me.fields["get_data"] = P("get_data")
        me.fields["interp_coord_dim_indices"] = P("dims")
        env.vars[roles.get("idx") or "?"] = P("corner")
        v = T.to_term(it3.eval(full_val, env))
        data = op("apply", P("get_data"), P("corner"), P("dims"))
        ctx.equiv("R14.2", "_periodic_data_interpolator[unit vectors]", v, sp.exp(sp.I * data * P("to_rad")), pi_f.loc(va),
                  "corner values enter as exp(i * angle)", interp=it3)
    else:
        ctx.unsure("R14.2", "_periodic_data_interpolator", "scale factor / unit-vector assignments not found", pi_f.loc())
    n_acc, n_ws = roles.get("acc"), roles.get("wsum")
    finals = [n for n in ast.walk(pi_f.node) if isinstance(n, ast.Assign) and len(n.targets) == 1 and isinstance(n.targets[0], ast.Name)
              and ("np.angle" in ast.unparse(n.value) or "np.arctan2" in ast.unparse(n.value))]
    if len(finals) == 1 and n_acc and n_ws:
        env.vars.update({n_ws: P("wsum"), n_acc: P("acc")})
        v = T.to_term(it3.eval(_sd2(pi_f.node, finals[0].value, {n_ws, n_acc, "self"}), env))     # named intermediates read through
        want = op("angle", op("where", CMP("gt", P("wsum"), sp.Rational(1, 2)), P("acc") / P("wsum"), T.NAN_T)) * P("data_period") / (2 * sp.pi)
        ctx.equiv("R14.2", "_periodic_data_interpolator[angle back to data units]", v, want, pi_f.loc(finals[0]),
                  "angle of the weighted mean vector, scaled by period/(2*pi); NaN when less than half the weight is valid", interp=it3)
    else:
        ctx.unsure("R14.2", "_periodic_data_interpolator[angle]", "final angle expression not found", pi_f.loc())
    rets = [n for n in ast.walk(pi_f.node) if isinstance(n, ast.Return)]
    if len(rets) == 1 and len(finals) == 1:
        env.vars[finals[0].targets[0].id] = P("angle_in_data_units")
        v = T.to_term(it3.eval(rets[0].value, env))
        ctx.equiv("R14.2", "_periodic_data_interpolator[wrap]", v, op("wrapdiff", P("angle_in_data_units"), P("data_period"), P("data_period")),
                  pi_f.loc(rets[0]), "the result is wrapped into one period ending at the period", interp=it3)
    nd_int = p.get_method(ND, "interpolate")
    disp = [n for n in own_walk(nd_int.node) if isinstance(n, ast.If) and ast.unparse(n.test) == "self.data_is_periodic"]
    okd = any("_periodic_data_interpolator" in ast.unparse(ast.Module(body=d.body, type_ignores=[])) and
              "_data_interpolator" in ast.unparse(ast.Module(body=d.orelse, type_ignores=[])) for d in disp)
    dip = p.get_method(ND, "data_is_periodic")
    okd = okd and "self.data_period is not None" in ast.unparse(dip.node)
    ctx.expect(okd, "R14.2", "NdInterpolator.interpolate[dispatch]", "data with a period go through the angular interpolator", nd_int.loc())
    ctx.absorb(it3)
    # interpolate_periodic
    fip = p.get_function("interpolate.general.interpolate_periodic")
    fp, xper, fper, fdis = P("fp"), P("x_period"), P("fp_period"), P("fp_discont")
    for label, xperiod in (("periodic axis", xper), ("non-periodic axis", None)):
        it4 = Interp(p, opaque={WRAPDIFF: "wrapdiff", GRIDF: "enclose"})
        if xperiod is not None:
            it4.nonnull.add(xper)
        # rows of the (2, n) bracket table may be taken as enc[0, :] or by unpacking `lower, upper = enc`: one spelling here
        r = T.strip_trailing_slices(T.to_term(it4.call_function(fip, [xp, fp, x, xperiod, fper, fdis, P("left"), P("right")], {}, None)))
        enc = op("enclose", xp, x, False, xperiod)
        e0 = op("item", enc, sp.Integer(0))
        e1 = op("item", enc, sp.Integer(1))
        dfp = op("item", fp, e1) - op("item", fp, e0)
        wr = [w for w in T.find_ops(r, "wrapdiff") if sp.expand(w.args[0] - dfp) == 0]
        ctx.expect(bool(wr) and all(w.args[1] == fper and w.args[2] == NONE_T for w in wr), "R14.2",
                   f"interpolate_periodic[{label}][shortest arc]",
                   "the data increment fp[i1]-fp[i0] is wrapped with the data period (default discontinuity period/2) before scaling",
                   fip.loc(), derived=str([T.show(w, 80) for w in wr]))
        # final wrap on finite entries
        ok = fname(r) == "store" and fname(r.args[2]) == "wrapdiff" and r.args[2].args[1] == fper and r.args[2].args[2] == fdis \
            and fname(r.args[1]) == "isfinite" and r.args[2].args[0] == op("item", r.args[0], r.args[1])
        ctx.expect(ok, "R14.2", f"interpolate_periodic[{label}][result wrapped]",
                   "finite results are wrapped with (fp_period, fp_discont)", fip.loc(), derived=T.show(r.args[2] if fname(r) == "store" else r, 120))
        if xperiod is not None and ok:
            core = r.args[0]
            dx = op("wrapdiff", x - op("item", xp, e0), xper, NONE_T)
            dxp = op("wrapdiff", op("item", xp, e1) - op("item", xp, e0), xper, NONE_T)
            want = op("item", fp, e0) + op("wrapdiff", dfp, fper, NONE_T) * dx / dxp
            ctx.equiv("R14.2", f"interpolate_periodic[{label}][formula]", core, want, fip.loc(),
                      "fp[i0] + wrap(dfp) * wrap(dx) / wrap(dxp)", interp=it4)
        ctx.absorb(it4)
    wrapped_difference_rule(ctx, "R14.2")

    # ---- R14.3 sibling selection sites
    default_periodic_rule(ctx, "R14.3", p)

    # ---- R14.4 track path: definite assignment, binding
    cg = CallGraph(p)
    track_funcs = [f for f in p.all_functions if f.module.name in ("interpolate.dataarray", "interpolate.dataset", "interpolate.geometry",
                                                                   "interpolate.dataframe", "interpolate.general")]
    definite_assignment_rule(ctx, "R14.4", track_funcs)
    must_fire(ctx, "R14.4", {"m.py": "def f(a=None):\n    if a is None:\n        b = 1\n    return b\n"},
              lambda sub, mp: definite_assignment_rule(sub, "R14.4", mp.all_functions), "use of a possibly-unbound local")
    binding.name_agreement_rule(ctx, "R14.4b", cg, track_funcs)
    must_fire(ctx, "R14.4b", {"m.py": "def g(p):\n    return Point(longitude=p.latitude, latitude=p.longitude, id=1)\n"},
              lambda sub, mp: binding.name_agreement_rule(sub, "R14.4b", CallGraph(mp), mp.all_functions), "swapped keywords")
    # ---- R14.5 the constructors store coordinate grids as given: interpolation along a periodic axis brackets targets on the stored
    # grid, which must keep the order (and values) the caller supplied - a grid reduced modulo its period, sorted or rolled on its way
    # into the dataset is no longer monotone / no longer labels the data it came with
    SPECQ = "wavespectra.spectrum."
    for q in (SPECQ + "create_1d_spectrum", SPECQ + "create_2d_spectrum", SPECQ + "create_spectrum_dataset"):
        fq = p.functions.get(q)
        if fq is None:
            continue
        coords = [a for a in fq.params if a in ("frequency", "direction", "time", "latitude", "longitude")]
        bad_ = []
        for n in [x for x in ast.walk(fq.node) if isinstance(x, (ast.Assign, ast.AugAssign, ast.AnnAssign))]:
            tg = n.targets if isinstance(n, ast.Assign) else [n.target]
            if not any(isinstance(t, ast.Name) and t.id in coords for t in tg) or n.value is None:
                continue
            v = n.value
            alters = isinstance(n, ast.AugAssign) or any(
                isinstance(x, ast.BinOp) and isinstance(x.op, (ast.Mod, ast.Add, ast.Sub, ast.Mult, ast.Div, ast.FloorDiv)) or
                isinstance(x, ast.Call) and ast.unparse(x.func).split(".")[-1] in ("mod", "remainder", "fmod", "sort", "sorted", "unique",
                                                                                   "roll", "flip", "unwrap", "argsort", "deg2rad", "rad2deg")
                for x in ast.walk(v))
            if alters:
                bad_.append(n)
        if bad_:
            ctx.bad("R14.5", f"{fq.name}[coordinates stored as given]", "a coordinate grid is altered on its way into the dataset: "
                    + ast.unparse(bad_[0])[:90], fq.loc(bad_[0]), derived=ast.unparse(bad_[0])[:120],
                    required="the grid the caller supplied (conversions of type only)")
        else:
            ctx.ok("R14.5", f"{fq.name}[coordinates stored as given]", "no coordinate parameter is re-computed before it is stored", fq.loc())
    ctx.require_count("R14.5", 2)
    ctx.require_count("R14.1", 4)
    ctx.require_count("R14.2", 13)
    ctx.require_count("R14.3", 18)
    ctx.require_count("R14.4", 30)
