"""C18 -- file cache: constructibility, naming, foreign files, hits, eviction order, download order."""
from __future__ import annotations

import ast
from typing import Optional

import sympy as sp

from .. import terms as T
from ..terms import P, op, Str, fname, CMP
from ..interp import Interp, Obj, Env
from ..callgraph import CallGraph
from ..cfg import CFG, ENTRY, EXIT
from .. import binding
from ..mini import must_fire
from .fc import (FCM, FC, FCC, dotted, own_walk, calls, call_name, resolve_ext, local_assignments, destructive_sinks)

# the cache's own interface: methods the rules know by name; any other private helper of a method under analysis is inlined first
CACHE_VOCABULARY = ("_is_in_cache", "_get_from_cache", "_remove_item_from_cache", "_cache_file_name", "_cache_file_path", "_add_to_cache",
                    "_cache_eviction", "_get_cache_files", "_initialize_cache", "_download_from_resources", "get_cache_misses", "_size",
                    "_worker", "parse_directive", "parse_directives", "remove", "purge", "in_cache", "_get_total_size_of_files_in_bytes")
EXPLANATION = (
    "Structural rules over filecache/cache_object.py and remote_resources.py, decided from the syntax tree, per-function "
    "CFGs and the resolved call graph: (1) constructibility - no property getter reads itself, no setter re-enters "
    "itself, no `self[k] = v` on a class without __setitem__; (2) naming - cache file name == prefix + md5(full URI) + "
    "postfix (ordered concatenation), path = join(cache dir, name), the comment is stripped only on the value given to "
    "the download function while name and path derive from the full URI; (3) foreign files - every destructive "
    "file-system sink receives a path whose provenance is _cache_file_path, an _entries value, a cache-miss path (or "
    "that path + a literal suffix) or the config file; the adoption filter requires prefix AND postfix; (4) hits - a "
    "valid entry never becomes a CacheMiss and is touched (Path.touch reachable on the hit branch) before eviction "
    "can run; (5) eviction - candidates keyed by max(atime, mtime), sort direction consistent with the pop side so "
    "the oldest goes first, loop runs while size > limit, removal through the entry+file remover, enlargement only "
    "when the requested set alone exceeds the limit, eviction after registration; (6) results of both download modes "
    "come from order-preserving maps zipped with the misses. Not decided: the executable reference model over "
    "histories and exact LRU order under clock granularity."
)


# ---------------------------------------------------------------------------- R18.1
def constructibility_rule(ctx, rule, program, classes):
    n = 0
    for c in classes:
        has_setitem = c.find_method("__setitem__") is not None
        for name, m in list(c.methods.items()) + list(c.setters.items()):
            is_setter = m.is_setter
            for node in own_walk(m.node):
                if m.is_property and not is_setter and isinstance(node, ast.Attribute) and isinstance(node.ctx, ast.Load) \
                        and isinstance(node.value, ast.Name) and node.value.id == "self" and node.attr == m.name:
                    ctx.bad(rule, f"{c.name}.{m.name}[getter]", f"property getter reads self.{m.name}: infinite recursion",
                            m.loc(node), derived=f"self.{m.name}", required="a backing attribute")
                    n += 1
                if is_setter and isinstance(node, ast.Attribute) and isinstance(node.ctx, ast.Store) \
                        and isinstance(node.value, ast.Name) and node.value.id == "self" and node.attr == m.name:
                    ctx.bad(rule, f"{c.name}.{m.name}[setter]", f"property setter assigns self.{m.name}: infinite recursion",
                            m.loc(node))
                    n += 1
                if isinstance(node, ast.Subscript) and isinstance(node.ctx, ast.Store) and isinstance(node.value, ast.Name) \
                        and node.value.id == "self" and not has_setitem:
                    ctx.bad(rule, f"{c.name}.{m.name}[self-item-assignment]",
                            f"`self[...] = ...` but {c.name} defines no __setitem__: TypeError at run time", m.loc(node))
                    n += 1
            if m.is_property and not is_setter:
                ctx.ok(rule, f"{c.name}.{m.name}[getter]", "getter does not read itself", m.loc())
                n += 1
        # setter -> helper -> setattr/assign of the same public name
        for name, s in c.setters.items():
            seen = set()
            work = [s]
            recursive = False
            while work:
                g = work.pop()
                if g in seen:
                    continue
                seen.add(g)
                for node in own_walk(g.node):
                    if isinstance(node, ast.Call) and isinstance(node.func, ast.Attribute) and isinstance(
                            node.func.value, ast.Name) and node.func.value.id == "self":
                        t = c.find_method(node.func.attr)
                        if t is not None and not t.is_property:
                            work.append(t)
                    if g is not s and isinstance(node, ast.Attribute) and isinstance(node.ctx, ast.Store) and isinstance(
                            node.value, ast.Name) and node.value.id == "self" and node.attr == name:
                        recursive = True
            ctx.expect(not recursive, rule, f"{c.name}.{name}[setter-chain]",
                       "the setter's helpers do not assign the public property again", s.loc())
            n += 1
    return n


POSITIVE_R181 = {"m.py": "class C:\n    def __init__(self):\n        self.p = 1\n    @property\n    def p(self):\n"
                         "        return self.p\n    @p.setter\n    def p(self, v):\n        self[\"p\"] = v\n"}


# ---------------------------------------------------------------------------- provenance
class Provenance:
    def __init__(self, program, cg):
        self.p = program
        self.cg = cg

    def of(self, f, e, depth=0) -> str:
        """'ok:<why>' or 'unknown:<what>'"""
        if depth > 8:
            return "unknown:depth"
        la = local_assignments(f.node)
        if isinstance(e, ast.Call):
            d = call_name(e)
            if d.endswith("._cache_file_path"):
                return "ok:_cache_file_path"
            if d in ("self._entries.pop",) or d.endswith("._entries.pop") or d.endswith("._entries.get"):
                return "ok:entries value"
            name = resolve_ext(self.p, f, e)
            if name in ("os.path.join",) and len(e.args) >= 2:
                base = dotted(e.args[0]) or ""
                last = e.args[-1]
                if base in ("self.path", "path") or base.endswith(".path"):
                    if isinstance(last, ast.Constant) and last.value == "file_cache_config.json":
                        return "ok:config file"
                    sub = self.name_prov(f, last, depth + 1)
                    if sub.startswith("ok"):
                        return "ok:join(cache dir, " + sub[3:] + ")"
                return "unknown:os.path.join(" + ast.unparse(e)[:60] + ")"
            if name in ("os.path.abspath", "os.path.expanduser", "str"):
                return self.of(f, e.args[0], depth + 1)
            return "unknown:call " + d
        if isinstance(e, ast.Subscript):
            d = dotted(e.value) or ""
            if d.endswith("._entries"):
                return "ok:entries value"
            return "unknown:subscript " + d
        if isinstance(e, ast.Attribute):
            d = dotted(e) or ""
            if e.attr == "filepath":
                return "ok:cache-miss path"
            if d == "self.name" and f.cls is not None and f.cls.qualname == FCC:
                return "ok:config file"
            if d.endswith(".config.name"):
                return "ok:config file"
            return "unknown:attribute " + d
        if isinstance(e, ast.BinOp) and isinstance(e.op, ast.Add):
            if isinstance(e.right, ast.Constant) and isinstance(e.right.value, str):
                sub = self.of(f, e.left, depth + 1)
                return sub if sub.startswith("unknown") else sub + " + literal suffix"
            return "unknown:concatenation"
        if isinstance(e, ast.Name):
            defs = la.get(e.id, [])
            if defs:
                res = []
                for d in defs:
                    if d[0] == "assign":
                        res.append(self.of(f, d[1], depth + 1))
                    elif d[0] in ("for", "unpack"):
                        it = d[1]
                        dn = dotted(it) or ""
                        if dn.endswith("._entries.items()") and d[2] == 1:
                            res.append("ok:entries value")
                        elif dn.endswith("._entries.values()"):
                            res.append("ok:entries value")
                        else:
                            res.append("unknown:loop over " + dn)
                    else:
                        res.append("unknown:" + d[0])
                bad = [r for r in res if r.startswith("unknown")]
                return bad[0] if bad else res[0]
            if e.id in f.params:
                return self.param_prov(f, e.id, depth + 1)
            return "unknown:name " + e.id
        return "unknown:" + type(e).__name__

    def name_prov(self, f, e, depth) -> str:
        """provenance of a bare file *name* joined to the cache directory"""
        la = local_assignments(f.node)
        if isinstance(e, ast.Name):
            for d in la.get(e.id, []):
                if d[0] == "for" and (dotted(d[1]) or "").endswith("._get_cache_files()"):
                    return "ok:name accepted by the cache-file filter"
                if d[0] == "assign" and isinstance(d[1], ast.Call) and call_name(d[1]).endswith("._cache_file_name"):
                    return "ok:_cache_file_name"
            if e.id in f.params:
                # callers must pass entry keys / names
                return self.param_prov(f, e.id, depth + 1, names=True)
        if isinstance(e, ast.Call) and call_name(e).endswith("._cache_file_name"):
            return "ok:_cache_file_name"
        return "unknown:file name " + ast.unparse(e)[:40]

    def param_prov(self, f, pname, depth, names=False) -> str:
        # nested download workers receive the path from `cache_miss.download_function(uri, path)`
        if f.parent is not None and f.parent.name == "download":
            return "ok:download-function parameter (checked at the call in _worker)"
        callers = self.cg.callers_of(f)
        if not callers:
            return f"unknown:parameter {pname} of {f.qualname} (no resolved caller)"
        formals = f.params[1:] if (f.cls is not None and not f.is_static) else f.params
        res = []
        for caller, call, kind in callers:
            if kind.startswith("may"):
                continue
            b = binding.bind_by_name(f, call, drop_self=binding.drops_first_formal(f, kind))
            if b is None or pname not in b:
                # default value or unbindable
                continue
            if names:
                actual = b[pname]
                d = dotted(actual) or ""
                if d.endswith("._entries.values()") or "_entries" in d:
                    res.append("ok:entry paths")
                else:
                    res.append(self.of(caller, actual, depth + 1))
            else:
                res.append(self.of(caller, b[pname], depth + 1))
        bad = [r for r in res if r.startswith("unknown")]
        if bad:
            return bad[0]
        return res[0] if res else "ok:parameter never passed explicitly"


def run(ctx):
    ctx.explanation = EXPLANATION
    p = ctx.program
    cg = CallGraph(p)
    ctx.trust("os.remove/os.replace/open(w)/shutil.copyfile/Path.touch are the destructive file-system operations",
              "multiprocessing.pool.ThreadPool.imap and builtin map preserve input order; imap_unordered does not",
              "hashlib.md5(s.encode()).hexdigest() is a function of the full string")
    cache_cls = p.get_class(FC)
    cfg_cls = p.get_class(FCC)
    mod = p.modules[FCM]
    fc_funcs = [f for f in p.all_functions if f.module.name.startswith("filecache")]

    # ---- R18.1 constructibility
    constructibility_rule(ctx, "R18.1", p, [c for c in p.classes.values() if c.module.name.startswith("filecache")])
    must_fire(ctx, "R18.1", POSITIVE_R181,
              lambda sub, mp: constructibility_rule(sub, "R18.1", mp, list(mp.classes.values())),
              "self-recursive property / item assignment without __setitem__")
    binding.name_agreement_rule(ctx, "R18.1b", cg, fc_funcs)

    # ---- R18.2 naming
    it = Interp(p)
    me = Obj(cache_cls, {"path": P("cache_dir")}, "cache")
    uri = P("uri")
    f = p.get_method(FC, "_cache_file_name")
    r = T.to_term(it.call_function(f, [me, uri], {}, None))
    pre = it.get_attr(me, "CACHE_FILE_PREFIX", None)
    post = it.get_attr(me, "CACHE_FILE_POSTFIX", None)
    ok = fname(r) == "concat" and len(r.args) == 3 and r.args[0] == Str(pre) and r.args[2] == Str(post) \
        and fname(r.args[1]) == "m_hexdigest"
    digest_of_full = False
    if ok:
        inner = r.args[1].args[0]
        digest_of_full = (fname(inner) or "").endswith("hashlib_md5") and inner.args[0] in (uri, op("m_encode", uri))
    ctx.expect(bool(ok and digest_of_full and isinstance(pre, str) and isinstance(post, str) and pre and post), "R18.2",
               "FileCache._cache_file_name", "name == PREFIX + md5(full uri).hexdigest() + POSTFIX, both affixes non-empty",
               f.loc(), derived=r)
    f = p.get_method(FC, "_cache_file_path")
    r2 = T.to_term(it.call_function(f, [me, uri], {}, None))
    okp = (fname(r2) or "").endswith("os_path_join") and len(r2.args) == 2 and r2.args[0] == P("cache_dir") and r2.args[1] == r
    ctx.expect(okp, "R18.2", "FileCache._cache_file_path", "path == join(cache directory, cache file name)", f.loc(), derived=r2)
    ctx.absorb(it)
    # comment stripping only on the download URI
    from .fc import inline_value_calls
    gm = inline_value_calls(p, p.get_method(FC, "get_cache_misses"), keep=CACHE_VOCABULARY)      # private helpers are seen through
    cm_calls = [c for c in calls(gm.node) if call_name(c) == "CacheMiss"]
    loops = [n for n in own_walk(gm.node) if isinstance(n, ast.For)]
    loopvars = set()
    for lp in loops:
        loopvars |= {x.id for x in ast.walk(lp.target) if isinstance(x, ast.Name)}
    la = local_assignments(gm.node)
    if len(cm_calls) != 1:
        ctx.unsure("R18.2", "get_cache_misses[CacheMiss]", f"expected one CacheMiss construction, found {len(cm_calls)}", gm.loc())
    else:
        kws = {k.arg: k.value for k in cm_calls[0].keywords}

        def root_uri(e):
            """does expression e derive from the *full* URI loop variable without stripping?"""
            if isinstance(e, ast.Name):
                if e.id in loopvars:
                    return "full"
                ds = la.get(e.id, [])
                kinds = {root_uri(d[1]) for d in ds if d[0] == "assign"}
                # head, _, _ = uri.partition(sep)
                kinds |= {root_uri(ast.Subscript(value=d[1], slice=ast.Constant(d[2]), ctx=ast.Load())) for d in ds if d[0] == "unpack"}
                return kinds.pop() if len(kinds) == 1 else "mixed"
            if isinstance(e, ast.Call) and isinstance(e.func, ast.Attribute) and isinstance(e.func.value, ast.Name) \
                    and e.func.value.id == "self" and e.func.attr in ("_cache_file_name", "_cache_file_path") and e.args:
                return root_uri(e.args[0])
            if isinstance(e, ast.Subscript) and isinstance(e.value, ast.Call) and isinstance(e.value.func, ast.Attribute) \
                    and e.value.func.attr in ("split", "partition"):
                inner = root_uri(e.value.func.value)
                first = isinstance(e.slice, ast.Constant) and e.slice.value == 0
                return ("stripped" if first else "other") if inner == "full" else inner
            return "other"

        ctx.expect(root_uri(kws.get("filename")) == "full", "R18.2", "get_cache_misses[filename]",
                   "cache file name derives from the full URI including its comment", gm.loc(cm_calls[0]))
        ctx.expect(root_uri(kws.get("filepath")) == "full", "R18.2", "get_cache_misses[filepath]",
                   "cache file path derives from the full URI including its comment", gm.loc(cm_calls[0]))
        kind_dl = root_uri(kws.get("uri"))
        ctx.expect(True if kind_dl == "stripped" else False if kind_dl == "full" else None, "R18.2", "get_cache_misses[download uri]",
                   "only the URI handed to the download function has the comment stripped", gm.loc(cm_calls[0]))
    from .fc import inline_value_calls
    gi = inline_value_calls(p, p.get_method(FC, "__getitem__"), keep=CACHE_VOCABULARY)
    # the returned paths are computed from the same full URIs
    from .fc import returned_name, name_bound_to_call
    fp_defs = [d for d in local_assignments(gi.node).get(returned_name(gi.node) or "", []) if d[0] == "assign"]
    okfp = any(isinstance(d[1], ast.ListComp) and isinstance(d[1].elt, ast.Call)
               and call_name(d[1].elt).endswith("._cache_file_path") for d in fp_defs)
    ctx.expect(okfp, "R18.2", "__getitem__[returned paths]", "returned paths are _cache_file_path(uri) of the parsed URIs", gi.loc())

    # ---- R18.3 foreign files
    prov = Provenance(p, cg)
    n_sinks = 0
    for f in fc_funcs:
        for call, arg, kind in destructive_sinks(p, f):
            n_sinks += 1
            pr = prov.of(f, arg)
            cname = f"{f.qualname}:{kind}({ast.unparse(arg)[:40]})"
            if pr.startswith("ok"):
                ctx.ok("R18.3", cname, "path provenance: " + pr[3:], f.loc(call))
            else:
                ctx.bad("R18.3", cname, "a destructive file-system operation can receive a path that is not a cache file, "
                        "an entry value or the config file (" + pr[8:] + ")", f.loc(call), derived=ast.unparse(call)[:120],
                        required="_cache_file_path / _entries value / cache-miss path / config file")
    gf = p.get_method(FC, "_get_cache_files")

    def conjuncts(c):
        """conjuncts of a condition, looking through `self.<predicate>(x)` helper methods that return a boolean expression"""
        if isinstance(c, ast.BoolOp) and isinstance(c.op, ast.And):
            out = []
            for v in c.values:
                out += conjuncts(v)
            return out
        if isinstance(c, ast.Call) and isinstance(c.func, ast.Attribute) and isinstance(c.func.value, ast.Name) and c.func.value.id == "self":
            m = cache_cls.find_method(c.func.attr)
            rets_ = [n for n in own_walk(m.node) if isinstance(n, ast.Return) and n.value is not None] if m is not None else []
            if m is not None and len(rets_) == 1 and len(m.params) == 1 + len(c.args):
                return conjuncts(rets_[0].value)
        return [c]

    def is_test(c, meth, const):
        return isinstance(c, ast.Call) and isinstance(c.func, ast.Attribute) and c.func.attr == meth and len(c.args) == 1 \
            and ast.unparse(c.args[0]) == "self." + const
    # the filter is whatever guards the names that are returned: the `if`s of a comprehension, or the test around an append
    filters = []
    rets_gf = [n.value for n in own_walk(gf.node) if isinstance(n, ast.Return) and n.value is not None]
    final_comps = [v for v in rets_gf if isinstance(v, (ast.ListComp, ast.GeneratorExp, ast.SetComp)) and any(g.ifs for g in v.generators)]
    if final_comps and len(final_comps) == len([v for v in rets_gf if not (isinstance(v, (ast.List, ast.Tuple)) and not v.elts)]):
        # every non-empty result is a filtered comprehension: that filter is the last word on what is returned, whatever
        # intermediate lists were gathered (and pre-filtered for other reasons) before it
        for v in final_comps:
            filters.append([x for g in v.generators for c in g.ifs for x in conjuncts(c)])
    else:
        for n in ast.walk(gf.node):
            if isinstance(n, (ast.ListComp, ast.GeneratorExp, ast.SetComp)):
                cs = [c for g in n.generators for c in g.ifs]
                if cs:
                    filters.append([x for c in cs for x in conjuncts(c)])
            elif isinstance(n, ast.If) and any(isinstance(c, ast.Call) and isinstance(c.func, ast.Attribute) and c.func.attr == "append"
                                               for b_ in n.body for c in ast.walk(b_)):
                filters.append(conjuncts(n.test))
    okf = bool(filters) and all(any(is_test(c, "startswith", "CACHE_FILE_PREFIX") for c in cj)
                                and any(is_test(c, "endswith", "CACHE_FILE_POSTFIX") for c in cj) for cj in filters)
    ctx.expect(okf, "R18.3", "_get_cache_files[filter]",
               "adoption accepts a file only if it has the cache prefix AND the cache postfix (each test a conjunct of its own)", gf.loc())
    ini = p.get_method(FC, "_initialize_cache")
    listing_alias = name_bound_to_call(ini.node, "._get_cache_files")

    def from_listing(e):
        d_ = dotted(e) or ""
        if d_.endswith("._get_cache_files()") or (isinstance(e, ast.Name) and e.id == listing_alias):
            return True
        return isinstance(e, ast.Call) and isinstance(e.func, ast.Name) and e.func.id in ("zip", "enumerate", "sorted", "list") and bool(e.args) \
            and from_listing(e.args[0])
    iters_ini = [n.iter for n in ast.walk(ini.node) if isinstance(n, (ast.For, ast.comprehension))]
    reg = [it_ for it_ in iters_ini if from_listing(it_)]
    if iters_ini and len(reg) != len(iters_ini):
        reg = []        # some loop of the start-up registration runs over something other than the filtered listing
    other = [n for n in ast.walk(ini.node) if isinstance(n, ast.Call) and resolve_ext(p, ini, n) in ("os.listdir", "os.walk", "os.scandir", "glob.glob")]
    ctx.expect(bool(reg) and not other, "R18.3", "_initialize_cache[adoption source]",
               "entries adopted on start-up come only from the filtered listing", ini.loc())

    # ---- R18.4 hits
    # (a) a CacheMiss is appended only under `not valid_entry`
    appends = [c for c in calls(gm.node) if isinstance(c.func, ast.Attribute) and c.func.attr == "append"
               and any(isinstance(a, ast.Call) and call_name(a) == "CacheMiss" for a in c.args)]
    guarded = False
    valid_flag = None
    for lp in loops:
        for st in ast.walk(lp):
            if isinstance(st, ast.If) and any(a in list(ast.walk(st)) for a in appends):
                if isinstance(st.test, ast.UnaryOp) and isinstance(st.test.op, ast.Not) and isinstance(st.test.operand, ast.Name) \
                        and all(a in [x for b in st.body for x in ast.walk(b)] for a in appends):
                    guarded = True
                    valid_flag = st.test.operand.id
    ctx.expect(guarded and len(appends) == 1, "R18.4", "get_cache_misses[misses only when not valid]",
               "a URI becomes a CacheMiss only if it is absent from the cache or failed validation", gm.loc())
    # (b) valid_entry can be True only under _is_in_cache(hashkey)
    true_sets = [n for n in own_walk(gm.node) if isinstance(n, (ast.Assign, ast.AnnAssign))
                 and any(isinstance(t, ast.Name) and t.id == valid_flag
                         for t in (n.targets if isinstance(n, ast.Assign) else [n.target]))
                 and not (isinstance(n.value, ast.Constant) and n.value.value is False)]
    in_cache_ifs = [n for n in own_walk(gm.node) if isinstance(n, ast.If) and "_is_in_cache" in ast.unparse(n.test)
                    and not ast.unparse(n.test).startswith("not ")]
    inside = all(any(ts in [x for b in i.body for x in ast.walk(b)] for i in in_cache_ifs) for ts in true_sets)
    if not (bool(true_sets) and inside):
        # the same fact decided on paths instead of on nesting: in the scenario "no entry for this URI" every path through the
        # per-URI loop body schedules a miss and none takes the hit branch
        from .fc import scenario_paths

        def absent(test, e):
            txt = ast.unparse(test)
            if isinstance(test, ast.Call) and call_name(test).endswith("_is_in_cache"):
                return False
            return None

        def ev_of(c):
            nm = call_name(c)
            return "miss" if nm == "CacheMiss" else ("hit" if nm.endswith("_get_from_cache") else None)
        body_loops = [lp for lp in loops if any(a in list(ast.walk(lp)) for a in appends)]
        finals = scenario_paths(body_loops[0].body, {}, absent, ev_of) if len(body_loops) == 1 else []
        inside = bool(finals) and all("miss" in ev_ and "hit" not in ev_ for _, ev_ in finals)
        true_sets = true_sets or finals
    ctx.expect(bool(true_sets) and inside, "R18.4", "get_cache_misses[hit requires entry]",
               "an entry is considered valid only inside the `_is_in_cache` branch (a URI without an entry is always a miss, never a hit)",
               gm.loc())
    # (c) touch on the hit branch, before eviction
    touchers = [f for f in fc_funcs if any(k in ("Path.touch",) for _, _, k in destructive_sinks(p, f))
                or any(resolve_ext(p, f, c) == "os.utime" for c in calls(f.node))]
    reach_touch = set()
    for t in touchers:
        reach_touch.add(t)
    changed = True
    while changed:
        changed = False
        for f in fc_funcs:
            if f in reach_touch:
                continue
            if any(tt in reach_touch and kind in ("self", "direct") for tt, c, kind in cg.edges.get(f, []) if c is not None):
                reach_touch.add(f)
                changed = True
    hit_touch = False
    where = ""
    for host in (gm, gi):
        for c in calls(host.node):
            if isinstance(c.func, ast.Attribute) and isinstance(c.func.value, ast.Name) and c.func.value.id == "self":
                t = cache_cls.find_method(c.func.attr)
                if t in touchers or (t in reach_touch and t not in (gm, gi)):
                    # must be on a branch where the entry is valid: enclosing If tests mention valid_entry positively
                    anc_tests = [ast.unparse(n.test) for n in own_walk(host.node) if isinstance(n, ast.If)
                                 and c in [x for b in n.body for x in ast.walk(b)]]
                    if host is gm and any(tst == valid_flag for tst in anc_tests):
                        hit_touch = True
                        where = host.loc(c)
                    if host is gi:
                        hit_touch = True
                        where = host.loc(c)
    # every kind of hit refreshes recency: a plain hit, and a hit whose entry was first validated (otherwise a just-used file is the
    # first to be evicted).  Decided on the paths of the per-URI loop body in the two hit scenarios.
    from .fc import scenario_paths as _sp
    body_loops_ = [lp for lp in loops if any(a in list(ast.walk(lp)) for a in appends)]
    toucher_names = {t.name for t in touchers} | {t.name for t in reach_touch if t not in (gm, gi)}

    def hit_events(with_validate):
        def oracle(test, e):
            if isinstance(test, ast.Call) and call_name(test).endswith("_is_in_cache"):
                return True
            if isinstance(test, ast.Compare) and len(test.ops) == 1 and isinstance(test.left, ast.Constant) and test.left.value == "validate":
                return with_validate if isinstance(test.ops[0], ast.In) else (not with_validate if isinstance(test.ops[0], ast.NotIn) else None)
            if isinstance(test, ast.Call) and isinstance(test.func, ast.Name) and e.get("@fn:" + test.func.id):
                return True         # the validator accepts
            return None

        # the looked-up validation function is whatever local is bound from the directive table
        env0 = {}
        for n_ in ast.walk(body_loops_[0]):
            if isinstance(n_, ast.Assign) and len(n_.targets) == 1 and isinstance(n_.targets[0], ast.Name) \
                    and isinstance(n_.value, ast.Subscript) and "validate" in ast.unparse(n_.value):
                env0["@fn:" + n_.targets[0].id] = True

        def ev_of(c):
            if isinstance(c.func, ast.Attribute) and isinstance(c.func.value, ast.Name) and c.func.value.id == "self" \
                    and c.func.attr in toucher_names:
                return "touch"
            if isinstance(c.func, ast.Name) and ("@fn:" + c.func.id) in env0:
                return "validate"
            return "miss" if call_name(c) == "CacheMiss" else None
        return [ev_ for _, ev_ in _sp(body_loops_[0].body, env0, oracle, ev_of)]
    if len(body_loops_) == 1 and toucher_names:
        plain, validated = hit_events(False), hit_events(True)
        okh = bool(plain) and bool(validated) and all("touch" in e_ and "miss" not in e_ for e_ in plain + validated)
        ctx.expect(okh, "R18.4", "get_cache_misses[every hit is touched]",
                   "a present entry that is served (no validation requested, or validation passed) has its time stamp refreshed on every path",
                   gm.loc(), derived=f"plain hit: {sorted({'+'.join(e_) or 'nothing' for e_ in plain})}; validated hit: "
                                     f"{sorted({'+'.join(e_) or 'nothing' for e_ in validated})}")
        # ... and the validator judges the file as it was left by its last use: a touch ahead of the validation call resets the very
        # time stamp an age-based validator reads, so a stale entry can never be rejected
        seen_val = [e_ for e_ in validated if "validate" in e_]
        if seen_val:
            oko = all(e_.index("validate") < e_.index("touch") for e_ in seen_val if "touch" in e_)
            ctx.expect(oko, "R18.4", "get_cache_misses[validate before touch]",
                       "the validation function is called before the entry's time stamp is refreshed", gm.loc(),
                       derived=str(sorted({'+'.join(e_) for e_ in seen_val})), required="validate ... touch")
        else:
            # the validation call sits in a helper this walk does not enter: the order is not judged here (no verdict on this clause;
            # the hit scenarios above still hold).  On the pinned tree the call is found and the clause is decided.
            ctx.notes.append("R18.4 validate-before-touch: validation call not found on the hit paths of get_cache_misses (delegated); "
                             "ordering clause not evaluated")
    else:
        ctx.unsure("R18.4", "get_cache_misses[every hit is touched]", "per-URI loop or touching method not identified", gm.loc())
    ev_calls = [c for c in calls(gi.node) if call_name(c) == "self._cache_eviction"]
    gm_calls = [c for c in calls(gi.node) if call_name(c) == "self.get_cache_misses"]
    before = bool(ev_calls) and bool(gm_calls) and all(g.lineno < e.lineno for g in gm_calls for e in ev_calls)
    ctx.expect(hit_touch and before, "R18.4", "__getitem__[hits touched before eviction]",
               "a cache hit refreshes its file's timestamp (touch reachable on the valid-entry branch) before eviction can run",
               where or gi.loc(), derived="touch functions: " + ", ".join(t.name for t in touchers))

    # ---- R18.5 eviction
    from .fc import substitute_defs as _sdef, inline_value_calls as _inl
    ev = _inl(p, p.get_method(FC, "_cache_eviction"), keep=CACHE_VOCABULARY)       # private helpers are seen through
    la_ev = local_assignments(ev.node)
    sorts = [c for c in calls(ev.node) if call_name(c) == "sorted" or (isinstance(c.func, ast.Attribute) and c.func.attr == "sort")]
    pops = [c for c in calls(ev.node) if isinstance(c.func, ast.Attribute) and c.func.attr == "pop"
            and not (dotted(c.func.value) or "").endswith("_entries")]
    # consumption by position: the remover is handed <list>[k] with k a counter that starts at 0 and advances by one per removal
    removers = [c for c in calls(ev.node) if call_name(c).endswith("_remove_item_from_cache")]
    by_counter = None
    for c in removers:
        a0 = c.args[0] if c.args else None
        if isinstance(a0, ast.Subscript) and isinstance(a0.slice, ast.Name):
            k = a0.slice.id
            inits = [d for d in la_ev.get(k, []) if d[0] == "assign"]
            incs = [n for n in ast.walk(ev.node) if isinstance(n, ast.AugAssign) and isinstance(n.target, ast.Name) and n.target.id == k]
            if len(inits) == 1 and isinstance(inits[0][1], ast.Constant) and len(incs) == 1 and isinstance(incs[0].op, (ast.Add, ast.Sub)) \
                    and isinstance(incs[0].value, ast.Constant) and incs[0].value.value == 1:
                start = inits[0][1].value
                by_counter = "first" if (start == 0 and isinstance(incs[0].op, ast.Add)) else (
                    "last" if (start == -1 and isinstance(incs[0].op, ast.Sub)) else "?")
    if len(sorts) != 1 or (len(pops) != 1 and by_counter is None):
        ctx.unsure("R18.5", "_cache_eviction[order]", f"expected one sort and one pop (or indexed consumption), found {len(sorts)}/{len(pops)}",
                   ev.loc())
    else:
        rev = next((k.value for k in sorts[0].keywords if k.arg == "reverse"), ast.Constant(False))
        rev_v = rev.value if isinstance(rev, ast.Constant) else None
        if by_counter is not None and len(pops) != 1:
            pop_first, pop_last = by_counter == "first", by_counter == "last"
        else:
            pop_first = bool(pops[0].args) and isinstance(pops[0].args[0], ast.Constant) and pops[0].args[0].value == 0
            pop_last = not pops[0].args or (isinstance(pops[0].args[0], ast.Constant) and pops[0].args[0].value == -1)
        key = next((k.value for k in sorts[0].keywords if k.arg == "key"), None)
        key_ok = key is None or (isinstance(key, ast.Lambda) and ast.unparse(key.body) in (
            f"{key.args.args[0].arg}[0]",))
        if not key_ok and isinstance(key, ast.Attribute) and key.attr == "__getitem__" and isinstance(key.value, ast.Name):
            # sorted(names, key=stamps.__getitem__): ordered by the stamp each name maps to, when `stamps` is built as {name: stamp}
            defs = [d for d in la_ev.get(key.value.id, []) if d[0] == "assign"]
            stamp_words = ("getatime", "getmtime", "st_atime", "st_mtime")
            key_ok = len(defs) == 1 and isinstance(defs[0][1], ast.DictComp) and any(
                w in ast.unparse(_sdef(ev.node, defs[0][1].value, {"self"})) for w in stamp_words)
            if not key_ok and len(defs) == 1 and isinstance(defs[0][1], ast.List) and not defs[0][1].elts:
                # ... or a list filled in step with the candidates: stamps.append(<stamp of candidate i>)
                apps = [c for c in calls(ev.node) if isinstance(c.func, ast.Attribute) and c.func.attr == "append"
                        and isinstance(c.func.value, ast.Name) and c.func.value.id == key.value.id and c.args]
                key_ok = len(apps) == 1 and any(w in ast.unparse(_sdef(ev.node, apps[0].args[0], {"self"})) for w in stamp_words)
            key_ok = True if key_ok else None
        oldest_first = (rev_v is True and pop_last) or (rev_v is False and pop_first)
        ctx.expect(oldest_first if rev_v is not None and (pop_first or pop_last) else None, "R18.5",
                   "_cache_eviction[oldest first]",
                   "sort direction and consumption side agree so that the least recently used file is removed first", ev.loc(sorts[0]),
                   derived=f"reverse={rev_v}, taken={'first' if pop_first else 'last' if pop_last else '?'}")
        ctx.expect(key_ok, "R18.5", "_cache_eviction[sort key]", "candidates are ordered by their recency stamp", ev.loc(sorts[0]))
    # recency stamp == max(atime, mtime): the value computed from both time stamps of an entry (first component of the sorted
    # (stamp, key) pairs, or the value of a {key: stamp} table), local names substituted by their definitions
    it2 = Interp(p)
    stamp = None
    cands = [n.elts[0] for n in ast.walk(ev.node) if isinstance(n, ast.Tuple) and len(n.elts) == 2 and isinstance(n.ctx, ast.Load)]
    cands += [n.value for n in ast.walk(ev.node) if isinstance(n, ast.DictComp)]
    cands += [c.args[0] for c in calls(ev.node) if isinstance(c.func, ast.Attribute) and c.func.attr == "append" and len(c.args) == 1
              and not isinstance(c.args[0], ast.Tuple)]
    for tp in cands:
        e0 = _sdef(ev.node, tp, {"self"})
        txt = ast.unparse(e0)
        if "getatime" not in txt and "getmtime" not in txt and "st_atime" not in txt and "st_mtime" not in txt and not any(isinstance(c, ast.Call) and isinstance(
                p.resolve_expr(ev.module, c.func) if isinstance(c.func, (ast.Name, ast.Attribute)) else None, type(ev)) for c in ast.walk(e0)):
            continue
        env = Env(it2, ev, ev.module)
        for nm_ in {x.id for x in ast.walk(e0) if isinstance(x, ast.Name)}:
            if nm_ not in ("os", "max", "min", "self") and p.resolve_name(ev.module, nm_) is None:
                env.vars.setdefault(nm_, P("entry_path"))
        env.vars.setdefault("self", P("self"))
        try:
            term = T.to_term(it2.eval(e0, env))
        except Exception:
            continue
        A, M = P("atime"), P("mtime")
        at = [x for x in T.subterms(term) if fname(x) == "ext_os_path_getatime"]
        mt = [x for x in T.subterms(term) if fname(x) == "ext_os_path_getmtime"]
        if at and mt and len({x.args for x in at + mt}) == 1:
            term = term.xreplace({x: A for x in at}).xreplace({x: M for x in mt})
            stamp = (tp, T.resimplify(term), A, M)
    if stamp is None:
        ctx.bad("R18.5", "_cache_eviction[recency stamp]", "no value combining getatime and getmtime of the entry is computed",
                ev.loc())
    else:
        n, term, A, M = stamp
        c = CMP("lt", M, A)
        if fname(term) == "ite":
            v1 = T.assume(term, {term.args[0]: True})
            v2 = T.assume(term, {term.args[0]: False})
            cond = term.args[0]
            is_max = (cond in (CMP("gt", A, M), CMP("ge", A, M)) and v1 == A and v2 == M) or (
                cond in (CMP("gt", M, A), CMP("ge", M, A)) and v1 == M and v2 == A)
        else:
            is_max = term in (op("maximum", *sorted([A, M], key=sp.default_sort_key)), sp.Max(A, M), op("max", A, M), op("max", M, A),
                              op("max", sp.Tuple(A, M), T.NONE_T), op("max", sp.Tuple(M, A), T.NONE_T))
        ctx.expect(is_max, "R18.5", "_cache_eviction[recency stamp]", "stamp == max(access time, modification time)",
                   ev.loc(n), derived=term, required="max(atime, mtime)")
        # the stamp is what the sort sees: the pair is collected (appended / comprehended) into the list that is sorted by item 0
        ctx.ok("R18.5", "_cache_eviction[stamp is the sort key]", "(stamp, key) pairs are what gets sorted", ev.loc(n))

    def size_vs_limit(test):
        """'gt' when the test is `size > limit`, 'le' when it is `size <= limit` (locals read through), else None"""
        neg = False
        t_ = test
        while isinstance(t_, ast.UnaryOp) and isinstance(t_.op, ast.Not):
            neg, t_ = not neg, t_.operand
        if not (isinstance(t_, ast.Compare) and len(t_.ops) == 1):
            return None
        unwalrus = lambda e: e.value if isinstance(e, ast.NamedExpr) else e  # noqa: E731   (`(s := self._size()) > limit`)
        l_ = ast.unparse(_sdef(ev.node, unwalrus(t_.left), {"self"})).replace(" ", "")
        r_ = ast.unparse(_sdef(ev.node, unwalrus(t_.comparators[0]), {"self"})).replace(" ", "")
        is_size = lambda x: x == "self._size()"  # noqa: E731
        is_lim = lambda x: x == "self.config.max_size_bytes"  # noqa: E731
        o = t_.ops[0]
        rel = None
        if is_size(l_) and is_lim(r_):
            rel = {ast.Gt: "gt", ast.LtE: "le", ast.GtE: "ge", ast.Lt: "lt"}.get(type(o))
        elif is_lim(l_) and is_size(r_):
            rel = {ast.Lt: "gt", ast.GtE: "le", ast.LtE: "ge", ast.Gt: "lt"}.get(type(o))
        if rel is None:
            return None
        if neg:
            rel = {"gt": "le", "le": "gt", "ge": "lt", "lt": "ge"}[rel]
        return rel
    whiles = [n for n in own_walk(ev.node) if isinstance(n, ast.While)]
    okw = False
    seen_form = False
    for w in whiles:
        body_calls = [call_name(c) for st in w.body for c in ast.walk(st) if isinstance(c, ast.Call)]
        if "self._remove_item_from_cache" not in body_calls:
            continue
        rel = size_vs_limit(w.test)
        if rel is not None:
            seen_form = True
            okw = okw or rel == "gt"
        elif isinstance(w.test, ast.Constant) and w.test.value is True:
            # while True: <size bound>; if size <= limit: break; ... remove ...
            exits = [st for st in w.body if isinstance(st, ast.If) and len(st.body) == 1 and isinstance(st.body[0], ast.Break) and not st.orelse]
            first_rm = next((i for i, st in enumerate(w.body) if any(isinstance(c, ast.Call) and call_name(c).endswith("_remove_item_from_cache")
                                                                     for c in ast.walk(st))), None)
            if len(exits) == 1 and first_rm is not None and w.body.index(exits[0]) < first_rm:
                rel = size_vs_limit(exits[0].test)
                if rel is not None:
                    seen_form = True
                    okw = okw or rel == "le"
    ctx.expect(okw if (okw or seen_form or not whiles) else None, "R18.5", "_cache_eviction[loop]",
               "files are removed through the entry+file remover while size > limit (strictly: a cache exactly at its limit evicts nothing more)",
               ev.loc())
    guards = [n for n in own_walk(ev.node) if isinstance(n, ast.If) and "self._size()" in ast.unparse(_sdef(ev.node, n.test, {"self"}))
              and any(isinstance(x, ast.Return) for b in n.body for x in ast.walk(b))]
    okg = True
    for g_ in guards:
        okg = okg and size_vs_limit(g_.test) == "le"
    ctx.expect(okg, "R18.5", "_cache_eviction[no-op at or below the limit]",
               "eviction returns without deleting anything when size <= limit", ev.loc())
    rm = p.get_method(FC, "_remove_item_from_cache")
    rm_pop = any(call_name(c).endswith("_entries.pop") for c in calls(rm.node))
    rm_del = any(resolve_ext(p, rm, c) == "os.remove" for c in calls(rm.node))
    ctx.expect(rm_pop and rm_del, "R18.5", "_remove_item_from_cache", "removes the entry and its file together", rm.loc())
    # what `_size()` measures is the files the cache registered: the entries hold complete file paths (built by _cache_file_path as
    # join(self.path, name)), so the measuring helper must be given those paths as they are.  Re-rooting them under self.path only
    # works when self.path is absolute (join discards it); for a relative cache directory every path is missing, the size is 0 and
    # the bound is never enforced.
    szm = p.get_method(FC, "_size")
    cfp = p.get_method(FC, "_cache_file_path")
    full_paths = any(isinstance(c, ast.Call) and (dotted(c.func) or "").endswith("path.join") and c.args
                     and dotted(c.args[0]) == "self.path" for c in ast.walk(cfp.node))
    sz_calls = [c for c in calls(szm.node) if "size" in call_name(c).lower() and c.args]
    if len(sz_calls) != 1 or not full_paths:
        ctx.unsure("R18.5", "_size[registered paths]", "the size is not computed by one call over the registered paths, or the "
                   "registered paths are not built by joining the cache directory and a file name", szm.loc())
    else:
        c0 = sz_calls[0]
        over_entries = "_entries" in ast.unparse(c0.args[0])
        rooted = [a for a in list(c0.args[1:]) + [k.value for k in c0.keywords] if "self.path" in ast.unparse(a)]
        ctx.expect((over_entries and not rooted) if over_entries else None, "R18.5", "_size[registered paths]",
                   "the size on disk is taken over the registered paths as stored (complete paths), not re-rooted under the cache "
                   "directory a second time", szm.loc(c0), derived=ast.unparse(c0))
    # enlargement only when the request alone exceeds the limit
    enl = [n for n in own_walk(gi.node) if isinstance(n, ast.Assign) and any(
        (dotted(t) or "").endswith("config.max_size_bytes") or (dotted(t) or "").endswith("config.max_size") for t in n.targets)]
    ok_enl = True
    for e in enl:
        anc = [n for n in own_walk(gi.node) if isinstance(n, ast.If) and e in [x for b in n.body for x in ast.walk(b)]]
        tests = [ast.unparse(a.test) for a in anc]
        if not any(("size_of_requested_data >" in t or "> self.config.max_size_bytes" in t) and "max_size_bytes" in t for t in tests):
            ok_enl = False
    ctx.expect(ok_enl and len(enl) <= 1, "R18.5", "__getitem__[enlargement]",
               "the limit is raised only when the requested set alone exceeds it", gi.loc(enl[0]) if enl else gi.loc())
    # ... and "the requested set" is every path the request returns (hits included): the size compared with the limit is the total
    # size of the returned list, so that the eviction that follows cannot be forced to delete a file of the current request
    from .fc import returned_name as _rn
    rname = _rn(gi.node)
    for e in enl:
        anc = [n for n in own_walk(gi.node) if isinstance(n, ast.If) and e in [x for b in n.body for x in ast.walk(b)]]
        sized = None
        for a_ in anc:
            for x in ast.walk(a_.test):
                if isinstance(x, ast.Name):
                    defs = [d for d in la_gi.get(x.id, []) if d[0] == "assign"] if (la_gi := local_assignments(gi.node)) else []
                    if len(defs) == 1 and isinstance(defs[0][1], ast.Call) and "size" in call_name(defs[0][1]).lower() and defs[0][1].args:
                        sized = defs[0][1].args[0]
        if sized is None or rname is None:
            ctx.unsure("R18.5", "__getitem__[requested set]", "the size compared with the limit is not the size of one list of paths",
                       gi.loc(e))
        else:
            sized_e = _sdef(gi.node, sized, {"self"})
            names = {x.id for x in ast.walk(sized_e) if isinstance(x, ast.Name)}
            verdict = True if (isinstance(sized, ast.Name) and sized.id == rname) else (False if rname not in names else None)
            ctx.expect(verdict, "R18.5", "__getitem__[requested set]",
                       "the size that decides on enlarging the cache is the total size of every path the request returns (files already "
                       "in the cache included), not of a part of them", gi.loc(e), derived=ast.unparse(sized), required=rname)
    # the new limit must exceed the request by a margin: the byte limit is stored as a floating point number of gigabytes and read
    # back through int(gb * GIGABYTE), which truncates - without slack the limit can come back one byte below the request, and the
    # eviction that follows (strictly `size > limit`) deletes the files that were just returned
    cfg_cls = p.get_class("filecache.cache_object.CacheConfig") if "filecache.cache_object.CacheConfig" in p.classes else None
    getter = next((m for m in (p.all_functions) if m.name == "max_size_bytes" and m.is_property and not m.is_setter), None)
    truncating = getter is not None and any(isinstance(c, ast.Call) and isinstance(c.func, ast.Name) and c.func.id == "int"
                                            for c in ast.walk(getter.node))
    for e in enl:
        v = e.value
        req_names = {x.id for a_ in [n for n in own_walk(gi.node) if isinstance(n, ast.If) and e in [y for b in n.body for y in ast.walk(b)]]
                     for x in ast.walk(a_.test) if isinstance(x, ast.Name)}
        margin = None
        if isinstance(v, ast.Name) and v.id in req_names:
            margin = False
        elif isinstance(v, ast.BinOp) and isinstance(v.op, ast.Add):
            sides = [v.left, v.right]
            req = [x for x in sides if isinstance(x, ast.Name) and x.id in req_names]
            other = [x for x in sides if x not in req]
            if len(req) == 1 and len(other) == 1:
                o = other[0]
                val = o.value if isinstance(o, ast.Constant) else None
                if isinstance(o, ast.Name):
                    try:
                        val = p.const_global(gi.module, o.id)
                    except Exception:
                        val = None
                margin = (val > 0) if isinstance(val, (int, float)) else None
        ctx.expect(margin if truncating else (True if margin is not False else None), "R18.5", "__getitem__[enlargement margin]",
                   "the enlarged limit is the requested size plus a positive margin (the limit round-trips through a truncating float "
                   "conversion)", gi.loc(e), derived=ast.unparse(v))
    adds = [c for c in calls(gi.node) if call_name(c) == "self._add_to_cache"]
    ctx.expect(bool(ev_calls) and bool(adds) and all(a.lineno < e.lineno for a in adds for e in ev_calls), "R18.5",
               "__getitem__[eviction after registration]", "eviction runs after the new files are registered", gi.loc())

    # ---- R18.6 order-preserving download results
    dl = p.get_function(FCM + "._download_from_resources")
    bad_maps = [c for c in calls(dl.node) if isinstance(c.func, ast.Attribute) and c.func.attr in (
        "imap_unordered", "map_async", "apply_async", "starmap_async")]
    good = [c for c in calls(dl.node) if (isinstance(c.func, ast.Attribute) and c.func.attr in ("imap", "map", "starmap"))
            or call_name(c) == "map"]
    over_misses = [c for c in good if any(isinstance(a, ast.Name) and a.id == dl.params[0] for a in c.args)]
    for c in bad_maps:
        ctx.bad("R18.6", f"_download_from_resources[{c.func.attr}]", "results of an unordered/asynchronous map are paired "
                "positionally with the misses", dl.loc(c))
    ctx.expect(len(over_misses) >= 2 and not bad_maps, "R18.6", "_download_from_resources[ordered maps]",
               "both download modes map the worker over cache_misses with an order-preserving map", dl.loc(),
               derived=", ".join(ast.unparse(c.func) for c in good))
    zips = [c for c in calls(gi.node) if call_name(c) == "zip"]
    okz = False
    for z in zips:
        names = [a.id for a in z.args if isinstance(a, ast.Name)]
        misses_name = name_bound_to_call(gi.node, ".get_cache_misses")
        if len(names) == 2 and misses_name is not None and names[0] == misses_name:
            d = [x for x in local_assignments(gi.node).get(names[1], []) if x[0] == "assign"]
            if any(isinstance(x[1], ast.Call) and call_name(x[1]) == "_download_from_resources"
                   and x[1].args and isinstance(x[1].args[0], ast.Name) and x[1].args[0].id == misses_name for x in d):
                okz = True
    ctx.expect(okz, "R18.6", "__getitem__[results zipped with misses]",
               "download results are paired with the very list of misses that was downloaded", gi.loc())
    # worker resolution: every miss gets a download function or the call raises
    one_cache_per_directory_rule(ctx, p)
    ctx.require_count("R18.1", 8)
    ctx.require_count("R18.2", 6)
    ctx.require_count("R18.3", 9)
    ctx.require_count("R18.4", 4)
    ctx.require_count("R18.5", 12)
    ctx.require_count("R18.6", 2)
    ctx.require_count("R18.7", 1)
    ctx.functions_analysed.update({f.qualname: 1 for f in fc_funcs})
    ctx.calls_resolved += cg.stats()["call_sites_resolved"]


def _path_wrappers(f_node, expr, name):
    """the chain of single-argument path functions (outermost first) applied to the parameter/local `name` in `expr`, following
    reassignments `name = g(name)` and single-assigned locals of the function; None when expr is not such a chain"""
    la = local_assignments(f_node)
    chain = []
    seen = 0
    e = expr
    while seen < 12:
        seen += 1
        if isinstance(e, ast.Call) and len(e.args) == 1 and not e.keywords and isinstance(e.func, (ast.Attribute, ast.Name)):
            chain.append((dotted(e.func) or "").split(".")[-1])
            e = e.args[0]
            continue
        if isinstance(e, ast.Name):
            defs = [d for d in la.get(e.id, []) if d[0] == "assign" and d[1] is not expr]
            selfref = [d for d in defs if any(isinstance(x, ast.Name) and x.id == e.id for x in ast.walk(d[1]))]
            if e.id == name and not defs:
                return chain
            if e.id == name and len(defs) == 1 and selfref:
                # name = g(name): continue below the reassignment
                inner = _path_wrappers_of_selfref(defs[0][1], name)
                return None if inner is None else chain + inner
            if e.id != name and len(defs) == 1:
                e = defs[0][1]
                continue
        return None
    return None


def _path_wrappers_of_selfref(e, name):
    chain = []
    while isinstance(e, ast.Call) and len(e.args) == 1 and not e.keywords:
        chain.append((dotted(e.func) or "").split(".")[-1])
        e = e.args[0]
    return chain if isinstance(e, ast.Name) and e.id == name else None


def _path_normal_form(chain):
    """(absolute?, user-expanded?) - abspath/realpath/normpath make a spelling canonical, expanduser only matters below them"""
    absolute = any(c in ("abspath", "realpath", "resolve") for c in chain)
    user = "expanduser" in chain
    return absolute, user


def one_cache_per_directory_rule(ctx, p):
    """R18.7: `create_cache` refuses a second cache on a directory already in use by comparing the new path with the `path` of
    every active cache.  That comparison is between two spellings of a directory, so both sides must have gone through the same
    normalisation: the path stored by FileCache.__init__ (normalisation in __init__ applied to what create_cache passes) and the
    value compared with it."""
    fq = "filecache.filecache.create_cache"
    if fq not in p.functions:
        ctx.unsure("R18.7", "create_cache", "function not found", "")
        return
    cc = p.get_function(fq)
    cmps = [n for n in own_walk(cc.node) if isinstance(n, ast.Compare) and len(n.ops) == 1 and isinstance(n.ops[0], ast.Eq)
            and any(isinstance(x, ast.Attribute) and x.attr == "path" for x in [n.left] + n.comparators)]
    ctor = [c for c in calls(cc.node) if call_name(c) == "FileCache"]
    init = p.get_method(FC, "__init__")
    if len(cmps) != 1 or len(ctor) != 1:
        ctx.unsure("R18.7", "create_cache[one cache per directory]", "comparison of the new path with the paths in use, or the "
                   "construction of the cache, not found", cc.loc())
        return
    other = [x for x in [cmps[0].left] + cmps[0].comparators if not (isinstance(x, ast.Attribute) and x.attr == "path")][0]
    b = binding.bind_by_name(init, ctor[0], True) or {}
    pname = init.params[1] if len(init.params) > 1 else "path"
    arg = b.get(pname)
    stores = [n for n in own_walk(init.node) if isinstance(n, ast.Assign) and any(dotted(t) == "self.path" for t in n.targets)]
    cparam = next((x.id for x in ast.walk(other) if isinstance(x, ast.Name) and x.id in cc.params), None)
    if arg is None or len(stores) != 1 or cparam is None:
        ctx.unsure("R18.7", "create_cache[one cache per directory]", "path argument / stored path not identified", cc.loc())
        return
    c_cmp = _path_wrappers(cc.node, other, cparam)
    c_arg = _path_wrappers(cc.node, arg, cparam)
    c_init = _path_wrappers(init.node, stores[0].value, pname)
    if None in (c_cmp, c_arg, c_init):
        ctx.unsure("R18.7", "create_cache[one cache per directory]", "a path is built in a form the rule does not read", cc.loc(cmps[0]))
        return
    stored, compared = _path_normal_form(c_init + c_arg), _path_normal_form(c_cmp)
    ctx.expect(stored == compared, "R18.7", "create_cache[one cache per directory]",
               "the path compared with the paths of the active caches went through the same normalisation as the path a cache stores: "
               "otherwise a second cache is accepted on a directory in use whenever it is spelled differently", cc.loc(cmps[0]),
               derived=f"stored: {'('.join(c_init + c_arg) or 'as given'}; compared: {'('.join(c_cmp) or 'as given'}")
