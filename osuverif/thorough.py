"""Thorough tier: (a) environment resolution of every third-party attribute chain in all functions reachable
(resolved call graph) from the functions the property's rules analysed; (b) liveness replay of the property's
self-test variants against the tree under analysis (a firing variant that no longer fires means the rule is dead)."""
from __future__ import annotations

import ast
import os
from concurrent.futures import ThreadPoolExecutor

from . import envres
from .callgraph import CallGraph


def third_party_chains(program, f):
    out = {}
    for n in ast.walk(f.node):
        if isinstance(n, ast.Attribute):
            # maximal chains only
            chain = []
            cur = n
            while isinstance(cur, ast.Attribute):
                chain.append(cur.attr)
                cur = cur.value
            if isinstance(cur, ast.Name):
                r = program.resolve_name(f.module, cur.id)
                if isinstance(r, tuple) and r[0] == "ext" and r[1].split(".")[0] in envres.ROOTS:
                    full = r[1] + "." + ".".join(reversed(chain))
                    out.setdefault(full, f.loc(n))
    # dtype names given as strings are looked up in numpy's registry at run time (or at numba compile time)
    for n in ast.walk(f.node):
        if isinstance(n, ast.Call):
            cands = [k.value for k in n.keywords if k.arg == "dtype"]
            if isinstance(n.func, ast.Attribute) and n.func.attr in ("astype", "dtype", "view") and n.args:
                cands.append(n.args[0])
            for c in cands:
                if isinstance(c, ast.Constant) and isinstance(c.value, str):
                    out.setdefault(f'numpy.dtype:{c.value}', f.loc(n))
    return out


def hierarchy_roots(p, roots):
    """Class-hierarchy extension of the entry points: when a rule analysed method K.m, a subclass S of K can be the receiver,
    so S.m (an override) is an entry point too, and so are S.__init__ and the functions it registers on the instance
    (`self.x = some_function`), which the inherited method then calls through the attribute."""
    by_class = {}
    for f in roots:
        if f.cls is not None:
            by_class.setdefault(f.cls, set()).add(f.name)
    extra_roots = []
    seen = {id(f) for f in roots}

    def add(f):
        if id(f) not in seen:
            seen.add(id(f))
            extra_roots.append(f)

    for c in list(p.classes.values()):
        names = set()
        for k, ns in by_class.items():
            if c is not k and c.is_subclass_of(k):
                names |= ns
        if not names:
            continue
        for f in p.all_functions:
            if f.cls is not c:
                continue
            if f.name in names:
                add(f)
            if f.name == "__init__":
                add(f)
                for n in ast.walk(f.node):
                    if isinstance(n, ast.Assign) and isinstance(n.value, ast.Name) and any(
                            isinstance(t, ast.Attribute) and isinstance(t.value, ast.Name) and t.value.id == "self" for t in n.targets):
                        r = p.resolve_name(f.module, n.value.id)
                        if hasattr(r, "node") and hasattr(r, "qualname") and hasattr(r, "params"):
                            add(r)
    return extra_roots


def extra(ctx, args):
    p = ctx.program
    cg = CallGraph(p)
    roots = [p.functions[q] for q in ctx.functions_analysed if q in p.functions]
    roots += hierarchy_roots(p, roots)
    reach = cg.reachable(roots, include_may=False) if roots else []
    chains = {}
    for f in reach:
        for c, loc in third_party_chains(p, f).items():
            chains.setdefault(c, loc)
    # keep only maximal chains (a.b.c covers a.b)
    res = envres.resolve(chains.keys())
    rule = f"R{ctx.pid[1:]}.env"
    n_ok = 0
    reported = set()
    for c in sorted(chains):
        r = res.get(c)
        if r is None:
            continue
        if r["exists"]:
            n_ok += 1
        else:
            # an attribute of an *object* (ndarray method reached through a module-level alias) is not a module chain
            if c.startswith("numpy.dtype:"):
                ctx.bad(rule, c, f"numpy has no dtype named {c.split(':', 1)[1]!r} in the pinned environment ({r['why']}); reached from this "
                        "property's entry points", chains[c], derived=c)
                continue
            # report the first link of the chain that is missing below an existing parent (`requests.execptions.HTTPError` fails
            # at `requests.execptions`)
            parent = c.rsplit(".", 1)[0]
            pr = envres.resolve([parent]).get(parent)
            while pr is not None and not pr["exists"] and parent.count(".") >= 1:
                c_up, parent = parent, parent.rsplit(".", 1)[0]
                pr = envres.resolve([parent]).get(parent)
                chains.setdefault(c_up, chains[c])
                c = c_up
            if pr is not None and pr["exists"] and c not in reported:
                reported.add(c)
                ctx.bad(rule, f"{c}", f"`{c}` does not exist in the pinned environment ({r['why']}); reached from this property's "
                        "entry points", chains[c], derived=c)
    ctx.ok(rule, "<reachable third-party attributes>", f"{n_ok} attribute chains in {len(reach)} reachable functions exist in /venv")
    ctx.notes.append(f"thorough: environment resolution over {len(reach)} reachable functions, {len(chains)} chains")
    # liveness replay
    if os.environ.get("OSU_VERIF_NO_EVIDENCE") == "1":
        return
    from . import selftest
    variants = selftest.load_variants(ctx.pid)
    if not variants:
        return
    with ThreadPoolExecutor(max_workers=16) as ex:
        results = list(ex.map(lambda v: selftest.run_variant(v, args.root), variants))
    fired = sum(1 for v, r in zip(variants, results) if r["status"] == "ok" and v.get("expect", "fire") == "fire")
    silent = sum(1 for v, r in zip(variants, results) if r["status"] == "ok" and v.get("expect") == "silent")
    skipped = [r["name"] for r in results if r["status"] == "skipped"]
    failed = [r for r in results if r["status"] not in ("ok", "skipped")]
    lrule = f"R{ctx.pid[1:]}.live"
    for r in failed:
        ctx.unsure(lrule, f"selftest:{r['name']}", f"self-test variant did not behave as expected ({r.get('why', '')}): the checker, not the "
                   "repository, needs attention")
    ctx.ok(lrule, "<self-test replay>", f"{fired} breaking variants reported, {silent} behaviour-preserving variants silent, "
           f"{len(skipped)} skipped because their edit no longer applies to this tree")
    ctx.notes.append(f"thorough: self-test replay fired={fired} silent={silent} skipped={skipped}")
    # behaviour-preserving refactorings of this property's code (DESIGN 8e): the check must stay silent on each
    import glob
    import shutil
    import subprocess
    import sys
    import tempfile
    here = os.path.dirname(os.path.dirname(os.path.abspath(__file__)))
    pats = sorted(glob.glob(os.path.join(here, "refactors", f"{ctx.pid}-r*", "patch.diff")))
    if pats and shutil.which("patch"):
        def one(pf):
            tmp = tempfile.mkdtemp(prefix="osuverif-rf-")
            try:
                dst = os.path.join(tmp, "src", "ocean_science_utilities")
                shutil.copytree(os.path.join(args.root, "src", "ocean_science_utilities"), dst, ignore=shutil.ignore_patterns("__pycache__"))
                pr = subprocess.run(["patch", "-s", "-p1", "-i", pf], cwd=tmp, capture_output=True, text=True)
                if pr.returncode != 0:
                    return pf, "skipped", "patch no longer applies"
                env = dict(os.environ)
                env["OSU_VERIF_NO_EVIDENCE"] = "1"
                env.setdefault("OSU_VERIF_TIME_LIMIT", "150")
                r = subprocess.run([sys.executable, "-B", "-m", "osuverif.main", ctx.pid, "--root", tmp, "--tier", "quick"], cwd=here,
                                   capture_output=True, text=True, env=env, timeout=900)
                # a refactoring recorded (meta.json, DESIGN 8e) as one the rules give no verdict on may answer exit 2; a VIOLATION line
                # on any of them, or an unexpected exit 2, is a defect of the checker
                expect = "silent"
                try:
                    import json as _json
                    with open(os.path.join(os.path.dirname(pf), "meta.json")) as fh:
                        expect = _json.load(fh).get("expected", "silent")
                except Exception:
                    pass
                if r.returncode == 0:
                    return pf, "silent", ""
                if r.returncode == 2 and expect == "inconclusive" and "VIOLATION" not in r.stdout:
                    return pf, "no-verdict", ""
                if expect == "false-alarm-recorded":
                    # round 4 of the refactorings (DESIGN 8e): heavy restructurings on which a rule still misreads the code; recorded,
                    # not excused - listed in DESIGN.md as open false alarms of the checker on hypothetical code
                    return pf, "recorded", ""
                return pf, "loud", r.stdout[-400:]
            finally:
                shutil.rmtree(tmp, ignore_errors=True)
        with ThreadPoolExecutor(max_workers=8) as ex:
            rr = list(ex.map(one, pats))
        for pf, st, out in rr:
            if st == "loud":
                ctx.unsure(f"R{ctx.pid[1:]}.live", f"refactor:{os.path.basename(os.path.dirname(pf))}",
                           "the check is not silent on a stored behaviour-preserving refactoring: the checker, not the repository, "
                           "needs attention", derived=out[-200:])
        ctx.ok(f"R{ctx.pid[1:]}.live", "<refactoring replay>",
               f"{sum(1 for _, st, _ in rr if st == 'silent')} stored behaviour-preserving refactorings silent, "
               f"{sum(1 for _, st, _ in rr if st == 'no-verdict')} without a verdict as recorded, "
               f"{sum(1 for _, st, _ in rr if st == 'recorded')} recorded as open false alarms of the checker (DESIGN 8e, round 4), "
               f"{sum(1 for _, st, _ in rr if st == 'skipped')} skipped because their patch no longer applies")

    # seeded breaking changes of this property (DESIGN 8d): each must still be reported (exit 1) when applied to a scratch copy of the
    # tree under analysis; one that has fallen silent means a rule has died
    spats = sorted(glob.glob(os.path.join(here, "seeded", f"{ctx.pid}-*", "patch.diff")))
    if spats and shutil.which("patch"):
        def sone(pf):
            tmp = tempfile.mkdtemp(prefix="osuverif-sd-")
            try:
                dst = os.path.join(tmp, "src", "ocean_science_utilities")
                shutil.copytree(os.path.join(args.root, "src", "ocean_science_utilities"), dst, ignore=shutil.ignore_patterns("__pycache__"))
                pr = subprocess.run(["patch", "-s", "-p1", "-i", pf], cwd=tmp, capture_output=True, text=True)
                if pr.returncode != 0:
                    return pf, "skipped", "patch no longer applies"
                env = dict(os.environ)
                env["OSU_VERIF_NO_EVIDENCE"] = "1"
                r = subprocess.run([sys.executable, "-B", "-m", "osuverif.main", ctx.pid, "--root", tmp, "--tier", "quick"], cwd=here,
                                   capture_output=True, text=True, env=env, timeout=900)
                if r.returncode == 1 and "VIOLATION" in r.stdout:
                    return pf, "reported", ""
                # changes the rules are known not to report (DESIGN 8d, round 5: relations between values no shape of the code shows,
                # or an operator the model does not know) are recorded in their meta.json (`check.exit` 0 or 2) and listed, not failed
                try:
                    import json as _json
                    with open(os.path.join(os.path.dirname(pf), "meta.json")) as fh:
                        rec = (_json.load(fh).get("check") or {}).get("exit")
                except Exception:
                    rec = None
                if rec in (0, 2):
                    return pf, "recorded-unreported", f"exit {r.returncode}"
                return pf, "missed", f"exit {r.returncode}"
            finally:
                shutil.rmtree(tmp, ignore_errors=True)
        with ThreadPoolExecutor(max_workers=8) as ex:
            sr = list(ex.map(sone, spats))
        for pf, st, out in sr:
            if st == "missed":
                ctx.unsure(f"R{ctx.pid[1:]}.live", f"seeded:{os.path.basename(os.path.dirname(pf))}",
                           "a stored breaking change of this property is no longer reported: the checker, not the repository, "
                           "needs attention", derived=out)
        ctx.ok(f"R{ctx.pid[1:]}.live", "<seeded replay>",
               f"{sum(1 for _, st, _ in sr if st == 'reported')} stored breaking changes reported, "
               f"{sum(1 for _, st, _ in sr if st == 'recorded-unreported')} recorded as not reported by these rules (DESIGN 8d, round 5), "
               f"{sum(1 for _, st, _ in sr if st == 'skipped')} skipped because their patch no longer applies to this tree")
