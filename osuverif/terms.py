"""Term language of engine E1 (TermFlow): sympy expressions with opaque operators.

Numbers are exact (floats become decimal rationals, pi stays symbolic) so that algebraic
normalisation by sympy (flattening, commutativity, constant folding) decides equality of
formulas irrespective of spelling.  Everything the analysis does not understand becomes an
``Unknown`` symbol; a verdict that depends on an unknown is INCONCLUSIVE, never VIOLATED.
"""
from __future__ import annotations

import itertools
from typing import Any, Iterable, List, Optional

import sympy as sp
from sympy import Function, Symbol, Integer, Rational, S

# ----------------------------------------------------------------------------- atoms
_unknown_counter = itertools.count()
UNKNOWN_PREFIX = "?"


def Unknown(desc: str) -> sp.Symbol:
    return Symbol(f"{UNKNOWN_PREFIX}{next(_unknown_counter)}:{desc}")


def is_unknown_symbol(s) -> bool:
    return isinstance(s, sp.Symbol) and s.name.startswith(UNKNOWN_PREFIX)


def unknowns_in(t) -> List[sp.Symbol]:
    if not isinstance(t, sp.Basic):
        return []
    return sorted([s for s in t.free_symbols if is_unknown_symbol(s)], key=lambda s: s.name)


def has_unknown(t) -> bool:
    return bool(unknowns_in(t))


def Str(s: str) -> sp.Symbol:
    return Symbol('"' + s + '"')


def is_str_symbol(t) -> bool:
    return isinstance(t, sp.Symbol) and t.name.startswith('"') and t.name.endswith('"')


def str_of(t) -> Optional[str]:
    if isinstance(t, str):
        return t
    if is_str_symbol(t):
        return t.name[1:-1]
    return None


NONE_T = Symbol("None")
NAN_T = Symbol("NaN")
ELLIPSIS_T = Symbol("Ellipsis")
TRUE_T = Symbol("True")
FALSE_T = Symbol("False")


def P(name: str, **assumptions) -> sp.Symbol:
    """A parameter / free input symbol."""
    return Symbol(name, **assumptions)


def num(x) -> sp.Basic:
    if isinstance(x, bool):
        return TRUE_T if x else FALSE_T
    if isinstance(x, int):
        return Integer(x)
    if isinstance(x, float):
        if x != x:
            return NAN_T
        if x in (float("inf"), float("-inf")):
            return S.Infinity if x > 0 else S.NegativeInfinity
        return Rational(repr(x))
    if isinstance(x, complex):
        return num(x.real) + sp.I * num(x.imag)
    raise TypeError(x)


# ----------------------------------------------------------------------------- operators
_FUNCS = {}


def F_(name: str):
    """Opaque operator class.  Declared commutative (scalar-valued) so that products containing operators
    whose arguments are tuples still normalise independently of spelling order."""
    f = _FUNCS.get(name)
    if f is None:
        f = Function(name, commutative=True)
        _FUNCS[name] = f
    return f


def op(name: str, *args) -> sp.Basic:
    return F_(name)(*[to_term(a) for a in args])


def _is_full_slice(t) -> bool:
    return fname(t) == "slc" and len(t.args) == 3 and all(str(a) == "None" for a in t.args)


def strip_trailing_slices(t):
    """x[k, :] is x[k]: trailing whole-axis slices select everything.  A comparison-time normal form (both sides), not a
    construction-time one: readers of row expressions need to see which axes an operand spans."""
    def fn(n):
        if fname(n) == "item" and len(n.args) == 2 and isinstance(n.args[1], sp.Tuple) and len(n.args[1].args) >= 2 \
                and not any(str(a) == "None" for a in n.args[1].args):
            ix = list(n.args[1].args)
            while len(ix) > 1 and _is_full_slice(ix[-1]):
                ix.pop()
            if len(ix) != len(n.args[1].args):
                return F_("item")(n.args[0], ix[0] if len(ix) == 1 else sp.Tuple(*ix))
        return None
    return rewrite(t, fn)


def to_term(v) -> sp.Basic:
    """Embed a python-level analysis value into the term language (for use as an argument)."""
    if isinstance(v, sp.Basic):
        return v
    if v is None:
        return NONE_T
    if isinstance(v, str):
        return Str(v)
    if isinstance(v, (bool, int, float, complex)):
        return num(v)
    if isinstance(v, (tuple, list)):
        return sp.Tuple(*[to_term(x) for x in v])
    if isinstance(v, dict):
        items = []
        for k, x in v.items():
            items.append(sp.Tuple(to_term(k), to_term(x)))
        return op("dict", *items)
    if isinstance(v, slice):
        return op("slc", v.start, v.stop, v.step)
    tt = getattr(v, "as_term", None)
    if tt is not None:
        return tt()
    return Unknown(f"value:{type(v).__name__}")


def _sorted_args(args: Iterable[sp.Basic]) -> List[sp.Basic]:
    args = list(args)
    try:
        return sorted(args, key=sp.default_sort_key)
    except TypeError:       # NaN inside a sort key
        return sorted(args, key=lambda a: sp.srepr(a))


def AND(*args) -> sp.Basic:
    flat: List[sp.Basic] = []
    for a in args:
        a = to_term(a)
        if a == TRUE_T:
            continue
        if fname(a) == "and_":
            flat.extend(a.args)
        else:
            flat.append(a)
    if any(a == FALSE_T for a in flat):
        return FALSE_T
    uniq = []
    for a in flat:
        if a not in uniq:
            uniq.append(a)
    if not uniq:
        return TRUE_T
    if len(uniq) == 1:
        return uniq[0]
    # not isnan(x) and not isinf(x) is isfinite(x)
    for x in list(uniq):
        if fname(x) == "notnull":
            twin = F_("not_")(F_("isinf")(x.args[0]))
            if twin in uniq:
                uniq = [u for u in uniq if u not in (x, twin)] + [F_("isfinite")(x.args[0])]
                return AND(*uniq)
    return F_("and_")(*_sorted_args(uniq))


def OR(*args) -> sp.Basic:
    flat: List[sp.Basic] = []
    for a in args:
        a = to_term(a)
        if a == FALSE_T:
            continue
        if fname(a) == "or_":
            flat.extend(a.args)
        else:
            flat.append(a)
    if any(a == TRUE_T for a in flat):
        return TRUE_T
    uniq = []
    for a in flat:
        if a not in uniq:
            uniq.append(a)
    if not uniq:
        return FALSE_T
    if len(uniq) == 1:
        return uniq[0]
    return F_("or_")(*_sorted_args(uniq))


_NEG = {"lt": "ge", "ge": "lt", "gt": "le", "le": "gt", "eq": "ne", "ne": "eq"}


def NOT(a) -> sp.Basic:
    a = to_term(a)
    if a == TRUE_T:
        return FALSE_T
    if a == FALSE_T:
        return TRUE_T
    if isinstance(a, sp.Basic) and isinstance(a.func, sp.core.function.UndefinedFunction):
        n = a.func.__name__
        if n == "not_":
            return a.args[0]
        if n in _NEG:
            return CMP(_NEG[n], a.args[0], a.args[1])
        if n == "isnull":
            return op("notnull", a.args[0])
        if n == "notnull":
            return op("isnull", a.args[0])
        if n == "or_" and len(a.args) == 2:
            # not (isnan(x) or isinf(x)) is isfinite(x)
            k = {fname(x): x.args for x in a.args}
            if set(k) == {"isnull", "isinf"} and k["isnull"] == k["isinf"]:
                return op("isfinite", k["isnull"][0])
    return op("not_", a)


def CMP(kind: str, a, b) -> sp.Basic:
    """Canonical comparisons: only lt / ge / eq / ne survive (gt, le are flipped)."""
    a = to_term(a)
    b = to_term(b)
    # count_nonzero(m) == m.size says that every element of m holds: all(m)
    if kind in ("eq", "ne"):
        for x, y in ((a, b), (b, a)):
            if fname(x) in ("count_nonzero", "ext_numpy_count_nonzero") and len(x.args) == 1 and fname(y) in ("size", "len") \
                    and len(y.args) == 1 and y.args[0] == x.args[0]:
                r = op("all", x.args[0], NONE_T)
                return r if kind == "eq" else NOT(r)
    if kind == "gt":
        kind, a, b = "lt", b, a
    elif kind == "le":
        kind, a, b = "ge", b, a
    if kind in ("eq", "ne"):
        a, b = _sorted_args([a, b])
    return F_(kind)(a, b)


def ITE(c, a, b) -> sp.Basic:
    c = to_term(c)
    if c == TRUE_T:
        return to_term(a)
    if c == FALSE_T:
        return to_term(b)
    a = to_term(a)
    b = to_term(b)
    if a == b:
        return a
    # one canonical orientation, so that `if c: A else: B` and `if not c: B else: A` are the same term
    fc = fname(c)
    if fc == "not_":
        return ITE(c.args[0], b, a)
    if fc == "ne":
        return ITE(F_("eq")(*c.args), b, a)
    if fc == "ge":
        return ITE(F_("lt")(*c.args), b, a)
    # inside the arm where c holds, c is true (a value selected under the same test earlier collapses to its arm)
    try:
        if a.has(c):
            a = assume(a, {c: True})
        if b.has(c):
            b = assume(b, {c: False})
        if a == b:
            return a
    except Exception:
        pass
    return F_("ite")(c, a, b)


def fname(t) -> Optional[str]:
    if isinstance(t, sp.Basic) and isinstance(t.func, sp.core.function.UndefinedFunction):
        return t.func.__name__
    return None


def is_op(t, name: str) -> bool:
    return fname(t) == name


# ----------------------------------------------------------------------------- traversal
def subterms(t: sp.Basic):
    return sp.preorder_traversal(t)


def find_ops(t: sp.Basic, name: str) -> List[sp.Basic]:
    out = []
    if not isinstance(t, sp.Basic):
        return out
    for s in sp.preorder_traversal(t):
        if fname(s) == name and s not in out:
            out.append(s)
    return out


def rewrite(t: sp.Basic, fn) -> sp.Basic:
    """Bottom-up rewrite: fn(node_with_rewritten_args) -> replacement or None."""
    if not isinstance(t, sp.Basic):
        return t
    if not t.args:
        r = fn(t)
        return t if r is None else r
    new_args = [rewrite(a, fn) for a in t.args]
    try:
        nt = t.func(*new_args) if any(x is not y for x, y in zip(new_args, t.args)) else t
    except Exception:
        nt = t
    r = fn(nt)
    return nt if r is None else r


# ----------------------------------------------------------------------------- equivalence
class Verdict:
    EQUAL = "equal"
    DIFFERENT = "different"
    UNKNOWN = "unknown"


def equivalent(a, b, extra_rules=None, _case_split=True) -> str:
    """Decide a == b as terms.  DIFFERENT only when neither side involves unknowns."""
    a = to_term(a)
    b = to_term(b)
    if extra_rules:
        a = rewrite(a, extra_rules)
        b = rewrite(b, extra_rules)
    if a == b:
        return Verdict.EQUAL
    a, b = canon_minmax(a), canon_minmax(b)
    if a == b:
        return Verdict.EQUAL
    if a.has(F_("floordiv")) or b.has(F_("floordiv")):
        a, b = canon_floordiv(a), canon_floordiv(b)
        if a == b or sp.expand(a - b) == 0:
            return Verdict.EQUAL
    try:
        a2, b2 = canon_filled_arrays(a), canon_filled_arrays(b)
        if a2 != a or b2 != b:
            a, b = a2, b2
            if a == b:
                return Verdict.EQUAL
    except Exception:
        pass
    try:
        d = sp.expand(a - b)
        if d == 0:
            return Verdict.EQUAL
        # exp(i p) written as cos p + i sin p
        if d.has(sp.I) and d.has(sp.exp):
            def euler(e):
                q = sp.expand(e.args[0] / sp.I)
                return sp.cos(q) + sp.I * sp.sin(q)
            d_trig = sp.expand(d.replace(lambda e: isinstance(e, sp.exp) and e.args[0].has(sp.I) and not sp.expand(e.args[0] / sp.I).has(sp.I), euler))
            if d_trig == 0:
                return Verdict.EQUAL
        # opaque sub-terms are abstracted to symbols so that the residual algebra stays small
        small = abstract_opaque(d)
        if sp.count_ops(small) <= 400 and not _numerically_nonzero(small):
            if sp.simplify(small) == 0:
                return Verdict.EQUAL
            if sp.expand(sp.expand_trig(small)) == 0:
                return Verdict.EQUAL
            if sp.simplify(sp.together(small)) == 0:
                return Verdict.EQUAL
    except Exception:
        pass
    # selections under the same few tests: compare case by case (ite(C, x, y) + ite(C, u, v) is ite(C, x + u, y + v))
    if _case_split:
        conds = []
        for t_ in (a, b):
            for n in sp.preorder_traversal(t_):
                if fname(n) == "ite" and n.args[0] not in conds:
                    conds.append(n.args[0])
        if 1 <= len(conds) <= 3:
            import itertools
            all_equal = True
            for vals in itertools.product((True, False), repeat=len(conds)):
                facts = dict(zip(conds, vals))
                try:
                    if equivalent(assume(a, facts), assume(b, facts), _case_split=False) != Verdict.EQUAL:
                        all_equal = False
                        break
                except Exception:
                    all_equal = False
                    break
            if all_equal:
                return Verdict.EQUAL
    # the same opaque operator applied to pairwise equivalent operands
    if _case_split and fname(a) is not None and fname(a) == fname(b) and len(a.args) == len(b.args) and fname(a) not in ("ite",):
        try:
            if all(x == y or equivalent(x, y, _case_split=False) == Verdict.EQUAL for x, y in zip(a.args, b.args)):
                return Verdict.EQUAL
        except Exception:
            pass
    if has_unknown(a) or has_unknown(b):
        return Verdict.UNKNOWN
    # array-structure operators (slices, stores, rolls, loop summaries): compare the arrays the two terms denote
    try:
        from .arrayeval import same_array
        if _has_array_structure(a) or _has_array_structure(b):
            r = same_array(a, b)
            if r is True:
                return Verdict.EQUAL
    except Exception:
        pass
    return Verdict.DIFFERENT


def distribute_item(t, is_array=lambda a: not a.is_number):
    """(a * b)[m] -> a[m] * b[m] (and the same for sums and integer powers) for element-wise arithmetic of arrays of one
    shape; numbers stay outside.  `is_array` says which operands are arrays."""
    def fn(n):
        if fname(n) == "item" and isinstance(n.args[0], (sp.Mul, sp.Add, sp.Pow)):
            a, ix = n.args
            if isinstance(a, sp.Pow):
                if a.args[1].is_number and is_array(a.args[0]):
                    return distribute_item(op("item", a.args[0], ix), is_array) ** a.args[1]
                return None
            if all(x.is_number or is_array(x) for x in a.args):
                return a.func(*[x if x.is_number else distribute_item(op("item", x, ix), is_array) for x in a.args])
        return None
    return rewrite(t, fn)


def item_of_slice(t, nonneg):
    """x[a:b][k] -> x[k + a] for a scalar index k that `nonneg` confirms to be >= 0 and a start a >= 0 (or none), unit step.
    The stop only decides whether the access raises; where it does not, both read the same element."""
    def fn(n):
        if fname(n) != "item" or len(n.args) != 2 or fname(n.args[0]) != "item" or len(n.args[0].args) != 2:
            return None
        inner, k = n.args
        x, s = inner.args
        if fname(s) != "slc" or len(s.args) != 3 or fname(k) in ("slc", "tuple") or isinstance(k, sp.Tuple):
            return None
        a, _, st = s.args
        if str(st) not in ("None", "1"):
            return None
        a = sp.Integer(0) if str(a) == "None" else a
        if not (getattr(a, "is_Integer", False) and a >= 0) or not nonneg(k):
            return None
        return op("item", x, k + a)
    return rewrite(t, fn)


def arange_element(t, nonneg):
    """arange(a, b, s)[k] -> a + s*k for a scalar index k that `nonneg` confirms to be >= 0 (the stop only decides whether the
    access raises)"""
    def fn(n):
        if fname(n) != "item" or len(n.args) != 2 or fname(n.args[0]) != "arange" or not nonneg(n.args[1]):
            return None
        a = n.args[0].args
        start, step = (sp.Integer(0), sp.Integer(1)) if len(a) == 1 else (a[0], a[2] if len(a) > 2 else sp.Integer(1))
        if str(start) == "None" or str(step) == "None":
            return None
        return start + step * n.args[1]
    return rewrite(t, fn)


def canon_floordiv(t):
    """Floor-division identities with positive integer divisors a, b (x any real, q integer valued):
    (x // a) // b == x // (a*b);   (x + m*a*q) // a == x // a + m*q for an integer m."""
    def int_valued(q):
        if q.is_Integer:
            return True
        if fname(q) == "floordiv":
            return True
        if isinstance(q, sp.Mul):
            return all(int_valued(a) for a in q.args)
        if isinstance(q, sp.Add):
            return all(int_valued(a) for a in q.args)
        return False

    def fn(n):
        if fname(n) != "floordiv" or len(n.args) != 2:
            return None
        x, a = n.args
        if not (getattr(a, "is_Integer", False) and a > 0):
            return None
        if fname(x) == "floordiv" and getattr(x.args[1], "is_Integer", False) and x.args[1] > 0:
            return fn(op("floordiv", x.args[0], x.args[1] * a)) or op("floordiv", x.args[0], x.args[1] * a)
        xe = sp.expand(x)
        if isinstance(xe, sp.Add):
            keep, out = [], []
            for term in xe.args:
                c, rest = term.as_coeff_Mul()
                if c.is_Integer and c % a == 0 and rest != 1 and int_valued(rest):
                    out.append((c // a) * rest)
                elif term.is_Integer and term % a == 0:
                    out.append(term // a)
                else:
                    keep.append(term)
            if out:
                inner = sp.Add(*keep)
                return (fn(op("floordiv", inner, a)) or op("floordiv", inner, a)) + sp.Add(*out)
        return None
    try:
        return rewrite(t, fn)
    except Exception:
        return t


def canon_minmax(t):
    """np.min((a, b)) / np.max((a, b)) over a literal pair is the binary minimum / maximum (one spelling for both)."""
    def fn(n):
        f = fname(n)
        if f in ("min", "max") and len(n.args) >= 1 and isinstance(n.args[0], sp.Tuple) and len(n.args[0].args) == 2 \
                and all(x == NONE_T for x in n.args[1:]):
            return op("minimum" if f == "min" else "maximum", *sorted(n.args[0].args, key=sp.default_sort_key))
        return None
    try:
        return rewrite(t, fn)
    except Exception:
        return t


def _numerically_nonzero(t) -> bool:
    """Identity testing before the (potentially very slow) symbolic simplification: a scalar algebraic residual that
    evaluates away from zero at a random positive rational point is not the zero function.  True only on a definite
    numeric refutation at two independent points; anything that does not evaluate to a number answers False."""
    import random
    syms = sorted(t.free_symbols, key=str)
    if not syms or len(syms) > 40:
        return False
    rnd = random.Random(20240917)
    hits = 0
    for _ in range(3):
        sub = {s: sp.Rational(rnd.randint(1, 997), rnd.randint(7, 211)) for s in syms}
        try:
            v = complex(t.xreplace(sub).evalf(30))
        except Exception:
            return False
        if v != v or abs(v) in (float("inf"),):
            continue
        if abs(v) > 1e-12:
            hits += 1
        else:
            return False
    return hits >= 2


def _has_array_structure(t) -> bool:
    for n in sp.preorder_traversal(t):
        if fname(n) in ("store", "roll", "diff", "slc", "tabulate", "loopsum", "expand_dims", "arange", "cumsum", "concatenate"):
            return True
    return False


def abstract_opaque(t: sp.Basic) -> sp.Basic:
    """Replace maximal opaque-operator sub-terms by fresh symbols (equal sub-terms -> equal symbols)."""
    table = {}

    def rec(n):
        if isinstance(n, sp.Basic) and isinstance(n.func, sp.core.function.UndefinedFunction):
            if n not in table:
                table[n] = sp.Symbol(f"@o{len(table)}")
            return table[n]
        if not isinstance(n, sp.Basic) or not n.args:
            return n
        return n.func(*[rec(a) for a in n.args])

    return rec(t)


def show(t, limit: int = 400) -> str:
    s = sp.sstr(t) if isinstance(t, sp.Basic) else repr(t)
    if len(s) > limit:
        s = s[: limit - 3] + "..."
    return s


def resimplify(t: sp.Basic) -> sp.Basic:
    """Rebuild a term bottom-up through the smart constructors (after substituting truth values)."""
    def fn(n):
        f = fname(n)
        if f == "ite":
            return ITE(n.args[0], n.args[1], n.args[2])
        if f == "and_":
            return AND(*n.args)
        if f == "or_":
            return OR(*n.args)
        if f == "not_":
            return NOT(n.args[0])
        return None
    return rewrite(t, fn)


def assume(t: sp.Basic, facts: dict) -> sp.Basic:
    """Substitute boolean sub-terms by truth values and simplify."""
    m = {}
    for k, v in facts.items():
        k = to_term(k)
        m[k] = TRUE_T if v else FALSE_T
        comp = {"eq": "ne", "ne": "eq", "lt": "ge", "ge": "lt"}.get(fname(k))
        if comp is not None:
            m[F_(comp)(*k.args)] = FALSE_T if v else TRUE_T
    return resimplify(to_term(t).xreplace(m))


def read_elem(arr: sp.Basic, idx) -> sp.Basic:
    """Element ``idx`` of an array term built from store/tabulate, when decidable; else item(arr, idx)."""
    idx = to_term(idx)
    f = fname(arr)
    if f == "store":
        base, i, v = arr.args
        if i == idx:
            return v
        if fname(i) == "slc" and i.args == (NONE_T, NONE_T, NONE_T):
            return v
        if i.is_number and idx.is_number and i != idx:
            return read_elem(base, idx)
        return op("item", arr, idx)
    if f == "tabulate":
        base, pat, val, lv = arr.args[:4]
        return op("item", arr, idx)
    return op("item", arr, idx)


def strip_never(t: sp.Basic) -> sp.Basic:
    """Value on the returning paths: ite(c, v, never()) -> v (the other paths raise)."""
    def fn(n):
        if fname(n) == "ite":
            if fname(n.args[2]) == "never":
                return n.args[1]
            if fname(n.args[1]) == "never":
                return n.args[2]
        return None
    return rewrite(to_term(t), fn)


def canon_filled_arrays(t: sp.Basic) -> sp.Basic:
    """An array allocated empty and filled by slice/index stores, when it denotes a cyclic forward or backward difference of one
    input vector, is rewritten to the canonical roll form (decided by the array identity test, not by the spelling)."""
    from .arrayeval import same_array, _atoms

    def fn(n):
        if fname(n) != "store":
            return None
        base = n
        while fname(base) == "store":
            base = base.args[0]
        if fname(base) not in ("empty", "zeros", "full"):
            return None
        ats = []
        _atoms(n, ats)
        if len(ats) != 1:
            return None
        x = ats[0]
        for cand in (op("roll", x, sp.Integer(-1)) - x, x - op("roll", x, sp.Integer(1))):
            if same_array(n, cand) is True:
                return cand
        return None
    return rewrite(to_term(t), fn)
