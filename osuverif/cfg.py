"""Statement-level control-flow graphs on networkx with dominators, post-dominators, reaching
definitions and definite-assignment (engine E5)."""
from __future__ import annotations

import ast
from typing import Dict, List, Optional, Set, Tuple

import networkx as nx

ENTRY = "ENTRY"
EXIT = "EXIT"      # normal return
RAISE = "RAISE"    # exceptional exit


class CFG:
    def __init__(self, func_node: ast.AST, exceptions: bool = True):
        self.node = func_node
        self.g = nx.DiGraph()
        self.g.add_node(ENTRY)
        self.g.add_node(EXIT)
        self.g.add_node(RAISE)
        self.stmts: List[ast.stmt] = []
        self.exceptions = exceptions
        frontier = self._block(func_node.body, [ENTRY], loop=None, handlers=[])
        for n in frontier:
            self.g.add_edge(n, EXIT)

    # nodes are the ast statement objects themselves (hashable by identity)
    def _add(self, st):
        self.g.add_node(st)
        self.stmts.append(st)

    def _link(self, preds, node):
        for p in preds:
            self.g.add_edge(p, node)

    def _block(self, stmts, preds, loop, handlers):
        cur = list(preds)
        for st in stmts:
            if not cur:
                break
            cur = self._stmt(st, cur, loop, handlers)
        return cur

    def _may_raise_to(self, st, handlers):
        if not self.exceptions:
            return
        if handlers:
            for h in handlers[-1]:
                self.g.add_edge(st, h)
        else:
            pass

    def _stmt(self, st, preds, loop, handlers):
        self._add(st)
        self._link(preds, st)
        if isinstance(st, ast.Return):
            self.g.add_edge(st, EXIT)
            return []
        if isinstance(st, ast.Raise):
            if handlers:
                for h in handlers[-1]:
                    self.g.add_edge(st, h)
            else:
                self.g.add_edge(st, RAISE)
            return []
        if isinstance(st, ast.Break):
            loop["breaks"].append(st)
            return []
        if isinstance(st, ast.Continue):
            self.g.add_edge(st, loop["head"])
            return []
        if isinstance(st, ast.If):
            a = self._block(st.body, [st], loop, handlers)
            b = self._block(st.orelse, [st], loop, handlers) if st.orelse else [st]
            return a + b
        if isinstance(st, (ast.For, ast.AsyncFor, ast.While)):
            lp = {"head": st, "breaks": []}
            body_end = self._block(st.body, [st], lp, handlers)
            for n in body_end:
                self.g.add_edge(n, st)
            out = self._block(st.orelse, [st], loop, handlers) if st.orelse else [st]
            return out + lp["breaks"]
        if isinstance(st, (ast.With, ast.AsyncWith)):
            return self._block(st.body, [st], loop, handlers)
        if isinstance(st, ast.Try):
            hnodes = []
            for h in st.handlers:
                self.g.add_node(h)
                self.stmts.append(h)
                hnodes.append(h)
            body_end = self._block(st.body, [st], loop, handlers + [hnodes])
            if self.exceptions:
                # any statement of the protected body may transfer to a handler
                for sub in st.body:
                    for n in ast.walk(sub):
                        if isinstance(n, ast.stmt) and n in self.g:
                            for h in hnodes:
                                self.g.add_edge(n, h)
                for h in hnodes:
                    self.g.add_edge(st, h)
            else_end = self._block(st.orelse, body_end, loop, handlers) if st.orelse else body_end
            ends = list(else_end)
            for h in st.handlers:
                ends += self._block(h.body, [h], loop, handlers)
            if st.finalbody:
                ends = self._block(st.finalbody, ends, loop, handlers)
            return ends
        if isinstance(st, (ast.FunctionDef, ast.AsyncFunctionDef, ast.ClassDef)):
            return [st]
        return [st]

    # ---------------------------------------------------------------- queries
    def dominators(self) -> Dict:
        return nx.immediate_dominators(self.g, ENTRY)

    def dominates(self, a, b) -> bool:
        """a dominates b (every path ENTRY -> b passes a)"""
        idom = self.dominators()
        n = b
        seen = set()
        while n in idom and n not in seen:
            if n is a:
                return True
            seen.add(n)
            if idom[n] is n:
                break
            n = idom[n]
        return n is a

    def postdominates(self, a, b, exit_node=EXIT) -> bool:
        """a post-dominates b with respect to normal exits"""
        rg = self.g.reverse(copy=True)
        if exit_node not in rg or b not in nx.descendants(rg, exit_node) | {exit_node}:
            return False
        idom = nx.immediate_dominators(rg, exit_node)
        n = b
        seen = set()
        while n in idom and n not in seen:
            if n is a:
                return True
            seen.add(n)
            if idom[n] is n:
                break
            n = idom[n]
        return n is a

    def reaches(self, a, b) -> bool:
        return b in nx.descendants(self.g, a)

    def path_avoiding(self, src, dst, avoid: Set) -> bool:
        """is there a path src -> dst that avoids all nodes in `avoid`?"""
        g = self.g.subgraph([n for n in self.g.nodes if n not in avoid or n is src or n is dst])
        return src in g and dst in g and (src is dst or nx.has_path(g, src, dst))

    def stmt_of(self, node: ast.AST) -> Optional[ast.stmt]:
        """innermost CFG statement containing node (compound statements own only their header expressions)"""
        best = None
        for st in self.stmts:
            if isinstance(st, ast.ExceptHandler):
                continue
            hdr = header_nodes(st)
            if any(node is n for n in hdr):
                best = st
        return best


def header_nodes(st: ast.AST):
    """AST nodes evaluated by the statement itself (not by nested statements)."""
    if isinstance(st, (ast.If, ast.While)):
        return list(ast.walk(st.test))
    if isinstance(st, (ast.For, ast.AsyncFor)):
        return list(ast.walk(st.iter)) + list(ast.walk(st.target))
    if isinstance(st, (ast.With, ast.AsyncWith)):
        out = []
        for i in st.items:
            out += list(ast.walk(i.context_expr))
            if i.optional_vars is not None:
                out += list(ast.walk(i.optional_vars))
        return out
    if isinstance(st, ast.Try):
        return []
    if isinstance(st, (ast.FunctionDef, ast.AsyncFunctionDef, ast.ClassDef)):
        return []
    return list(ast.walk(st))


# ---------------------------------------------------------------------------- dataflow
def stmt_defs(st) -> Set[str]:
    out: Set[str] = set()

    def tgt(t):
        if isinstance(t, ast.Name):
            out.add(t.id)
        elif isinstance(t, (ast.Tuple, ast.List)):
            for x in t.elts:
                tgt(x)
        elif isinstance(t, ast.Starred):
            tgt(t.value)

    if isinstance(st, ast.Assign):
        for t in st.targets:
            tgt(t)
    elif isinstance(st, (ast.AugAssign, ast.AnnAssign)):
        if not (isinstance(st, ast.AnnAssign) and st.value is None):
            tgt(st.target)
    elif isinstance(st, (ast.For, ast.AsyncFor)):
        tgt(st.target)
    elif isinstance(st, (ast.With, ast.AsyncWith)):
        for i in st.items:
            if i.optional_vars is not None:
                tgt(i.optional_vars)
    elif isinstance(st, (ast.FunctionDef, ast.AsyncFunctionDef, ast.ClassDef)):
        out.add(st.name)
    elif isinstance(st, ast.ExceptHandler):
        if st.name:
            out.add(st.name)
    elif isinstance(st, (ast.Import, ast.ImportFrom)):
        for a in st.names:
            out.add((a.asname or a.name).split(".")[0])
    for n in header_nodes(st) if not isinstance(st, ast.ExceptHandler) else []:
        if isinstance(n, ast.NamedExpr) and isinstance(n.target, ast.Name):
            out.add(n.target.id)
    return out


def stmt_uses(st) -> List[ast.Name]:
    if isinstance(st, ast.ExceptHandler):
        return []
    return [n for n in header_nodes(st) if isinstance(n, ast.Name) and isinstance(n.ctx, ast.Load)]


def definitely_assigned(cfg: CFG, params: Set[str]) -> Dict[ast.AST, Set[str]]:
    """Forward must-analysis: names certainly bound on entry to each statement."""
    nodes = list(cfg.g.nodes)
    universe = set(params)
    for st in cfg.stmts:
        universe |= stmt_defs(st)
    IN = {n: set(universe) for n in nodes}
    IN[ENTRY] = set(params)
    OUT = {n: set(universe) for n in nodes}
    OUT[ENTRY] = set(params)
    changed = True
    while changed:
        changed = False
        for n in nodes:
            if n == ENTRY:
                continue
            preds = list(cfg.g.predecessors(n))
            if preds:
                new_in = set.intersection(*[OUT[p] for p in preds])
            else:
                new_in = set()
            defs = stmt_defs(n) if isinstance(n, ast.AST) else set()
            new_out = new_in | defs
            if new_in != IN[n] or new_out != OUT[n]:
                IN[n], OUT[n] = new_in, new_out
                changed = True
    return IN


def possibly_unbound_uses(func_node, params: Set[str], global_names: Set[str]) -> List[Tuple[ast.Name, ast.stmt]]:
    """Uses of local names that are not bound on some path (exception edges included)."""
    cfg = CFG(func_node)
    IN = definitely_assigned(cfg, params)
    local_names = set()
    for st in cfg.stmts:
        local_names |= stmt_defs(st)
    out = []
    reachable = nx.descendants(cfg.g, ENTRY)
    for st in cfg.stmts:
        if st not in reachable:
            continue
        for u in stmt_uses(st):
            if u.id in local_names and u.id not in params and u.id not in IN[st]:
                # comprehension-local names are not function locals
                out.append((u, st))
    return out
