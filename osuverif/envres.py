"""E6c -- environment resolution: does a third-party attribute chain exist in the pinned /venv?

Link-time information about the installed libraries, obtained by a helper process that imports
only the third-party packages (never the repository).
"""
from __future__ import annotations

import json
import os
import subprocess
from typing import Dict, Iterable

VENV_PY = os.environ.get("OSU_VERIF_VENV_PY", "/venv/bin/python")

_HELPER = r"""
import importlib, json, sys
chains = json.loads(sys.stdin.read())
out = {}
for ch in chains:
    if ch.startswith("numpy.dtype:"):
        import numpy
        try:
            numpy.dtype(ch.split(":", 1)[1])
            out[ch] = {"exists": True, "why": ""}
        except Exception as e:
            out[ch] = {"exists": False, "why": type(e).__name__ + ": " + str(e)}
        continue
    parts = ch.split(".")
    obj = None
    ok = False
    err = ""
    # longest importable module prefix
    for i in range(len(parts), 0, -1):
        try:
            obj = importlib.import_module(".".join(parts[:i]))
            rest = parts[i:]
            break
        except Exception as e:
            err = repr(e)
            obj = None
    if obj is None:
        out[ch] = {"exists": False, "why": "module not importable: " + err}
        continue
    try:
        for r in rest:
            obj = getattr(obj, r)
        ok = True
    except Exception as e:
        err = type(e).__name__ + ": " + str(e)
    out[ch] = {"exists": ok, "why": err}
print(json.dumps(out))
"""

_cache: Dict[str, dict] = {}
ROOTS = ("numpy", "xarray", "scipy", "pandas", "numba", "requests")


def resolve(chains: Iterable[str]) -> Dict[str, dict]:
    want = sorted({c for c in chains if c.split(".")[0] in ROOTS and c not in _cache})
    if want:
        env = dict(os.environ)
        env.pop("PYTHONPATH", None)
        p = subprocess.run([VENV_PY, "-c", _HELPER], input=json.dumps(want), capture_output=True, text=True,
                           timeout=1500, env=env, cwd="/")
        if p.returncode != 0:
            raise RuntimeError(f"environment helper failed: {p.stderr[-400:]}")
        _cache.update(json.loads(p.stdout.strip().splitlines()[-1]))
    return {c: _cache[c] for c in chains if c in _cache}


def check_ext_used(ctx, interp, rule: str, construct_prefix: str):
    """One obligation per third-party attribute chain consulted on the analysed paths."""
    used = {c: loc for c, loc in interp.ext_used.items() if c.split(".")[0] in ROOTS and "." in c}
    res = resolve(used.keys())
    ctx.trust("attribute chains resolved against the libraries installed in /venv (numpy/xarray/scipy/pandas/numba)")
    for c in sorted(used):
        r = res.get(c)
        if r is None:
            continue
        if r["exists"]:
            ctx.ok(rule, f"{construct_prefix}:{c}", "attribute chain exists in /venv", used[c])
        else:
            ctx.bad(rule, f"{construct_prefix}:{c}",
                    f"`{c}` does not exist in the pinned environment ({r['why']}); every call on this path raises",
                    used[c], derived=c, required="an attribute that exists in the installed library")
