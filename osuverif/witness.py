"""Counter-model search over extracted terms (part of E2).

When the sign analysis cannot exclude a forbidden sign, the obligation is undetermined.  To turn "cannot exclude" into a
definite report, look for an assignment of the term's *inputs* under which the term itself takes the forbidden sign: TermFlow
terms are expressions over the analysed function's inputs with all local definitions inlined, so the atoms of a term
(symbols, elements of input arrays, results of opaque library calls) are independent inputs, constrained only by the
assumption table.  The search evaluates the **term** (never repository code) at a fixed pseudo-random sequence of rational
sample points, rejects samples that break an assumption, and resolves `ite`/comparisons under the sample.  A hit is a concrete
witness (printed with the report); no hit leaves the obligation undetermined.
"""
from __future__ import annotations

import math
import random
from typing import Dict, List, Optional, Tuple

import sympy as sp

from . import terms as T
from .terms import fname
from .signs import NEG, ZERO, POS

GENERIC = [-3.0, -0.7, -0.2, 0.0, 0.15, 0.6, 1.0, 2.5, 7.0]
POSITIVE = [0.05, 0.15, 0.6, 1.0, 2.5, 7.0]
STRUCT = {"ite", "where", "lt", "ge", "gt", "le", "eq", "ne", "and_", "or_", "not_", "maximum", "minimum", "max", "min",
          "loopsum", "loopsum_brk", "never", "isnull", "isnan", "pymod"}


class Invalid(Exception):
    pass


def _in(v: float, s: int) -> bool:
    if v > 0:
        return bool(s & POS)
    if v < 0:
        return bool(s & NEG)
    return bool(s & ZERO)


class Search:
    def __init__(self, assumptions):
        self.assumptions = assumptions

    def sign_of(self, t) -> Optional[int]:
        for pred, s, _ in self.assumptions:
            try:
                if pred(t):
                    return s
            except Exception:
                pass
        return None

    def atoms(self, t, out: List):
        """maximal sub-terms that are inputs: symbols and applications of operators the evaluator does not interpret"""
        if t.is_number:
            return
        f = fname(t)
        if isinstance(t, sp.Symbol) or (f is not None and f not in STRUCT):
            if t not in out:
                out.append(t)
            return
        if isinstance(t, sp.Tuple) or f in STRUCT or isinstance(t, (sp.Add, sp.Mul, sp.Pow, sp.Function, sp.Abs)):
            for a in t.args:
                self.atoms(a, out)
            return
        if t not in out:
            out.append(t)

    def ev(self, t, env: Dict) -> float:
        if t in env:
            return env[t]
        if t.is_number:
            if t in (sp.nan, sp.zoo, sp.oo, -sp.oo):
                raise Invalid()
            return float(t)
        f = fname(t)
        if f in ("ite", "where"):
            return self.ev(t.args[1], env) if self.cond(t.args[0], env) else self.ev(t.args[2], env)
        if f in ("maximum", "max", "minimum", "min"):
            args = list(t.args[0].args) if len(t.args) >= 1 and isinstance(t.args[0], sp.Tuple) else [a for a in t.args if a != T.NONE_T]
            vals = [self.ev(a, env) for a in args]
            if not vals:
                raise Invalid()
            return max(vals) if f in ("maximum", "max") else min(vals)
        if f in ("loopsum", "loopsum_brk"):
            return self.ev(t.args[0], env)          # a one-element sum: every element may take the sampled value
        if f == "pymod":
            a, b = self.ev(t.args[0], env), self.ev(t.args[1], env)
            if b == 0:
                raise Invalid()
            return a % b
        if f in ("lt", "ge", "gt", "le", "eq", "ne", "and_", "or_", "not_", "isnull", "isnan"):
            return 1.0 if self.cond(t, env) else 0.0
        if isinstance(t, sp.Add):
            return sum(self.ev(a, env) for a in t.args)
        if isinstance(t, sp.Mul):
            v = 1.0
            for a in t.args:
                v *= self.ev(a, env)
            return v
        if isinstance(t, sp.Pow):
            b, e = self.ev(t.args[0], env), self.ev(t.args[1], env)
            if b == 0 and e < 0:
                raise Invalid()
            if b < 0 and abs(e - round(e)) > 1e-12:
                raise Invalid()
            try:
                return float(b ** (int(round(e)) if abs(e - round(e)) < 1e-12 else e))
            except (OverflowError, ZeroDivisionError):
                raise Invalid()
        table = {sp.exp: math.exp, sp.log: math.log, sp.cos: math.cos, sp.sin: math.sin, sp.tan: math.tan, sp.tanh: math.tanh,
                 sp.sinh: math.sinh, sp.cosh: math.cosh, sp.Abs: abs, sp.sqrt: math.sqrt, sp.atan: math.atan}
        for k, fn in table.items():
            if isinstance(t, k):
                try:
                    return float(fn(self.ev(t.args[0], env)))
                except (ValueError, OverflowError):
                    raise Invalid()
        if isinstance(t, sp.atan2):
            return math.atan2(self.ev(t.args[0], env), self.ev(t.args[1], env))
        raise Invalid()

    def cond(self, c, env) -> bool:
        f = fname(c)
        if c == T.TRUE_T:
            return True
        if c == T.FALSE_T:
            return False
        if f == "and_":
            return all(self.cond(a, env) for a in c.args)
        if f == "or_":
            return any(self.cond(a, env) for a in c.args)
        if f == "not_":
            return not self.cond(c.args[0], env)
        if f in ("isnull", "isnan"):
            return False
        if f in ("lt", "ge", "gt", "le", "eq", "ne") and len(c.args) == 2:
            a, b = self.ev(c.args[0], env), self.ev(c.args[1], env)
            return {"lt": a < b, "ge": a >= b, "gt": a > b, "le": a <= b, "eq": a == b, "ne": a != b}[f]
        if c in env:
            return bool(env[c])
        raise Invalid()

    def find(self, term, want: int, trials: int = 800, seed: int = 20260929) -> Optional[Tuple[Dict, float]]:
        """an assignment under which `term` has a sign in `want`, respecting the assumptions; or None"""
        term = T.strip_never(T.to_term(term))
        atoms: List = []
        self.atoms(term, atoms)
        if len(atoms) > 40:
            return None
        # assumption-constrained composite sub-terms outside the atoms (atoms are sampled inside their sign set already)
        constrained: List = []

        def collect(t):
            if t in atoms or t.is_number:
                return
            if self.sign_of(t) is not None and t not in constrained:
                constrained.append(t)
            for a in t.args:
                collect(a)
        collect(term)
        rng = random.Random(seed)
        for _ in range(trials):
            env = {}
            for a in atoms:
                s = self.sign_of(a)
                if s is None:
                    env[a] = rng.choice(GENERIC)
                else:
                    pool = [v for v in GENERIC + POSITIVE if _in(v, s)]
                    env[a] = rng.choice(pool) if pool else 1.0
            try:
                if any(not _in(self.ev(s, env), self.sign_of(s)) for s in constrained):
                    continue
                v = self.ev(term, env)
            except Invalid:
                continue
            except Exception:
                continue
            if _in(v, want) and v != 0:
                return env, v
        return None


def describe(env: Dict, limit: int = 6) -> str:
    items = sorted(env.items(), key=lambda kv: str(kv[0]))[:limit]
    return ", ".join(f"{T.show(k, 50)} = {v:g}" for k, v in items) + (" ..." if len(env) > limit else "")
